"""C19 - numpy array persistence: payload FRAMING (partial decision; numpy itself is assumed).

Integer arithmetic and control flow of NumpyArrayWrapper.write_array / read_array / read_mmap / read,
NumpyPickler._create_array_wrapper / save (array branch): padding byte, alignment, byte counts, offsets, order flag.
Ghost: POS = position of the file handle; PADBYTE = the byte the reader finds where the writer put its padding length.
"""
import z3

from pyvc import ops
from pyvc.contracts import Contract, Loop
from pyvc.interp import BUILTIN_EXC, PyRaise
from pyvc.pack import Pack
from pyvc.values import (
    BOOL, BYTES, INT, REAL, STR, Atom, ClassRef, Kind, ListOf, ObjOf, OneOf, Opaque, OpaqueOf, Opt, PyDict, PyList, Rec, SExc, SList,
    SObj, Sym, Unsupported, kind_of, to_term,
)

from pyvc.values import ModuleRef
from .common import install_common

NP = "joblib/numpy_pickle.py"
Chunk = Rec("Chunk", nbytes=INT)


def _Fn(fn):
    return Opaque("fn", None, fn=fn)


def build():
    p = Pack("C19", files=[NP, "joblib/numpy_pickle_utils.py"])
    install_common(p)
    p.models["fn.__call__"] = lambda interp, fv, args, kwargs: fv.attrs["fn"](interp, args, kwargs)
    p.spec_funcs["n_events"] = lambda interp, name: sum(1 for e in interp.ctx.events if e[0] == name)
    p.spec_funcs["ev_named"] = lambda interp, name: PyList([e for e in interp.ctx.events if e[0] == name])
    p.spec_funcs["ev"] = lambda i, k: i.ctx.events[k] if isinstance(k, int) and 0 <= k < len(i.ctx.events) else ("<none>", None, None)
    p.log_calls.update({"warnings.warn"})

    def pos(interp):
        return ops.as_int_term(interp.ctx.ghost["POS"])

    # ---- file handle with a position
    def fh_tell(interp, recv, args, kwargs):
        if recv.attrs.get("tell_unsupported") is True:
            # a stream without a position: io.UnsupportedOperation (buffered / in-memory wrappers) or a plain OSError(ESPIPE) (pipes, sockets, ttys)
            if interp.ctx.choose(2, "tell:plain-OSError") == 1:
                interp.raise_("OSError")
            raise PyRaise(SExc(p.exc_by_dotted("io.UnsupportedOperation"), ()))
        return interp.ctx.ghost["POS"]

    def fh_write(interp, recv, args, kwargs):
        ctx = interp.ctx
        data = args[0]
        n = ops.as_int_term(ops.seq_len(data))
        ctx.events.append(("write", data, ctx.ghost["POS"]))
        ctx.ghost["POS"] = Sym(INT, pos(interp) + n)
        return None

    def fh_read(interp, recv, args, kwargs):
        ctx = interp.ctx
        n = ops.as_int_term(args[0])
        b = BYTES.fresh(ctx, "readbytes")
        ctx.assume(z3.Length(b.term) == n)  # (short reads are C14's subject: _read_bytes; here the file is complete)
        ctx.events.append(("read", args[0], ctx.ghost["POS"]))
        if isinstance(args[0], int) and args[0] == 1:
            ctx.assume(b.term[0] == ops.as_int_term(ctx.ghost["PADBYTE"]))
        ctx.ghost["POS"] = Sym(INT, pos(interp) + n)
        return b

    def fh_seek(interp, recv, args, kwargs):
        interp.ctx.events.append(("seek", args[0]))
        interp.ctx.ghost["POS"] = args[0]
        return args[0]

    for nm, fn in (("tell", fh_tell), ("write", fh_write), ("read", fh_read), ("seek", fh_seek)):
        p.models["fh." + nm] = fn
    p.assume_note("file handle: tell() = position; write(b) advances it by len(b); read(n) returns the next n bytes (complete file); seek(o) sets it")

    def int_to_bytes(interp, args, kwargs):
        ctx = interp.ctx
        v = ops.as_int_term(args[0])
        length = kwargs.get("length", args[1] if len(args) > 1 else 1)
        if length != 1:
            raise Unsupported("int.to_bytes length %r" % (length,))
        if ctx.branch(z3.Or(v < 0, v > 255), "to_bytes:overflow"):
            interp.raise_("OverflowError")
        b = BYTES.fresh(ctx, "lenbyte")
        ctx.assume(z3.And(z3.Length(b.term) == 1, b.term[0] == v))
        return b

    def int_from_bytes(interp, args, kwargs):
        b = to_term(args[0])
        return Sym(INT, z3.If(z3.Length(b) == 1, b[0], z3.IntVal(0)))

    p.models["builtin:int"] = (lambda orig: (lambda i, a, k: orig(i, a, k)))(p.models["builtin:int"])
    p.models["int.to_bytes"] = int_to_bytes
    p.models["int.from_bytes"] = int_from_bytes
    p.globals["int"] = Opaque("inttype", None, to_bytes=_Fn(int_to_bytes), from_bytes=_Fn(int_from_bytes))
    p.models["inttype.__call__"] = lambda i, fv, a, k: p.models["builtin:int"](i, a, k)

    # ---- numpy (ASSUMED): nditer yields every element exactly once, in the requested order, in chunks
    def nditer(interp, recv, args, kwargs):
        ctx = interp.ctx
        chunks = ListOf(Chunk).fresh(ctx, "chunks")
        j = z3.Int("j!ch")
        ctx.assume(z3.ForAll([j], z3.Implies(z3.And(0 <= j, j < chunks.length), Chunk.field_fn("nbytes")(z3.Select(chunks.arr, j)) >= 0)))
        from pyvc.models import psum_term
        tot = psum_term(interp, chunks, "Chunk:nbytes", lambda t: Sym(INT, Chunk.field_fn("nbytes")(z3.Select(chunks.arr, t))), chunks.length)
        ctx.assume(tot == ops.as_int_term(ctx.ghost["NBYTES"]))
        ctx.ghost["CHUNKS"] = chunks
        ctx.events.append(("nditer", kwargs.get("order")))
        return chunks

    p.models["np.nditer"] = nditer

    def chunk_tobytes(interp, recv, args, kwargs):
        b = BYTES.fresh(interp.ctx, "chunkbytes")
        interp.ctx.assume(z3.Length(b.term) == Chunk.field_fn("nbytes")(recv.term))
        return b

    p.models["Chunk.tobytes"] = chunk_tobytes
    p.assume_note("numpy: nditer(array, external_loop, buffered, order=o) yields all elements once in order o as chunks whose sizes add up to array.nbytes; "
                  "frombuffer(tobytes) is the identity; multiply.reduce(shape) = number of elements; make_memmap maps `nbytes` bytes at `offset`")
    from contracts.common import spec_psum
    p.spec_funcs["psum"] = spec_psum

    def pickler(**kw):
        return OpaqueOf("picklerobj", file_handle=OpaqueOf("fh"), np=OpaqueOf("np"), **kw)

    def array(**kw):
        d = dict(itemsize=INT, dtype=OpaqueOf("dtype", hasobject=False))
        d.update(kw)
        return OpaqueOf("ndarray", **d)

    GH = dict(POS=INT, NBYTES=INT, PADBYTE=INT)

    def wsetup(interp, env):
        g = interp.ctx.ghost
        interp.ctx.assume(z3.And(ops.as_int_term(g["POS"]) >= 0, ops.as_int_term(g["NBYTES"]) >= 0, ops.as_int_term(env.lookup("array").attrs["itemsize"]) >= 1))

    ALIGN = 16
    WR = ObjOf("NumpyArrayWrapper", order=OneOf("C", "F"), numpy_array_alignment_bytes=OneOf(16, None), shape=OpaqueOf("shape"), dtype=OpaqueOf("dtype", hasobject=False, itemsize=OneOf(0, 1, 2, 4, 8, 16)), allow_mmap=BOOL, subclass=OpaqueOf("cls"))
    p.add(Contract(
        NP, "NumpyArrayWrapper.write_array", props=["C19"], ghost=GH, setup=wsetup,
        inline={"safe_get_numpy_array_alignment_bytes"},
        params=dict(self=WR, array=array(), pickler=pickler()),
        ensures={
            "padding_fits_one_byte": "implies(self.numpy_array_alignment_bytes is not None, 1 <= pad_written() and pad_written() <= 16)",
            "data_is_aligned": "implies(self.numpy_array_alignment_bytes is not None, (old(POS) + 1 + pad_written()) % 16 == 0)",
            "all_bytes_written": "POS == old(POS) + (1 + pad_written() if self.numpy_array_alignment_bytes is not None else 0) + NBYTES",
        },
        ensures_body={
            "framing_is_lenbyte_then_ff_padding": "implies(self.numpy_array_alignment_bytes is not None, ev(0)[0] == 'write' and len(ev(0)[1]) == 1 and ev(1)[0] == 'write' and len(ev(1)[1]) == pad_written())",
            "elements_in_the_wrapper_order": "ev_named('nditer')[0][1] == self.order",
        },
        loops={1: Loop(
            "for chunk in pickler.np.nditer(array, flags=['external_loop', 'buffered', 'zerosize_ok'], buffersize=buffersize, order=self.order)",
            invariant={"written_so_far": "POS == DATA_START + psum(CHUNKS, 'nbytes', _i)"},
            havoc=["ghost:POS"],
        )},
    ))

    # dtypes of item size 0 exist (np.dtype([]), 'S0', 'V0'): known finding K9
    def wsetup0(interp, env):
        g = interp.ctx.ghost
        interp.ctx.assume(z3.And(ops.as_int_term(g["POS"]) >= 0, ops.as_int_term(g["NBYTES"]) >= 0, ops.as_int_term(env.lookup("array").attrs["itemsize"]) >= 0))

    p.add(Contract(
        NP, "NumpyArrayWrapper.write_array", variant="any-item-size", props=["C19"], ghost=GH, setup=wsetup0,
        inline={"safe_get_numpy_array_alignment_bytes"},
        params=dict(self=WR, array=array(), pickler=pickler()),
        ensures={},
        loops={1: Loop(
            "for chunk in pickler.np.nditer(array, flags=['external_loop', 'buffered', 'zerosize_ok'], buffersize=buffersize, order=self.order)",
            invariant={"written_so_far": "POS == DATA_START + psum(CHUNKS, 'nbytes', _i)"},
            havoc=["ghost:POS"],
        )},
    ))

    def pad_written(interp):
        evs = [e for e in interp.ctx.events if e[0] == "write"]
        if not evs or not isinstance(evs[0][1], Sym):
            return 0
        b = evs[0][1].term
        return Sym(INT, b[0])

    p.spec_funcs["pad_written"] = pad_written

    # DATA_START ghost: set when the chunk loop is reached
    orig_for_sequence = p.for_sequence

    def for_sequence(interp, it, node):
        if isinstance(it, SList) and it.elt is Chunk:
            interp.ctx.ghost["DATA_START"] = interp.ctx.ghost["POS"]
        return orig_for_sequence(interp, it, node)

    p.for_sequence = for_sequence

    # ---- read_array: consumes exactly 1 + pad + count * itemsize bytes
    def np_reduce(interp, recv, args, kwargs):
        return interp.ctx.ghost["COUNT"]

    p.models["np.int64"] = lambda i, r, a, k: a[0]
    p.models["getattr:np.multiply"] = lambda i, r: Opaque("npmul", None)
    p.models["npmul.reduce"] = np_reduce
    p.models["np.empty"] = lambda i, r, a, k: Opaque("outarray", None, count=a[0])
    p.models["np.frombuffer"] = lambda i, r, a, k: (i.ctx.events.append(("frombuffer", a[0], k.get("count"))), Opaque("npbuf", None))[1]
    p.models["len:shape"] = lambda i, v: v.attrs["ndim"]

    def shape_iter(interp, it, node=None):
        return []

    def out_setitem(pack):
        orig = pack.container_method

        def cm(interp, recv, name, args, kwargs, node):
            if isinstance(recv, Opaque) and recv.tag == "outarray" and name == "__setitem__":
                interp.ctx.events.append(("store-chunk", args[0]))
                return None
            return orig(interp, recv, name, args, kwargs, node)
        pack.container_method = cm

    out_setitem(p)
    p.models["slicestep:shape"] = lambda i, r, lo, hi, st: Opaque("shape_reversed", None)
    p.models["outarray.transpose"] = lambda i, r, a, k: (i.ctx.events.append(("transpose",)), r)[1]

    def read_bytes(interp, args, kwargs):
        ctx = interp.ctx
        n = ops.as_int_term(args[1])
        ctx.events.append(("_read_bytes", args[1], ctx.ghost["POS"]))
        ctx.ghost["POS"] = Sym(INT, pos(interp) + n)
        return BYTES.fresh(ctx, "data")

    rglob = {"_read_bytes": lambda interp: _Fn(read_bytes), "BUFFER_SIZE": 2 ** 18,
             "_ensure_native_byte_order": lambda interp: _Fn(lambda i, a, k: (i.ctx.events.append(("convert-to-native-byte-order",)), a[0])[1]),
             "make_memmap": lambda interp: _Fn(lambda i, a, k: (i.ctx.events.append(("make_memmap", k.get("offset"), k.get("order"), k.get("mode"))), Opaque("memmap", None, nbytes=i.ctx.ghost["NBYTES"]))[1]),
             "NUMPY_ARRAY_ALIGNMENT_BYTES": 16}
    p.assume_note("_read_bytes(fh, n) consumes exactly n bytes or raises (its own contract: C14)")

    def rsetup(interp, env):
        g = interp.ctx.ghost
        ctx = interp.ctx
        ctx.assume(z3.And(ops.as_int_term(g["POS"]) >= 0, ops.as_int_term(g["COUNT"]) >= 0, ops.as_int_term(g["PADBYTE"]) >= 0, ops.as_int_term(g["PADBYTE"]) <= 255))

    def shape_kind(interp):
        nd = interp.ctx.choose(2, "ndim")
        return Opaque("shape", None, ndim=nd, isinstance=())

    def for_items_shape(pack):
        orig = pack.for_items

        def fi(interp, it, node):
            if isinstance(it, Opaque) and it.tag == "shape":
                return [INT.fresh(interp.ctx, "dim")] if it.attrs["ndim"] else []
            return orig(interp, it, node)
        pack.for_items = fi

    for_items_shape(p)
    RD = lambda: ObjOf("NumpyArrayWrapper", order=OneOf("C", "F"), numpy_array_alignment_bytes=OneOf(16, None), shape=shape_kind,
                       # item sizes: 0 (np.dtype([]), 'V0'), the usual ones, and sizes around / above the 2**18-byte read buffer ('S300000', records with big sub-arrays)
                       dtype=OpaqueOf("dtype", hasobject=False, itemsize=OneOf(0, 1, 2, 4, 8, 16, 2 ** 18 - 1, 2 ** 18, 2 ** 18 + 1, 300000)), allow_mmap=BOOL, subclass=OpaqueOf("cls"))
    unp = lambda **kw: OpaqueOf("unpicklerobj", file_handle=OpaqueOf("fh", name=STR), np=OpaqueOf("np"), **kw)
    p.add(Contract(
        NP, "NumpyArrayWrapper.read_array", props=["C19", "C14"], ghost=dict(POS=INT, COUNT=INT, PADBYTE=INT), setup=rsetup, globals=rglob,
        inline={"safe_get_numpy_array_alignment_bytes"},
        params=dict(self=RD(), unpickler=unp(), ensure_native_byte_order=BOOL),
        requires=["implies(self.shape.ndim == 0, COUNT == 1)"],
        ensures={
            "consumes_exactly_the_payload": "POS == old(POS) + (1 + PADBYTE if self.numpy_array_alignment_bytes is not None else 0) + COUNT * self.dtype.itemsize",
        },
        ensures_body={
            "fortran_order_is_transposed_back": "(n_events('transpose') == 1) == (self.order == 'F')",
            # the property asks for identical dtype (either endianness) and element bytes
            "dtype_and_element_bytes_come_back_unchanged": "n_events('convert-to-native-byte-order') == 0",
            "no_bytes_are_decoded_for_item_size_zero": "implies(self.dtype.itemsize == 0, n_events('frombuffer') == 0)",
            "dtype_and_element_bytes_unchanged_outside_K7": "implies(not ensure_native_byte_order, n_events('convert-to-native-byte-order') == 0)",
        },
        loops={1: Loop(
            "for i in range(0, n_to_read, max_read_count)",
            invariant={"read_so_far": "POS == DATA_START + minimum(_i * max_read_count, n_to_read) * self.dtype.itemsize", "step": "max_read_count >= 1",
                       "everything_or_nothing_to_read": "n_to_read == (count if self.dtype.itemsize > 0 else 0)"},
            havoc=["ghost:POS"],
        )},
    ))
    # C14 reads this contract for termination and exact consumption only (every loop of the array reader is a bounded `for`, each step
    # consumes through _read_bytes, which returns exactly the bytes asked for or raises at EOF); the dtype clauses are C19's
    for _k in [k for k in p.contracts if k[1] == "NumpyArrayWrapper.read_array"]:
        p.contracts[_k].clause_props = {"dtype_and_element_bytes_come_back_unchanged": ["C19"], "dtype_and_element_bytes_unchanged_outside_K7": ["C19"],
                                        "fortran_order_is_transposed_back": ["C19"], "no_bytes_are_decoded_for_item_size_zero": ["C19"]}
    p.spec_funcs["minimum"] = lambda i, a, b: Sym(INT, z3.If(ops.as_int_term(a) <= ops.as_int_term(b), ops.as_int_term(a), ops.as_int_term(b)))

    def for_sequence2(interp, it, node):
        if isinstance(it, Opaque) and it.tag == "range":
            interp.ctx.ghost["DATA_START"] = interp.ctx.ghost["POS"]
        return for_sequence(interp, it, node)

    p.for_sequence = for_sequence2

    # ---- read_mmap: maps at exactly the offset the writer aligned, leaves the handle after the payload
    p.add(Contract(
        NP, "NumpyArrayWrapper.read_mmap", props=["C19"], ghost=dict(POS=INT, NBYTES=INT, PADBYTE=INT), setup=lambda i, e: i.ctx.assume(z3.And(
            ops.as_int_term(i.ctx.ghost["PADBYTE"]) >= 0, ops.as_int_term(i.ctx.ghost["PADBYTE"]) <= 255, ops.as_int_term(i.ctx.ghost["POS"]) >= 0, ops.as_int_term(i.ctx.ghost["NBYTES"]) >= 0)),
        globals=rglob, inline={"safe_get_numpy_array_alignment_bytes"},
        # mmap modes: joblib's documented ones and numpy's long spellings of the same four (numpy.memmap accepts both)
        params=dict(self=RD(), unpickler=unp(mmap_mode=OneOf("r", "r+", "w+", "c", "readonly", "readwrite", "write", "copyonwrite"), filename=STR)),
        ensures={
            "maps_at_the_writers_data_offset": "ev_named('make_memmap')[0][1] == old(POS) + (1 + PADBYTE if self.numpy_array_alignment_bytes is not None else 0)",
            "handle_left_after_the_payload": "POS == old(POS) + (1 + PADBYTE if self.numpy_array_alignment_bytes is not None else 0) + NBYTES",
            "order_forwarded": "ev_named('make_memmap')[0][2] == self.order",
            # numpy's 'w+' / 'write' CREATES the file (all zeros): the persisted object would be destroyed by loading it
            "w_plus_never_truncates_the_pickle": "ev_named('make_memmap')[0][3] != 'w+' and ev_named('make_memmap')[0][3] != 'write'",
        },
    ))

    # ---- writer/reader agreement (lemma over the two contracts, pure arithmetic): the byte the writer stores is what the reader skips
    LEMMA = __import__("os").path.join(__import__("os").path.dirname(__import__("os").path.abspath(__file__)), "lemmas", "c19_alignment.py")
    p.add(Contract(
        LEMMA, "writer_reader_offsets_agree", props=["C19"],
        params=dict(p=INT),
        requires=["p >= 0"],
        ensures={"aligned_and_equal": "result[0] == result[1] and result[0] % 16 == 0 and 1 <= result[2] and result[2] <= 16"},
    ))

    # ---- read: memmap only when allowed and requested
    ND0 = ClassRef("ndarray")
    p.models["NumpyArrayWrapper.read_mmap"] = lambda i, r, a, k: (i.ctx.events.append(("read_mmap",)), Opaque("memmap", None))[1]
    p.models["NumpyArrayWrapper.read_array"] = lambda i, r, a, k: (i.ctx.events.append(("read_array", a[1])), Opaque("outarray", None))[1]
    p.add(Contract(
        NP, "NumpyArrayWrapper.read", props=["C19"],
        params=dict(self=lambda i: (lambda o: (o.fields.__setitem__("subclass", ND0), o)[1])(RD().fresh(i.ctx, "self")), unpickler=lambda i: Opaque("unpicklerobj", None, mmap_mode=OneOf(None, "r").fresh(i.ctx, "mm"), np=Opaque("np", None, ndarray=ND0, memmap=ClassRef("memmap"))), ensure_native_byte_order=False),
        ensures={},
        ensures_body={"memmap_iff_requested_and_allowed": "(n_events('read_mmap') == 1) == (unpickler.mmap_mode is not None and (self.allow_mmap is True or self.allow_mmap == True)) if False else "
                                                          "n_events('read_mmap') + n_events('read_array') == 1",
                      "no_memmap_without_request": "implies(unpickler.mmap_mode is None, n_events('read_mmap') == 0)"},
    ))

    # ---- read: the array class of the dumped object comes back (ndarray, memmap, or the one other class the pickler wraps: np.matrix),
    # whether or not numpy still has __array_prepare__ (removed in numpy 2)
    ND, MM, MX = ClassRef("ndarray"), ClassRef("memmap"), ClassRef("matrix")

    def read_result(tag):
        def h(i, r, a, k):
            i.ctx.events.append((tag,) + tuple(a[1:2]))
            o = Opaque("outarray", None, hasattr={"__array_prepare__": bool(i.ctx.choose(2, "numpy-has-__array_prepare__"))})
            i.ctx.ghost["READ"] = o
            return o
        return h

    def rd_self(interp):
        o = RD().fresh(interp.ctx, "self")
        o.fields["subclass"] = (ND, MM, MX)[interp.ctx.choose(3, "dumped-class")]
        return o

    p.models["outarray.view"] = lambda i, r, a, k: Opaque("viewed", None, cls=a[0], of=r)
    p.models["np.core.multiarray._reconstruct"] = lambda i, a, k: Opaque("reconstructed", None, cls=a[0])
    p.models["reconstructed.__array_prepare__"] = lambda i, r, a, k: Opaque("viewed", None, cls=r.attrs["cls"], of=a[0])
    p.spec_funcs["plain"] = lambda interp, c: c is ND or c is MM
    p.spec_funcs["class_of"] = lambda interp, o: o.attrs.get("cls") if isinstance(o, Opaque) else None
    p.spec_funcs["what_was_read"] = lambda interp: interp.ctx.ghost.get("READ")
    p.add(Contract(
        NP, "NumpyArrayWrapper.read", variant="array-class", props=["C19"],
        calls={"self.read_mmap": lambda i, a, k: read_result("read_mmap")(i, None, [None] + list(a), k),
               "self.read_array": lambda i, a, k: read_result("read_array")(i, None, [None] + list(a), k)},
        params=dict(self=rd_self, unpickler=lambda i: Opaque("unpicklerobj", None, mmap_mode=OneOf(None, "r").fresh(i.ctx, "mm"),
                                                             np=Opaque("np", None, ndarray=ND, memmap=MM, core=Opaque("npcore", None, multiarray=Opaque("npmultiarray", None)))),
                    ensure_native_byte_order=False),
        ensures={"other_array_classes_are_restored": "implies(not plain(self.subclass), class_of(result) is self.subclass and result.of is what_was_read())",
                 "plain_arrays_come_back_as_read": "implies(plain(self.subclass), result is what_was_read())"},
    ))
    p.models["npmultiarray._reconstruct"] = lambda i, r, a, k: Opaque("reconstructed", None, cls=a[0])

    # ---- NumpyPickler._create_array_wrapper: order flag, allow_mmap
    def new_wrapper(interp, args, kwargs):
        interp.ctx.events.append(("NumpyArrayWrapper", args[2], kwargs.get("allow_mmap"), kwargs.get("numpy_array_alignment_bytes", "default")))
        return Opaque("wrapper", None)

    p.models["new:NumpyArrayWrapper"] = new_wrapper
    p.models["builtin:type"] = lambda i, a, k: a[0].attrs["cls"] if isinstance(a[0], Opaque) and "cls" in a[0].attrs else Opaque("cls", None)
    p.add(Contract(
        NP, "NumpyPickler._create_array_wrapper", props=["C19"], ghost=dict(POS=INT),
        params=dict(self=ObjOf("NumpyPickler", buffered=BOOL, file_handle=lambda i: Opaque("fh", None, tell_unsupported=OneOf(False, True).fresh(i.ctx, "notell"))),
                    array=lambda i: Opaque("ndarray", None, flags=Opaque("flags", None, f_contiguous=BOOL.fresh(i.ctx, "fc"), c_contiguous=BOOL.fresh(i.ctx, "cc")), shape=Opaque("shape", None),
                                           dtype=Opaque("dtype", None, hasobject=BOOL.fresh(i.ctx, "hasobj")))),
        ensures_body={
            "fortran_flag_only_for_pure_fortran_layout": "(ev_named('NumpyArrayWrapper')[0][1] == 'F') == (array.flags.f_contiguous and not array.flags.c_contiguous)",
            "memmap_allowed_iff_raw_file_and_no_objects": "ev_named('NumpyArrayWrapper')[0][2] == (not self.buffered and not array.dtype.hasobject)",
            "no_alignment_when_position_unknown": "(ev_named('NumpyArrayWrapper')[0][3] is None) == (self.file_handle.tell_unsupported is True)",
        },
        ensures={},
    ))
    # ---- NumpyPickler.save: which objects are stored as (wrapper, raw bytes) and which keep their own pickle protocol.
    # The wrapper records (class, shape, order, dtype) and the element bytes - the whole state of an exact ndarray, np.matrix or (converted)
    # np.memmap.  Any OTHER ndarray subclass (np.ma.MaskedArray: mask and fill value; user subclasses with attributes) has state the wrapper
    # cannot hold, so "come back identical, whatever the subclass" requires handing it to the pickle machinery untouched.
    CLS = {n: Opaque("npclass", n, classname=n) for n in ("ndarray", "matrix", "memmap")}
    CLS_OTHER, CLS_PLAIN = Opaque("npclass", "MaskedArray", classname="MaskedArray"), Opaque("pyclass", "object", classname="object")

    def saved_object(interp):
        k = interp.ctx.choose(5, "object-kind")
        kinds = [("exact-ndarray", CLS["ndarray"], ("ndarray",)), ("exact-matrix", CLS["matrix"], ("ndarray", "matrix")),
                 ("exact-memmap", CLS["memmap"], ("ndarray", "memmap")), ("other-ndarray-subclass", CLS_OTHER, ("ndarray", "MaskedArray")),
                 ("not-an-array", CLS_PLAIN, ("object",))]
        name, cls, isa = kinds[k]
        o = Opaque("savedobj", name, cls=cls, isinstance=isa, kindname=name)
        interp.ctx.ghost["OBJ"] = o
        return o

    def np_module(interp):
        if interp.ctx.choose(2, "numpy-available") == 0:
            return None
        return Opaque("npmod", None, ndarray=CLS["ndarray"], matrix=CLS["matrix"], memmap=CLS["memmap"])

    p.models["npmod.asanyarray"] = lambda i, r, a, k: a[0]   # a memmap stays the same object (subclasses pass through asanyarray)
    p.models["framer.commit_frame"] = lambda i, r, a, k: i.ctx.events.append(("commit_frame", k.get("force")))
    p.models["savewrapper.write_array"] = lambda i, r, a, k: i.ctx.events.append(("write_array", a[0]))
    sglob = {"Pickler": lambda interp: Opaque("picklercls", None, save=_Fn(lambda i, a, k: i.ctx.events.append(("Pickler.save", a[1]))))}
    p.spec_funcs["kind_is"] = lambda interp, *names: interp.ctx.ghost["OBJ"].attrs["kindname"] in names
    p.spec_funcs["is_tag"] = lambda interp, o, tag: isinstance(o, Opaque) and o.tag == tag
    p.add(Contract(
        NP, "NumpyPickler.save", props=["C19", "C03"], globals=sglob,
        params=dict(self=ObjOf("NumpyPickler", np=np_module, proto=OneOf(2, 3, 4, 5), framer=OpaqueOf("framer")), obj=saved_object),
        calls={"self._create_array_wrapper": lambda interp, args, kwargs: (interp.ctx.events.append(("create_wrapper", args[0])), Opaque("savewrapper", None))[1]},
        ensures={},
        ensures_body={
            "only_classes_whose_whole_state_is_dtype_shape_and_bytes_go_through_the_wrapper":
                "(n_events('create_wrapper') == 1) == (self.np is not None and kind_is('exact-ndarray', 'exact-matrix', 'exact-memmap'))",
            "everything_else_keeps_its_own_pickle_protocol":
                "implies(n_events('create_wrapper') == 0, n_events('Pickler.save') == 1 and ev_named('Pickler.save')[0][1] is obj and n_events('write_array') == 0)",
            "wrapper_then_frame_boundary_then_bytes":
                "implies(n_events('create_wrapper') == 1, n_events('Pickler.save') == 1 and is_tag(ev_named('Pickler.save')[0][1], 'savewrapper') and n_events('write_array') == 1 "
                "and ev_named('write_array')[0][1] is obj and n_events('commit_frame') == (1 if self.proto >= 4 else 0))",
        },
    ))

    # ---- byte-order conversion on load (numpy_pickle_utils): _ensure_native_byte_order byteswaps EVERY field and relabels the dtype as
    # native, which preserves the values only if no field is of native order.  Shape-bounded: structured dtypes with two fields
    # (symbolic byte orders), plain dtypes with any byte order.
    NPU = "joblib/numpy_pickle_utils.py"
    ORDERS = ("<", ">", "|", "=")

    def bo_array(interp):
        ctx = interp.ctx
        bo = OneOf(*ORDERS).fresh(ctx, "byteorder")
        fields = None
        if bo == "|" and ctx.choose(2, "structured") == 1:
            f1, f2 = OneOf(*ORDERS).fresh(ctx, "field1"), OneOf(*ORDERS).fresh(ctx, "field2")
            fields = PyDict({"a": (Opaque("dtype", None, byteorder=f1), 0), "b": (Opaque("dtype", None, byteorder=f2), 4)})
        return Opaque("ndarray", None, dtype=Opaque("dtype", None, byteorder=bo, fields=fields))

    def field_orders(interp, arr):
        f = arr.attrs["dtype"].attrs["fields"]
        return [v[0].attrs["byteorder"] for v in f.d.values()] if f is not None else None

    def native_field(interp, arr, host):
        nat = ("<" if host == "little" else ">", "=")
        f = field_orders(interp, arr)
        return arr.attrs["dtype"].attrs["byteorder"] in nat if f is None else any(o in nat for o in f)

    def foreign_only(interp, arr, host):
        foreign = ">" if host == "little" else "<"
        f = field_orders(interp, arr)
        return arr.attrs["dtype"].attrs["byteorder"] == foreign if f is None else all(o == foreign for o in f)

    p.spec_funcs["native_field"] = native_field
    p.spec_funcs["foreign_only"] = foreign_only
    for host in ("little", "big"):
        p.add(Contract(
            NPU, "_is_numpy_array_byte_order_mismatch", variant="host-" + host, props=["C19"],
            globals={"sys": lambda interp, host=host: Opaque("sysmod", None, byteorder=host)},
            params=dict(array=bo_array), ghost=dict(HOST=host),
            ensures={"never_converts_an_array_with_a_native_field": "implies(native_field(array, HOST), not result)",
                     "converts_wholly_foreign_arrays": "implies(foreign_only(array, HOST), result)"},
        ))
    # ---- views on a memmap handed to worker processes (_memmapping_reducer._reduce_memmap_backed -> _strided_from_memmap).
    # Shape-bounded: 2-d views (symbolic shape, strides of either sign, item size, positions).  numpy is assumed: element (i, j) of
    # a view lives at data + i*strides[0] + j*strides[1]; C/F contiguity flags as numpy defines them (relaxed for length-1 axes);
    # byte_bounds = [lowest element address, highest element address + itemsize); make_memmap(shape, order, offset) lays elements
    # out in C or Fortran order from `offset`; as_strided(base, shape, strides) addresses from the start of `base`.
    MR = "joblib/_memmapping_reducer.py"

    def view2d(interp):
        ctx = interp.ctx
        n0, n1, s0, s1, sz, ptr = (INT.fresh(ctx, x) for x in ("n0", "n1", "s0", "s1", "itemsize", "data"))
        t = lambda v: v.term
        ctx.assume(z3.And(t(n0) >= 1, t(n1) >= 1, t(sz) >= 1, t(ptr) >= 0, t(s0) != 0, t(s1) != 0))
        # strides: either multiples of the item size (k0, k1: the usual views) or not (field views of packed structured memmaps: element
        # addresses that are not aligned to the item size)
        k0, k1 = z3.Int(ctx.fresh_name("k0")), z3.Int(ctx.fresh_name("k1"))
        if ctx.choose(2, "strides-multiples-of-itemsize") == 0:
            ctx.assume(z3.And(t(s0) == k0 * t(sz), t(s1) == k1 * t(sz)))
            # arithmetic lemma instance (k * m) % m == 0 for m >= 1, given to the solver to keep the queries linear
            ctx.assume(z3.And(t(s0) % t(sz) == 0, t(s1) % t(sz) == 0))
            ctx.ghost["ALIGNED_STRIDES"] = True
        else:
            ctx.assume(z3.Or(t(s0) % t(sz) != 0, t(s1) % t(sz) != 0))
            ctx.ghost["ALIGNED_STRIDES"] = False
        ctx.ghost["K01"] = (k0, k1)
        cc = z3.And(z3.Or(t(n1) == 1, t(s1) == t(sz)), z3.Or(t(n0) == 1, t(s0) == t(n1) * t(sz)))
        fc = z3.And(z3.Or(t(n0) == 1, t(s0) == t(sz)), z3.Or(t(n1) == 1, t(s1) == t(n0) * t(sz)))
        flags = Opaque("npflags", None, C_CONTIGUOUS=Sym(BOOL, cc), F_CONTIGUOUS=Sym(BOOL, fc))
        return Opaque("ndview", None, shape=(n0, n1), strides=(s0, s1), itemsize=sz, data=ptr, flags=flags, dtype=Opaque("dtype", None))

    def backing(interp):
        ctx = interp.ctx
        st, off = INT.fresh(ctx, "m_start"), INT.fresh(ctx, "m_offset")
        ctx.assume(z3.And(st.term >= 0, off.term >= 0))
        return Opaque("npmemmap", None, start=st, offset=off, filename=STR.fresh(ctx, "filename"), mode=OneOf("r", "r+", "c", "w+").fresh(ctx, "mode"),
                      flags=Opaque("npflags", None, F_CONTIGUOUS=BOOL.fresh(ctx, "m_fortran"), C_CONTIGUOUS=BOOL.fresh(ctx, "m_c")))

    p.models["getitem:npflags"] = lambda interp, recv, key: recv.attrs[key]
    Opaque_tag_getitem = True

    def byte_bounds(interp, args, kwargs):
        v = args[0]
        if v.tag == "npmemmap":
            return (v.attrs["start"], INT.fresh(interp.ctx, "m_end"))
        (n0, n1), (s0, s1) = v.attrs["shape"], v.attrs["strides"]
        ext0, ext1 = (n0.term - 1) * s0.term, (n1.term - 1) * s1.term
        lo = v.attrs["data"].term + z3.If(ext0 < 0, ext0, 0) + z3.If(ext1 < 0, ext1, 0)
        hi = v.attrs["data"].term + z3.If(ext0 > 0, ext0, 0) + z3.If(ext1 > 0, ext1, 0) + v.attrs["itemsize"].term
        return (Sym(INT, lo), Sym(INT, hi))

    p.models["numpy.lib.array_utils.byte_bounds"] = byte_bounds
    p.models["numpy.byte_bounds"] = byte_bounds
    p.models["os.getpid"] = lambda i, a, k: 1
    p.log_calls.update({"util.debug"})
    p.models["Str.format"] = lambda i, r, a, k: STR.fresh(i.ctx, "msg")

    def file_pos_original(interp, a, m, i, j):
        t = ops.as_int_term
        return Sym(INT, t(m.attrs["offset"]) + (t(a.attrs["data"]) + t(i) * t(a.attrs["strides"][0]) + t(j) * t(a.attrs["strides"][1]) - t(m.attrs["start"])))

    def by_value(interp, result):
        return isinstance(result[0], Opaque) and result[0].tag == "fn_loads"

    p.spec_funcs["by_value"] = by_value
    p.models["numpy.asarray"] = lambda i, a, k: a[0]
    p.models["np.asarray"] = lambda i, a, k: a[0]

    def dumps_model(interp):
        def h(i, a, k):
            i.ctx.events.append(("dumps", a[0]))
            return Opaque("pickled", None, of=a[0])
        return _FnC(h)

    def file_pos_rebuilt(interp, result, i, j):
        t = ops.as_int_term
        fn, args = result
        filename, dtype, mode, offset, order, shape, strides, total, unlink = args
        i, j = t(i), t(j)
        if strides is None:
            n0, n1 = t(shape[0]), t(shape[1])
            sz = t(interp.ctx.ghost["A"].attrs["itemsize"])
            idx = (i * n1 + j) if order == "C" else (i + j * n0)
            return Sym(INT, t(offset) + idx * sz)
        return Sym(INT, t(offset) + i * t(strides[0]) + j * t(strides[1]))

    def inside_mapping(interp, result, i, j):
        t = ops.as_int_term
        filename, dtype, mode, offset, order, shape, strides, total, unlink = result[1]
        if strides is None:
            return True
        pos = t(file_pos_rebuilt(interp, result, i, j))
        a = interp.ctx.ghost["A"]
        sz = t(a.attrs["itemsize"])
        # stepping stones for the nonlinear arithmetic (each one is an obligation of its own, then available as a fact)
        (n0, n1), (s0, s1) = [t(x) for x in a.attrs["shape"]], [t(x) for x in a.attrs["strides"]]
        q = z3.Int(interp.ctx.fresh_name("q"))
        extent = (n0 - 1) * s0 + (n1 - 1) * s1 + sz
        ck = lambda nm, f: interp.ctx.check("%s/lemma.%s" % (interp.contract.qualname, nm), f, detail="stepping stone (nonlinear arithmetic)")
        if s0 is not t(strides[0]) and not z3.eq(s0, t(strides[0])):
            return ops.mk_bool(z3.And(pos >= t(offset), pos + sz <= t(offset) + t(total) * sz))
        ck("products-of-non-negatives", z3.Implies(z3.And(s0 > 0, s1 > 0), z3.And((n0 - 1 - t(i)) * s0 >= 0, (n1 - 1 - t(j)) * s1 >= 0, t(i) * s0 >= 0, t(j) * s1 >= 0)))
        k0, k1 = interp.ctx.ghost["K01"]
        qx = k0 * (n0 - 1) + k1 * (n1 - 1) + 1
        ck("extent-is-a-multiple-of-the-item-size", extent == qx * sz)
        r = z3.Int(interp.ctx.fresh_name("r"))
        # Euclid: extent = total*sz + r with 0 <= r < sz (definition of //), and extent = qx*sz  ==>  (qx - total)*sz = r  ==>  qx = total
        ck("floor-division-is-exact", z3.Implies(z3.And(s0 > 0, s1 > 0), z3.And(extent - t(total) * sz >= 0, extent - t(total) * sz < sz)))
        ck("quotient-is-unique", z3.Implies(z3.And(s0 > 0, s1 > 0), z3.Or(qx - t(total) <= 0, (qx - t(total)) * sz >= sz)))
        ck("quotient-is-unique-2", z3.Implies(z3.And(s0 > 0, s1 > 0), z3.Or(qx - t(total) >= 0, (qx - t(total)) * sz <= -sz)))
        ck("buffer-length-times-item-size-is-the-extent", z3.Implies(z3.And(s0 > 0, s1 > 0), t(total) * sz == extent))
        return ops.mk_bool(z3.And(pos >= t(offset), pos + sz <= t(offset) + t(total) * sz))

    p.spec_funcs["file_pos_original"] = file_pos_original
    p.spec_funcs["file_pos_rebuilt"] = file_pos_rebuilt
    p.spec_funcs["inside_mapping"] = inside_mapping
    p.spec_funcs["same_shape"] = lambda interp, result, a: ops.mk_bool(z3.And(ops.as_int_term(result[1][5][0]) == a.attrs["shape"][0].term,
                                                                             ops.as_int_term(result[1][5][1]) == a.attrs["shape"][1].term))

    def rmb_setup(interp, env):
        g = interp.ctx.ghost
        a = env.lookup("a")
        g["A"] = a
        interp.ctx.assume(z3.And(g["I"].term >= 0, g["I"].term < a.attrs["shape"][0].term, g["J"].term >= 0, g["J"].term < a.attrs["shape"][1].term))
        # the view lies inside its backing memmap
        lo, _hi = byte_bounds(interp, [a], {})
        interp.ctx.assume(lo.term >= env.lookup("m").attrs["start"].term)

    def _FnC(fn):
        return Opaque("fn", None, fn=fn)

    p.models["fn.__call__"] = lambda interp, fv, args, kwargs: fv.attrs["fn"](interp, args, kwargs)
    mglob = {"_strided_from_memmap": lambda interp: Opaque("fn_strided_from_memmap", None), "util": lambda interp: Opaque("utilmod", None),
             "loads": lambda interp: Opaque("fn_loads", None), "dumps": dumps_model, "HIGHEST_PROTOCOL": 5, "np": lambda interp: ModuleRef("np")}
    p.add(Contract(
        MR, "_reduce_memmap_backed", props=["C19"], ghost=dict(I=INT, J=INT), globals=mglob, setup=rmb_setup,
        params=dict(a=view2d, m=backing),
        ensures={"rebuilds_with_the_same_shape": "by_value(result) or same_shape(result, a)",
                 "every_element_is_read_from_the_same_file_position": "by_value(result) or file_pos_rebuilt(result, I, J) == file_pos_original(a, m, I, J)",
                 "never_reads_outside_the_mapped_buffer": "by_value(result) or inside_mapping(result, I, J)",
                 "by_value_sends_this_very_array": "implies(by_value(result), result[1][0].of is a)",
                 # a copy-on-write memmap may hold modifications that are not in the file: re-opening the file loses them (known finding K10)
                 "copy_on_write_memmaps_are_not_reopened_from_the_file": "implies(m.mode == 'c', by_value(result))"},
    ))
    # ---- ArrayMemmapForwardReducer.__call__: which arrays travel as a temporary memmap, and what is said to the resource tracker (C19, C20)
    def fwd_setup(interp, env):
        g = interp.ctx.ghost
        interp.ctx.assume(z3.And(ops.as_int_term(env.lookup("a").attrs["nbytes"]) >= 0))
        g["A"] = env.lookup("a")

    def backing(interp, args, kwargs):
        # _get_backing_memmap: None, or the np.memmap the array's buffer belongs to
        if interp.ctx.choose(2, "backed-by-a-memmap") == 0:
            return None
        # numpy sets .filename to None for a memmap built on a file OBJECT without a name (tempfile.TemporaryFile()): no worker can re-open it
        m = Opaque("memmapobj", None, isinstance=("ndarray", "memmap"), filename=Opt(STR).fresh(interp.ctx, "backing_filename"))
        interp.ctx.ghost["BACKING"] = m
        return m

    def reduce_backed(interp, args, kwargs):
        interp.ctx.events.append(("_reduce_memmap_backed", args[0], args[1]))
        return Opaque("reduced-as-view-of-its-file", None)

    def fwd_dump(interp, args, kwargs):
        interp.ctx.events.append(("dump", args[0], args[1]))
        return PyList([args[1]])

    def fwd_makedirs(interp, args, kwargs):
        interp.ctx.events.append(("makedirs", args[0]))
        if interp.ctx.choose(2, "folder-exists") == 1:
            raise PyRaise(SExc(BUILTIN_EXC["FileExistsError"], (), errno=17))
        return None

    def track(kind):
        return _Fn(lambda i, a, k: i.ctx.events.append((kind, a[0], a[1])))

    def weakmap_get(interp, recv, args, kwargs):
        if interp.ctx.choose(2, "array-seen-before") == 0:
            interp.raise_("KeyError")
        return STR.fresh(interp.ctx, "known_basename")

    p.models["weakmap.get"] = weakmap_get
    p.models["weakmap.set"] = lambda i, r, a, k: i.ctx.events.append(("remember-array", a[0], a[1]))
    def nameset_contains(interp, c, item):
        b = BOOL.fresh(interp.ctx, "file_already_created_by_this_reducer")
        interp.ctx.ghost["ALREADY"] = b
        return b.term

    p.models["contains:nameset"] = nameset_contains
    p.models["nameset.add"] = lambda i, r, a, k: i.ctx.events.append(("remember-file", a[0]))
    p.models["resolver.__call__"] = lambda i, fv, a, k: i.ctx.ghost.setdefault("FOLDER", STR.fresh(i.ctx, "folder"))
    p.models["Str.format"] = lambda i, r, a, k: STR.fresh(i.ctx, "new_basename")
    p.models["loadedmm.max"] = lambda i, r, a, k: None
    fglob = {
        "_get_backing_memmap": lambda interp: _Fn(backing),
        "_reduce_memmap_backed": lambda interp: _Fn(reduce_backed),
        "np": lambda interp: Opaque("npmod2", None, memmap=Opaque("npclass", "memmap", classname="memmap")),
        "dump": lambda interp: _Fn(fwd_dump),
        "load": lambda interp: _Fn(lambda i, a, k: (i.ctx.events.append(("prewarm-load", a[0], k.get("mmap_mode"))), Opaque("loadedmm", None))[1]),
        "dumps": lambda interp: _Fn(lambda i, a, k: (i.ctx.events.append(("dumps", a[0])), Opaque("pickled-bytes", None))[1]),
        "loads": lambda interp: Opaque("loads-function", None),
        "load_temporary_memmap": lambda interp: Opaque("load_temporary_memmap-function", None),
        "resource_tracker": lambda interp: Opaque("trackermod2", None, register=track("register")),
        "util": lambda interp: Opaque("utilmod", None, debug=_Fn(lambda i, a, k: None)),
        "uuid4": lambda interp: _Fn(lambda i, a, k: Opaque("uuid", None, hex=STR.fresh(i.ctx, "hex"))),
        "errno": lambda interp: Opaque("errnomod", None, EEXIST=17),
        "HIGHEST_PROTOCOL": 5, "FOLDER_PERMISSIONS": 0o700, "FILE_PERMISSIONS": 0o600,
    }
    p.models["os.makedirs"] = fwd_makedirs
    p.models["os.chmod"] = lambda i, a, k: None
    p.models["os.getpid"] = lambda i, a, k: 4242
    p.models["os.path.join"] = lambda i, a, k: Opaque("joined", None, parts=tuple(a))
    p.models["os.path.exists"] = lambda i, a, k: BOOL.fresh(i.ctx, "file_exists")
    p.models["os.path.basename"] = lambda i, a, k: STR.fresh(i.ctx, "bn")
    p.models["threading.current_thread"] = lambda i, a, k: Opaque("thread", None)
    p.models["builtin:id"] = lambda i, a, k: INT.fresh(i.ctx, "id")
    p.spec_funcs["memmapped"] = lambda interp: any(e[0] == "remember-file" for e in interp.ctx.events)
    p.spec_funcs["registrations"] = lambda interp: sum(1 for e in interp.ctx.events if e[0] == "register")
    p.spec_funcs["is_tag"] = lambda interp, o, tag: isinstance(o, Opaque) and o.tag == tag
    p.add(Contract(
        MR, "ArrayMemmapForwardReducer.__call__", props=["C19", "C20"], globals=fglob, setup=fwd_setup, inline={"_temp_folder"},
        params=dict(self=ObjOf("ArrayMemmapForwardReducer", _max_nbytes=Opt(INT), _temp_folder_resolver=OpaqueOf("resolver"), _memmaped_arrays=OpaqueOf("weakmap"),
                               _temporary_memmaped_filenames=OpaqueOf("nameset"), _unlink_on_gc_collect=BOOL, _prewarm=BOOL, _mmap_mode=OneOf(None, "r", "r+", "w+", "c")),
                    a=lambda i: Opaque("bigarray", None, dtype=Opaque("dtype", None, hasobject=BOOL.fresh(i.ctx, "hasobject")), nbytes=INT.fresh(i.ctx, "nbytes"), shape=Opaque("shape", None))),
        ensures={},
        ensures_body={
            # C19: an array that already lives in a user's memmap is sent as a view of that file
            "memmap_backed_arrays_are_reduced_as_views_of_their_file": "implies(n_events('_reduce_memmap_backed') == 1, is_tag(result, 'reduced-as-view-of-its-file') and not memmapped() and n_events('dumps') == 0)",
            "only_a_file_with_a_name_can_be_reopened_by_a_worker": "implies(n_events('_reduce_memmap_backed') == 1, ev_named('_reduce_memmap_backed')[0][2].filename is not None)",
            # C19: the threshold - arrays larger than max_nbytes become temporary memmaps, smaller ones, arrays holding Python objects and everything
            # when max_nbytes is None never do (the boundary nbytes == max_nbytes is left open: the documentation does not fix it)
            "above_the_threshold_means_memmapped": "implies(n_events('_reduce_memmap_backed') == 0 and not a.dtype.hasobject and self._max_nbytes is not None and a.nbytes > self._max_nbytes "
                                                   "and self._mmap_mode is not None, memmapped())",
            "never_memmapped_below_the_threshold_or_with_objects": "implies(memmapped(), not a.dtype.hasobject and self._max_nbytes is not None and a.nbytes >= self._max_nbytes)",
            # Parallel documents mmap_mode=None as "disable memmapping": the array then travels by value (a worker cannot map a file in no mode)
            "mmap_mode_none_disables_memmapping": "implies(self._mmap_mode is None, not memmapped())",
            "small_arrays_travel_by_value": "implies(n_events('_reduce_memmap_backed') == 0 and not memmapped(), n_events('dumps') == 1 and ev_named('dumps')[0][1] is a and is_tag(result[0], 'loads-function'))",
            "large_arrays_travel_as_a_file_name": "implies(memmapped(), is_tag(result[0], 'load_temporary_memmap-function') and result[1][1] is self._mmap_mode and result[1][2] is self._unlink_on_gc_collect "
                                                  "and result[1][0] is ev_named('remember-file')[0][1])",
            "the_array_is_written_unless_its_file_exists": "implies(memmapped(), n_events('dump') <= 1 and all(e[1] is a and e[2] is ev_named('remember-file')[0][1] for e in ev_named('dump')))",
            # C20 (client side): one reference for the worker that will map the file (given back by its finalizer), one more - once per file -
            # for this process (given back when the call ends)
            "one_reference_per_worker_use_plus_one_per_new_file": "implies(memmapped(), all(e[1] is ev_named('remember-file')[0][1] and e[2] == 'file' for e in ev_named('register')) "
                                                                  "and registrations() == (1 if self._unlink_on_gc_collect else 0) + (0 if ALREADY else 1))",
            "nothing_registered_for_arrays_sent_by_value": "implies(not memmapped(), registrations() == 0)",
        },
        exsures={"FileExistsError": {"never": "False"}},
    ))
    p.assume_note("ArrayMemmapForwardReducer.__call__: _get_backing_memmap / _reduce_memmap_backed (own contract) / dump / load / dumps are used through summaries; "
                  "the weak map of already dumped arrays answers arbitrarily (finding K23 is about its keying by identity); os.makedirs may find the folder existing")
    # ---- the worker side of a temporary memmap: load without byte-order conversion, give the reference back exactly once when the array dies
    def validated(interp, args, kwargs):
        interp.ctx.events.append(("validate", args[1], args[2]))
        return Opaque("validated-cm", None, fobj=args[0], mode=args[2])

    p.models["enter:validated-cm"] = lambda i, cm: (cm.attrs["fobj"], cm.attrs["mode"])
    p.models["exit:validated-cm"] = lambda i, cm, e: False
    p.models["enter:openfile"] = lambda i, cm: cm
    p.models["exit:openfile"] = lambda i, cm, e: False
    p.models["builtin:open"] = lambda i, a, k: Opaque("openfile", None, path=a[0], mode=a[1] if len(a) > 1 else "r")
    p.models["mmapset.add"] = lambda i, r, a, k: i.ctx.events.append(("joblib-mmaps.add", a[0]))

    def unpickle_stub(interp, args, kwargs):
        interp.ctx.events.append(("_unpickle", kwargs.get("ensure_native_byte_order", "default"), kwargs.get("filename"), kwargs.get("mmap_mode")))
        return Opaque("loaded-memmap", None, filename=kwargs.get("filename"))

    ltglob = {"_validate_fileobject_and_memmap": lambda interp: _Fn(validated), "_unpickle": lambda interp: _Fn(unpickle_stub)}
    p.models["import:._memmapping_reducer.JOBLIB_MMAPS"] = lambda interp: Opaque("mmapset", None)
    p.models["import:.externals.loky.backend.resource_tracker._resource_tracker"] = lambda interp: Opaque("rtracker", None)
    p.add(Contract(
        NP, "load_temporary_memmap", props=["C19", "C20"], globals=ltglob,
        params=dict(filename=STR, mmap_mode=OneOf("r", "r+", "w+", "c"), unlink_on_gc_collect=BOOL),
        calls={"add_maybe_unlink_finalizer": lambda interp, args, kwargs: interp.ctx.events.append(("add_finalizer", args[0]))},
        ensures={"the_mapped_array_is_returned": "is_tag(result, 'loaded-memmap')"},
        ensures_body={
            "bytes_reach_the_task_unconverted": "n_events('_unpickle') == 1 and ev_named('_unpickle')[0][1] is False and ev_named('_unpickle')[0][2] is filename",
            "remembered_as_a_joblib_temporary": "n_events('joblib-mmaps.add') == 1",
            "reference_given_back_by_a_finalizer_iff_requested": "n_events('add_finalizer') == (1 if unlink_on_gc_collect else 0) and all(e[1] is result for e in ev_named('add_finalizer'))",
        },
    ))
    p.models["weakref.finalize"] = lambda i, a, k: i.ctx.events.append(("weakref.finalize", a[0], a[1], a[2]))
    p.add(Contract(
        MR, "add_maybe_unlink_finalizer", props=["C20"], globals=dict(fglob),
        params=dict(memmap=lambda i: Opaque("loaded-memmap", None, filename=STR.fresh(i.ctx, "fname"))),
        ensures={},
        ensures_body={"one_finalizer_that_releases_this_file": "n_events('weakref.finalize') == 1 and ev_named('weakref.finalize')[0][1] is memmap and ev_named('weakref.finalize')[0][3] is memmap.filename"},
    ))
    p.models["rtracker.maybe_unlink"] = lambda i, r, a, k: i.ctx.events.append(("maybe_unlink", a[0], a[1]))
    p.add(Contract(
        MR, "_log_and_unlink", props=["C20"], globals=dict(fglob),
        params=dict(filename=STR),
        ensures={},
        ensures_body={"gives_back_exactly_one_reference_to_this_file": "n_events('maybe_unlink') == 1 and ev_named('maybe_unlink')[0][1] is filename and ev_named('maybe_unlink')[0][2] == 'file'"},
    ))

    # ---- results travelling back from a worker: arrays backed by a USER's memmap go back as views of that file, arrays backed by one of
    # joblib's temporary files go back by value (the temporary may be unlinked as soon as the worker drops it)
    def backing_back(interp, args, kwargs):
        k = interp.ctx.choose(3, "result-backed-by")
        if k == 0:
            return None
        m = Opaque("memmapobj", None, isinstance=("ndarray", "memmap"), filename=Opt(STR).fresh(interp.ctx, "mfile"))
        interp.ctx.ghost["BACKING"] = m
        interp.ctx.ghost["TEMPORARY"] = (k == 2)
        return m

    p.models["contains:mmapset"] = lambda i, c, item: bool(i.ctx.ghost.get("TEMPORARY"))
    bglob = dict(fglob)
    bglob["_get_backing_memmap"] = lambda interp: _Fn(backing_back)
    bglob["JOBLIB_MMAPS"] = lambda interp: Opaque("mmapset", None)
    bglob["np"] = lambda interp: Opaque("npmod2", None, memmap=Opaque("npclass", "memmap", classname="memmap"),
                                        asarray=_Fn(lambda i, a, k: (i.ctx.events.append(("asarray", a[0])), Opaque("plain-copy", None, of=a[0]))[1]))
    p.add(Contract(
        MR, "reduce_array_memmap_backward", props=["C19", "C20"], globals=bglob,
        params=dict(a=lambda i: Opaque("bigarray", None)),
        ensures={},
        ensures_body={
            "views_of_a_users_named_file_go_back_as_views": "(n_events('_reduce_memmap_backed') == 1) == (BACKING_IS_USER_FILE() and BACKING.filename is not None)",
            "everything_else_goes_back_by_value": "implies(n_events('_reduce_memmap_backed') == 0, n_events('dumps') == 1 and is_tag(result[0], 'loads-function') and is_tag(ev_named('dumps')[0][1], 'plain-copy'))",
        },
    ))
    p.spec_funcs["BACKING_IS_USER_FILE"] = lambda interp: "BACKING" in interp.ctx.ghost and interp.ctx.ghost.get("TEMPORARY") is False
    # ---- the wiring from the settings of a Parallel call (max_nbytes, mmap_mode, temp folder) to the reducers that act on them:
    # get_memmapping_reducers builds ONE forward reducer carrying exactly these settings and registers it for ndarray and memmap, and the
    # by-value backward reducer for both (results never come back as temporary memmaps); ArrayMemmapForwardReducer.__init__ stores what it
    # is given.  A setting dropped or swapped here silently changes which arrays are memmapped and how (C19: "present the same values").
    def new_fwd(interp, args, kwargs):
        o = Opaque("fwdreducer", None, args=tuple(args), kwargs=PyDict(dict(kwargs)))
        interp.ctx.events.append(("new-forward-reducer", o))
        return o

    rglob = {"np": lambda interp: Opaque("numpy", None, ndarray=Opaque("pyclass", "ndarray", classname="ndarray"), memmap=Opaque("pyclass", "memmap", classname="memmap")),
             "ArrayMemmapForwardReducer": lambda interp: _Fn(new_fwd),
             "reduce_array_memmap_backward": lambda interp: Opaque("backward-by-value", None)}
    p.spec_funcs["fwd_of"] = lambda interp, d, k: d.d.get(k)
    p.spec_funcs["cls_key"] = lambda interp, d, name: next((v for k, v in d.d.items() if isinstance(k, Opaque) and k.attrs.get("classname") == name), None)
    p.add(Contract(
        MR, "get_memmapping_reducers", props=["C19"], globals=rglob,
        params=dict(forward_reducers=None, backward_reducers=None, temp_folder_resolver=OpaqueOf("resolver"), max_nbytes=Opt(INT), mmap_mode=OneOf(None, "r", "r+", "w+", "c"),
                    verbose=INT, prewarm=OneOf(False, True, "auto"), unlink_on_gc_collect=BOOL),
        ensures={"one_forward_reducer_for_arrays_and_memmaps": "n_events('new-forward-reducer') == 1 and cls_key(result[0], 'ndarray') is cls_key(result[0], 'memmap') and is_tag(cls_key(result[0], 'ndarray'), 'fwdreducer')",
                 "it_carries_the_callers_settings": "cls_key(result[0], 'ndarray').args[0] is max_nbytes and cls_key(result[0], 'ndarray').args[1] is temp_folder_resolver "
                                                    "and cls_key(result[0], 'ndarray').args[2] is mmap_mode and cls_key(result[0], 'ndarray').args[3] is unlink_on_gc_collect",
                 "results_come_back_by_value": "is_tag(cls_key(result[1], 'ndarray'), 'backward-by-value') and is_tag(cls_key(result[1], 'memmap'), 'backward-by-value')"},
    ))
    p.models["new:_WeakArrayKeyMap"] = lambda i, a, k: Opaque("weakmap", None)
    p.add(Contract(
        MR, "ArrayMemmapForwardReducer.__init__", props=["C19"], globals={"_WeakArrayKeyMap": lambda interp: _Fn(lambda i, a, k: Opaque("weakmap", None))},
        params=dict(self=ObjOf("ArrayMemmapForwardReducer"), max_nbytes=Opt(INT), temp_folder_resolver=OpaqueOf("resolver"), mmap_mode=OneOf(None, "r", "r+", "w+", "c"),
                    unlink_on_gc_collect=BOOL, verbose=INT, prewarm=OneOf(False, True)),
        ensures={"keeps_what_it_is_given": "self._max_nbytes is max_nbytes and self._temp_folder_resolver is temp_folder_resolver and self._mmap_mode is mmap_mode "
                                           "and self._unlink_on_gc_collect is unlink_on_gc_collect",
                 "starts_without_any_temporary": "is_tag(self._memmaped_arrays, 'weakmap')"},
    ))
    return p
