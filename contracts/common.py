"""Assumed (unchecked) contracts of externals shared by several packs, and generic spec functions."""
import ast

import z3

from pyvc import ops
from pyvc.models import psum_term
from pyvc.values import (
    BOOL, BYTES, INT, REAL, STR, Atom, Kind, ListOf, Opaque, PyDict, PyList, Rec, SList, Sym, Unsupported,
    kind_of, to_term,
)


def sorted_perm(interp, lst, key_attr, reverse=False):
    """Ghost: THE stable sorted permutation of ArrList `lst` by integer/real field `key_attr`.

    Assumed contract of list.sort(key=attrgetter(f)) / sorted: the result is a permutation of the input,
    ascending in the key (stable).  For every Int field g of the record, the sum of g over the list is
    unchanged (List.Perm.sum_eq, stated in lean/Lemmas.lean; transcription trusted).
    """
    ctx = interp.ctx
    gkey = "sorted:%s:%s:%s" % (lst.arr, key_attr, reverse)
    if gkey in ctx.ghost:
        return ctx.ghost[gkey]
    elt = lst.elt
    name = ctx.fresh_name("sorted")
    arr = z3.Const(name, lst.arr.sort())
    n = lst.length
    out = SList(elt, arr, n)
    keyf = elt.field_fn(key_attr)
    i, j = z3.Int("i!srt"), z3.Int("j!srt")
    # ascending
    ctx.assume(z3.ForAll([i, j], z3.Implies(z3.And(0 <= i, i <= j, j < n), (keyf(z3.Select(arr, i)) >= keyf(z3.Select(arr, j))) if reverse else
                                         (keyf(z3.Select(arr, i)) <= keyf(z3.Select(arr, j)))),
                         patterns=[z3.MultiPattern(z3.Select(arr, i), z3.Select(arr, j))]))
    # permutation (bijection on [0, n))
    perm = z3.Function(name + ".perm", z3.IntSort(), z3.IntSort())
    inv = z3.Function(name + ".inv", z3.IntSort(), z3.IntSort())
    ctx.assume(z3.ForAll([i], z3.Implies(z3.And(0 <= i, i < n),
                                         z3.And(0 <= perm(i), perm(i) < n, inv(perm(i)) == i,
                                                z3.Select(arr, i) == z3.Select(lst.arr, perm(i)))),
                         patterns=[perm(i)]))
    ctx.assume(z3.ForAll([i], z3.Implies(z3.And(0 <= i, i < n), z3.And(0 <= inv(i), inv(i) < n, perm(inv(i)) == i)),
                         patterns=[inv(i)]))
    # sums of Int fields are permutation invariant
    for f, k in elt.fields.items():
        if k == INT:
            a = psum_term(interp, lst, "%s:%s" % (elt.name, f), lambda t, f=f, l=lst: l.get(t).kind.fields[f].wrap(elt.field_fn(f)(z3.Select(l.arr, t))), n)
            b = psum_term(interp, out, "%s:%s" % (elt.name, f), lambda t, f=f, l=out: l.get(t).kind.fields[f].wrap(elt.field_fn(f)(z3.Select(l.arr, t))), n)
            ctx.assume(a == b)
    ctx.ghost[gkey] = out
    return out


def spec_psum(interp, lst, field, upto):
    """psum(lst, "field", k): sum of lst[j].field for j < k."""
    if not isinstance(lst, SList):
        raise Unsupported("psum over %r" % (lst,))
    elt = lst.elt
    f = lambda t: elt.fields[field].wrap(elt.field_fn(field)(z3.Select(lst.arr, t)))
    return Sym(INT, psum_term(interp, lst, "%s:%s" % (elt.name, field), f, ops.as_int_term(upto)))


def install_common(pack):
    pack.spec_funcs["psum"] = spec_psum

    @pack.model("SList.sort", note="list.sort(key=attrgetter(f)) returns the stable ascending permutation; field sums invariant (assumed, CPython)")
    def _sort(interp, recv, args, kwargs):
        from pyvc.values import AttrGetter
        key = kwargs.get("key")
        rev = kwargs.get("reverse", False)
        if not isinstance(key, AttrGetter) or not isinstance(rev, bool):
            raise Unsupported("list.sort with this key / reverse")
        s = sorted_perm(interp, recv, key.attr, reverse=rev)
        recv.arr = s.arr
        return None

    @pack.model("datetime.datetime.now", note="datetime.now() returns one real timestamp NOW (datetimes as reals, no rounding)")
    def _now(interp, args, kwargs):
        g = interp.ctx.ghost
        if "NOW" not in g:
            g["NOW"] = REAL.fresh(interp.ctx, "NOW")
        return g["NOW"]

    @pack.model("timedelta.total_seconds")
    def _ts(interp, recv, args, kwargs):
        return recv.attrs["secs"]

    @pack.model("time.time", note="time.time() returns a real; no monotonicity assumed")
    def _time(interp, args, kwargs):
        t = REAL.fresh(interp.ctx, "time")
        interp.ctx.ghost["ret_time"] = t
        return t

    @pack.model("time.sleep")
    def _sleep(interp, args, kwargs):
        interp.ctx.events.append(("sleep",))
        return None


TimeDelta = lambda: __import__("pyvc.values", fromlist=["OpaqueOf"]).OpaqueOf("timedelta", secs=REAL)
