"""Dispatcher pack, part 2 (C01, C09, C04): dispatch_one_batch / dispatch_next / _start with the lock invariant.

Ghost model (segments, DESIGN Appendix F): the input is an abstract sequence of INPUTLEN tasks; TAKEN of them have
been pulled from the iterator; a batch is the contiguous slice [lo, hi) of the input it carries.
Lock invariant LI (assumed when Parallel._lock is acquired at depth 0, with all protected state havocked; asserted
when it is released to depth 0):
    0 <= QLO <= TAKEN <= INPUTLEN
    the look-ahead queue tiles [QLO, TAKEN): consecutive, non-empty batches, first starts at QLO, last ends at TAKEN
    n_dispatched_tasks == QLO unless a batch was dropped because the call is aborting (DROPPED => _aborting)
    TAKEN - QLO <= batch_size * n_jobs                        (look-ahead bound; batch_size='auto': the largest size computed so far, ghost BSMAX)
"""
import z3

from pyvc import ops
from pyvc.contracts import Contract, Loop
from pyvc.interp import BUILTIN_EXC, PyRaise
from pyvc.pack import Pack
from pyvc.values import (
    BOOL, INT, REAL, STR, Atom, ClassRef, Kind, ObjOf, OneOf, Opaque, OpaqueOf, Opt, PyDict, PyList, Rec, SExc, SObj, Sym,
    Unsupported, kind_of, to_term,
)

from .common import install_common

PAR = "joblib/parallel.py"
Batch = Rec("Batch", lo=INT, hi=INT)
LO, HI = Batch.field_fn("lo"), Batch.field_fn("hi")
FROM_SLICE = z3.Function("batch_from_pre_dispatch_slice", Batch.sort(), z3.BoolSort())
QEMPTY = None


def _Fn(fn):
    return Opaque("fn", None, fn=fn)


class SQueue:
    """queue.Queue of batches: (arr, head, tail), FIFO."""
    pyvc_methods = True

    def __init__(self, arr, head, tail):
        self.arr, self.head, self.tail = arr, head, tail

    def clone(self):
        return SQueue(self.arr, self.head, self.tail)


class QueueKind(Kind):
    name = "Queue[Batch]"

    def fresh(self, ctx, hint="queue"):
        n = ctx.fresh_name(hint)
        q = SQueue(z3.Const(n, z3.ArraySort(z3.IntSort(), Batch.sort())), z3.Int(n + ".head"), z3.Int(n + ".tail"))
        ctx.assume(q.head <= q.tail)
        return q


class Segment:
    """list(islice(iterator, n)): the tasks INPUT[lo:hi] (a concrete-shaped view on the ghost input)."""
    pyvc_methods = True

    def __init__(self, lo, hi):
        self.lo, self.hi = lo, hi

    def pyvc_len(self, interp):
        return Sym(INT, self.hi - self.lo)


def tiles(q, lo, hi):
    k, j = z3.Int("k!tile"), z3.Int("j!tile")
    return z3.And(
        q.head <= q.tail,
        z3.Implies(q.head == q.tail, lo == hi),
        z3.Implies(q.head < q.tail, z3.And(LO(z3.Select(q.arr, q.head)) == lo, HI(z3.Select(q.arr, q.tail - 1)) == hi)),
        z3.ForAll([k], z3.Implies(z3.And(q.head <= k, k < q.tail), z3.And(LO(z3.Select(q.arr, k)) < HI(z3.Select(q.arr, k)),
                                                                        lo <= LO(z3.Select(q.arr, k)), HI(z3.Select(q.arr, k)) <= hi))),
        z3.ForAll([k, j], z3.Implies(z3.And(q.head <= j, j < k, k < q.tail), HI(z3.Select(q.arr, j)) <= LO(z3.Select(q.arr, k)))),
        z3.ForAll([k], z3.Implies(z3.And(q.head <= k, k < q.tail - 1), HI(z3.Select(q.arr, k)) == LO(z3.Select(q.arr, k + 1)))),
    )


def li_formulas(q, qlo, taken, n, dropped, ab, nd, bs, nj, nb, done):
    """The lock invariant LI of Parallel._lock, part by part (also the hypotheses of the composition lemma, lemmas/c01_composition.py)."""
    return {
        "bounds": z3.And(0 <= qlo, qlo <= taken, taken <= n),
        "queue-tiles-the-taken-but-undispatched-tasks": tiles(q, qlo, taken),
        "dispatched-count-matches": z3.And(z3.Or(nd == qlo, dropped), z3.Implies(dropped, ab), nd <= qlo, nd >= 0),
        "look-ahead-bound": taken - qlo <= bs * nj,
        "config": z3.And(bs >= 1, nj >= 2, nb >= 0),
        # DONE (ghost): some thread found the input iterator itself exhausted.  From then on nothing is taken and the
        # look-ahead queue stays empty - the stable fact behind "not _iterating => every task has been dispatched"
        "input-found-exhausted-means-drained": z3.Implies(done, z3.And(taken == n, q.head == q.tail)),
    }


def build():
    p = Pack("PAR2", files=[PAR, "joblib/_parallel_backends.py"])
    install_common(p)
    p.models["fn.__call__"] = lambda interp, fv, args, kwargs: fv.attrs["fn"](interp, args, kwargs)
    p.spec_funcs["n_events"] = lambda interp, name: sum(1 for e in interp.ctx.events if e[0] == name)
    p.spec_funcs["ev_named"] = lambda interp, name: PyList([e for e in interp.ctx.events if e[0] == name])
    p.log_calls.update({"self._print", "self.print_progress"})

    GHOST = dict(INPUTLEN=INT, TAKEN=INT, QLO=INT, DROPPED=BOOL, LIMIT=INT, DONE=BOOL)
    # IN_CALLBACK (ghost): dispatch_one_batch runs in a completion-callback thread of the backend (via dispatch_next) rather than in the
    # thread that called Parallel; an exception escaping there never reaches the caller (known finding K16)
    D1B_GHOST = dict(GHOST, IN_CALLBACK=BOOL)

    def G(interp, name):
        return ops.as_int_term(interp.ctx.ghost[name])

    def _b(v):
        t = ops.truth(v)
        return z3.BoolVal(t) if isinstance(t, bool) else t

    def li_parts(interp, me):
        g = interp.ctx.ghost
        return li_formulas(q=me.fields["_ready_batches"], qlo=G(interp, "QLO"), taken=G(interp, "TAKEN"), n=G(interp, "INPUTLEN"),
                           dropped=_b(g["DROPPED"]), ab=_b(me.fields["_aborting"]), nd=ops.as_int_term(me.fields["n_dispatched_tasks"]),
                           bs=(G(interp, "BSMAX") if isinstance(me.fields["batch_size"], str) else ops.as_int_term(me.fields["batch_size"])),
                           nj=ops.as_int_term(me.fields["_cached_effective_n_jobs"]),
                           nb=ops.as_int_term(me.fields["n_dispatched_batches"]), done=_b(g.get("DONE", False)))

    def li_term(interp, me):
        return z3.And(*li_parts(interp, me).values())

    p.spec_funcs["LI"] = lambda interp, me: ops.mk_bool(li_term(interp, me))

    # ------------------------------------------------------------------ the lock: havoc + assume LI on acquire, assert LI on release
    def lock_enter(interp, cm):
        ctx = interp.ctx
        d = ctx.lock_depth
        d["plock"] = d.get("plock", 0) + 1
        if d["plock"] == 1:
            me = ctx.ghost["SELF"]
            # other threads may have run whole critical sections since we last held the lock
            me.fields["_ready_batches"] = QueueKind().fresh(ctx, "queue")
            for f in ("n_dispatched_tasks", "n_dispatched_batches", "n_completed_tasks"):
                me.fields[f] = INT.fresh(ctx, f)
            old_ab = ops.truth(me.fields["_aborting"])
            me.fields["_aborting"] = BOOL.fresh(ctx, "_aborting")
            ctx.assume(ops.b_implies(old_ab, me.fields["_aborting"].term))  # stable: only False -> True within a call
            for gname in ("TAKEN", "QLO"):
                ctx.ghost[gname] = INT.fresh(ctx, gname)
            ctx.ghost["DROPPED"] = BOOL.fresh(ctx, "DROPPED")
            if "DONE" in ctx.ghost:
                old_done = _b(ctx.ghost["DONE"])
                ctx.ghost["DONE"] = BOOL.fresh(ctx, "DONE")
                ctx.assume(z3.Implies(old_done, ctx.ghost["DONE"].term))  # stable
            if "BSMAX" in ctx.ghost:
                # batch_size='auto': the largest batch size any thread has computed so far only grows
                old_max = G(interp, "BSMAX")
                ctx.ghost["BSMAX"] = INT.fresh(ctx, "BSMAX")
                ctx.assume(G(interp, "BSMAX") >= old_max)
            ctx.assume(li_term(interp, me))
            ctx.ghost["TAKEN@acquire"] = ctx.ghost["TAKEN"]
            ctx.ghost["QLO@acquire"] = ctx.ghost["QLO"]
            ctx.ghost["QEMPTY@acquire"] = ops.mk_bool(me.fields["_ready_batches"].head == me.fields["_ready_batches"].tail)
        return cm

    def lock_exit(interp, cm, e):
        ctx = interp.ctx
        ctx.lock_depth["plock"] -= 1
        if ctx.lock_depth["plock"] == 0:
            me = ctx.ghost["SELF"]
            for nm, t in li_parts(interp, me).items():
                ctx.check("%s/lock-release.LI.%s" % (interp.contract.qualname, nm), t,
                          detail="lock invariant re-established before Parallel._lock is released")
        return False

    p.models["enter:plock"] = lock_enter
    p.models["exit:plock"] = lock_exit
    p.spec_funcs["lock_depth"] = lambda interp: interp.ctx.lock_depth.get("plock", 0)
    p.assume_note("monitor rule (meta-theorem): protected state satisfies LI in every interleaving because every critical section re-establishes it before releasing Parallel._lock")

    # `_iterating` goes from True to False for good when a completion callback finds the input exhausted (dispatch_next, under the lock, which
    # also clears _original_iterator).  A thread that sets it to True from what it READ of _original_iterator must read and write in one
    # critical section, or the callback's final False can be overwritten and the retrieval loop never ends (reported by a seeding sub-agent
    # with a forced interleaving).  Writing False is idempotent and needs no lock.
    def iterating_write(interp, obj, attr, v):
        if v is False:
            return
        interp.ctx.check("%s/guarded-by._lock._iterating-set-true" % interp.contract.qualname, interp.ctx.lock_depth.get("plock", 0) > 0,
                         detail="_iterating may only become True inside the critical section in which _original_iterator was read")

    p.write_hooks[("Parallel", "_iterating")] = iterating_write

    def held(interp, what):
        interp.ctx.check("%s/guarded-by._lock.%s" % (interp.contract.qualname, what), interp.ctx.lock_depth.get("plock", 0) > 0,
                         detail="%s only with Parallel._lock held" % what)

    # ------------------------------------------------------------------ queue, iterator, batches
    empty_exc = lambda: SExc(p.exc_by_dotted("queue.Empty"), ())

    def q_method(interp, recv, name, args, kwargs):
        ctx = interp.ctx
        held(interp, "_ready_batches." + name)
        if name == "get":
            if ctx.branch(recv.head == recv.tail, "queue:empty"):
                raise PyRaise(empty_exc())
            b = Sym(Batch, z3.Select(recv.arr, recv.head))
            recv.head = recv.head + 1
            ctx.ghost["QLO"] = Sym(INT, HI(b.term))  # the batch leaves the queue: the tiling now starts after it
            ctx.events.append(("queue.get", b))
            return b
        if name == "put":
            recv.arr = z3.Store(recv.arr, recv.tail, to_term(args[0]))
            recv.tail = recv.tail + 1
            ctx.events.append(("queue.put", args[0]))
            return None
        raise Unsupported("queue." + name)

    orig_cm = p.container_method

    def cm(interp, recv, name, args, kwargs, node):
        if isinstance(recv, SQueue):
            return q_method(interp, recv, name, args, kwargs)
        if isinstance(recv, Segment) and name == "__len__":
            return recv.pyvc_len(interp)
        return orig_cm(interp, recv, name, args, kwargs, node)

    p.container_method = cm
    p.assume_note("queue.Queue is FIFO; get(block=False) raises queue.Empty exactly when empty")

    def islice(interp, args, kwargs):
        return Opaque("islice", None, it=args[0], n=args[1])

    p.models["itertools.islice"] = islice

    def list_islice(interp, v):
        """list(itertools.islice(iterator, n)): pulls the next min(n, remaining) tasks, or the iterator raises."""
        ctx = interp.ctx
        held(interp, "input-iterator")
        n = ops.as_int_term(v.attrs["n"])
        taken, total = G(interp, "TAKEN"), G(interp, "INPUTLEN")
        it = v.attrs["it"]
        ctx.ghost["PULLED_THROUGH"] = it
        limit = total
        if isinstance(it, Opaque) and it.tag == "limited":
            limit = z3.If(G(interp, "LIMIT") < total, G(interp, "LIMIT"), total)
        avail = z3.If(limit - taken < 0, z3.IntVal(0), limit - taken)
        k = z3.Int(ctx.fresh_name("pulled"))
        how = ctx.choose(3, "iterator-raises") if "IN_CALLBACK" in ctx.ghost else ctx.choose(2, "iterator-raises")
        if how >= 1:
            # the items consumed before the exception are lost with the half-built list: TAKEN counts retained items only
            ctx.assume(z3.And(0 <= k, k <= avail, k <= n))
            ctx.events.append(("pull", Sym(INT, k), "raised"))
            # an input iterable may raise anything, also a BaseException that is not an Exception (KeyboardInterrupt, SystemExit)
            interp.raise_("ValueError" if how == 1 else "KeyboardInterrupt")
        ctx.assume(k == z3.If(n < avail, n, avail))
        ctx.assume(n >= 0)
        if "DONE" in ctx.ghost:
            # ghost update: the underlying input iterator yielded nothing although the slice asked for n > 0 items
            ctx.ghost["DONE"] = ops.mk_bool(z3.Or(_b(ctx.ghost["DONE"]), z3.And(n > 0, k == 0, taken >= total)))
        ctx.ghost["TAKEN"] = Sym(INT, taken + k)
        ctx.events.append(("pull", Sym(INT, k), "ok"))
        return Segment(taken, taken + k)

    p.models["list:islice"] = list_islice
    p.assume_note("itertools.islice(it, n) yields the next <= n items of `it` and leaves the rest; an input iterator may raise any Exception")

    def seg_slice(interp, recv, lo, hi):
        a, b = ops.as_int_term(lo if lo is not None else 0), ops.as_int_term(hi)
        ln = recv.hi - recv.lo
        cl = lambda x: z3.If(x < 0, z3.IntVal(0), z3.If(x > ln, ln, x))
        return Segment(recv.lo + cl(a), recv.lo + cl(b))

    def interp_slice_hook(pack):
        pack.models["slice:segment"] = seg_slice

    # Segment is not Opaque: give interp.slice a hook through getattr(recv, 'tag')
    Segment.tag = "segment"
    interp_slice_hook(p)

    def new_batch(interp, args, kwargs):
        seg = args[0]
        if not isinstance(seg, Segment):
            raise Unsupported("BatchedCalls over %r" % (seg,))
        b = Batch.fresh(interp.ctx, "batch")
        interp.ctx.assume(z3.And(LO(b.term) == seg.lo, HI(b.term) == seg.hi))
        # ghost: was the batch sliced through the calling thread's pre_dispatch slice, or from the input itself by a callback?
        it = interp.ctx.ghost.get("PULLED_THROUGH")
        if it is not None:
            interp.ctx.assume(FROM_SLICE(b.term) == z3.BoolVal(isinstance(it, Opaque) and it.tag == "limited"))
        return b

    p.models["new:BatchedCalls"] = new_batch
    p.models["len:Batch"] = lambda i, v: Sym(INT, HI(v.term) - LO(v.term))
    p.models["backend.get_nested_backend"] = lambda i, r, a, k: (Opaque("nested", None), None)
    def _auto_bs(i, r, a, k):
        v = INT.fresh(i.ctx, "auto_bs")
        i.ctx.assume(v.term >= 1)  # contract of AutoBatchingMixin.compute_batch_size (part 1): at_least_one_task_per_batch
        if "BSMAX" in i.ctx.ghost:
            m = ops.as_int_term(i.ctx.ghost["BSMAX"])
            i.ctx.ghost["BSMAX"] = Sym(INT, z3.If(v.term > m, v.term, m))
        return v

    p.models["backend.compute_batch_size"] = _auto_bs

    # summary of the contract proved for Parallel._dispatch in part 1
    def dispatch_summary(interp, recv, args, kwargs):
        ctx = interp.ctx
        held(interp, "_dispatch")
        b = args[0]
        if ctx.branch(ops.truth(recv.fields["_aborting"]), "_dispatch:aborting"):
            ctx.ghost["DROPPED"] = True
            ctx.events.append(("dropped", b))
            return None
        recv.fields["n_dispatched_tasks"] = Sym(INT, ops.as_int_term(recv.fields["n_dispatched_tasks"]) + (HI(b.term) - LO(b.term)))
        recv.fields["n_dispatched_batches"] = Sym(INT, ops.as_int_term(recv.fields["n_dispatched_batches"]) + 1)
        ctx.events.append(("submit", b))
        return None

    p.models["Parallel._dispatch"] = dispatch_summary
    p.assume_note("Parallel._dispatch is used through the summary of its part-1 contract (nothing while aborting; counters += len(batch); tracker registered before submit)")

    def failed_tracker(interp, args, kwargs):
        t = SObj("BatchCompletionCallBack", dict(batch_size=args[1], status="Pending"))
        interp.ctx.events.append(("new-tracker", t))
        return t

    p.models["new:BatchCompletionCallBack"] = failed_tracker
    p.models["BatchCompletionCallBack._register_outcome"] = lambda i, r, a, k: i.ctx.events.append(("register_outcome", r, a[0].d["status"], a[0].d["result"]))
    p.models["Parallel._register_new_job"] = lambda i, r, a, k: (held(i, "_jobs"), i.ctx.events.append(("register_new_job", a[0])))[1]

    def parallel(**over):
        f = dict(_lock=OpaqueOf("plock"), _aborting=BOOL, _ready_batches=QueueKind(), n_dispatched_tasks=INT, n_dispatched_batches=INT, n_completed_tasks=INT,
                 batch_size=INT, _cached_effective_n_jobs=INT, _backend=OpaqueOf("backend"), _reducer_callback=None, _pickle_cache=PyDict({}),
                 _original_iterator=OpaqueOf("taskiter"), _iterating=BOOL, verbose=0)
        f.update(over)
        return ObjOf("Parallel", **f)

    def setup(interp, env):
        me = env.lookup("self")
        interp.ctx.ghost["SELF"] = me
        interp.ctx.ghost["TAKEN@acquire"] = interp.ctx.ghost["TAKEN"]

    p.spec_funcs["pulled"] = lambda interp: Sym(INT, sum([ops.as_int_term(e[1]) for e in interp.ctx.events if e[0] == "pull"], z3.IntVal(0)))
    p.spec_funcs["submitted"] = lambda interp: PyList([e[1] for e in interp.ctx.events if e[0] == "submit"])
    p.spec_funcs["at_acquire"] = lambda interp, name: interp.ctx.ghost[name + "@acquire"]
    p.spec_funcs["empty_at_acquire"] = lambda interp: interp.ctx.ghost["QEMPTY@acquire"]

    def iterator_arg(interp):
        # the main thread dispatches from the pre_dispatch-limited slice, callbacks from the original iterator
        if interp.ctx.choose(2, "which-iterator") == 0:
            return Opaque("limited", None)
        return "ORIGINAL"

    def d1b_setup(interp, env):
        setup(interp, env)
        if env.lookup("iterator") == "ORIGINAL":
            env.assign("iterator", env.lookup("self").fields["_original_iterator"])

    def d1b_auto_setup(interp, env):
        d1b_setup(interp, env)
        interp.ctx.assume(G(interp, "BSMAX") >= 1)

    def d1b_contract(auto):
      return Contract(
        PAR, "Parallel.dispatch_one_batch", props=["C01", "C09", "C04", "C16"], ghost=(dict(D1B_GHOST, BSMAX=INT) if auto else D1B_GHOST),
        setup=(d1b_auto_setup if auto else d1b_setup), variant=("auto-batch-size" if auto else None),
        inline={"_get_batch_size"},
        params=dict(self=parallel(**(dict(batch_size="auto") if auto else {})), iterator=iterator_arg),
        # batch_size='auto': every thread asks the backend (AutoBatchingMixin.compute_batch_size, part 1: >= 1) before taking the lock; BSMAX
        # (ghost) is the largest answer so far - the look-ahead bound of the lock invariant is stated with it
        requires=["lock_depth() == 0", ("self._cached_effective_n_jobs >= 2" if auto else "self.batch_size >= 1 and self._cached_effective_n_jobs >= 2")],
        returns=BOOL,
        ensures={"lock_released": "lock_depth() == 0"},
        ensures_body={
            # C09: consumption is lazy and bounded - only when the look-ahead queue is empty, at most batch_size * n_jobs items per call
            "pulls_only_when_lookahead_is_empty": "n_events('pull') == 0 or (n_events('pull') == 1 and empty_at_acquire())",
            "pulls_at_most_one_big_batch": ("pulled() <= BSMAX * self._cached_effective_n_jobs" if auto else "pulled() <= self.batch_size * self._cached_effective_n_jobs"),
            "abort_is_consulted_before_slicing": "implies(old(self._aborting), n_events('pull') == 0 and n_events('submit') == 0 and not result)",
            # C01: exactly the head of the tiling leaves the queue and is handed to _dispatch
            "dispatches_at_most_one_batch": "n_events('submit') + n_events('dropped') <= 1",
            "true_means_progress": "implies(result, n_events('submit') + n_events('dropped') == 1 or n_events('register_outcome') == 1)",
            "dispatched_batch_continues_the_sequence": "implies(n_events('submit') == 1, submitted()[0].lo == at_acquire('QLO') and submitted()[0].hi > submitted()[0].lo)",
            "false_means_nothing_left_or_aborting": "implies(not result and not old(self._aborting), n_events('submit') == 0 and n_events('queue.get') == 0 and TAKEN == at_acquire('TAKEN'))",
            "false_means_the_iterator_was_found_exhausted": "implies(not result and not old(self._aborting), n_events('pull') == 1 and pulled() == 0 and exhausted(iterator) "
                                                            "and queue_is_empty(self))",
            # C09 "no more than the pre-dispatched number of batches is in flight": what the calling thread's slice loop dispatches was sliced
            # through that slice (known finding K21: the look-ahead queue is shared with the callbacks)
            "the_calling_threads_slice_loop_only_dispatches_its_own_slice": "implies(is_tag(iterator, 'limited') and n_events('submit') == 1, from_slice(submitted()[0]))",
            "false_on_the_input_itself_means_done": "implies(not result and not old(self._aborting), DONE or (is_tag(iterator, 'limited') and TAKEN >= LIMIT))",
            # C04: a failing input iterator is turned into a failed job of this call and the retrieval loop keeps running
            "iterator_failure_is_never_swallowed": "implies(iterator_raised(), n_events('register_outcome') == 1 and result)",
            "iterator_failure_is_registered": "implies(n_events('register_outcome') == 1, result and ev_named('register_outcome')[0][2] == 'Error' and n_events('register_new_job') == 1 "
                                              "and isinstance(ev_named('register_outcome')[0][3], ValueError))",
        },
        exsures={"KeyboardInterrupt": {"the_lock_is_released": "lock_depth() == 0",
                                       "never_escapes_into_a_callback_thread": "not IN_CALLBACK"}},
        loops={1: Loop(
            "for i in range(0, len(islice), final_batch_size)",
            invariant={
                "tiling_grows": "queue_tiles(self, QLO, seg_lo(islice) + minimum(_next, len(islice)))",
                "queue_was_empty": "QLO == seg_lo(islice)",
                "taken": "TAKEN == seg_lo(islice) + len(islice)",
                "sizes": "final_batch_size >= 1 and len(islice) >= 1 and _next >= 0",
            },
        )},
      )

    for _auto in (False, True):
        p.add(d1b_contract(_auto))

    def exhausted(interp, it):
        taken, total = G(interp, "TAKEN"), G(interp, "INPUTLEN")
        if isinstance(it, Opaque) and it.tag == "limited":
            return ops.mk_bool(z3.Or(taken >= total, taken >= G(interp, "LIMIT")))
        return ops.mk_bool(taken >= total)

    p.spec_funcs["exhausted"] = exhausted
    p.spec_funcs["from_slice"] = lambda interp, b: ops.mk_bool(FROM_SLICE(b.term))
    p.spec_funcs["queue_is_empty"] = lambda interp, me: ops.mk_bool(me.fields["_ready_batches"].head == me.fields["_ready_batches"].tail)
    for _k in [k for k in p.contracts if k[1] == "Parallel.dispatch_one_batch"]:
        p.contracts[_k].clause_props = {
            "the_calling_threads_slice_loop_only_dispatches_its_own_slice": ["C09"],
            "never_escapes_into_a_callback_thread": ["C04", "C01", "C09"]}
    p.spec_funcs["iterator_raised"] = lambda interp: any(e[0] == "pull" and e[2] == "raised" for e in interp.ctx.events)

    # ---- dispatch_next / _start use dispatch_one_batch through its contract (summary: returns a bool, may dispatch one batch)
    def d1b_summary(interp, recv, args, kwargs):
        """Contract of dispatch_one_batch seen from a caller: a bool; False without an abort means the iterator handed in was
        found exhausted (for the pre_dispatch slice: its limit is used up, or the input is); nothing is pulled on False."""
        ctx = interp.ctx
        ctx.events.append(("dispatch_one_batch", args[0]))
        r = BOOL.fresh(ctx, "dispatched")
        ctx.ghost.setdefault("D1B_RESULTS", []).append(r)
        if "SLICE_TAKEN" in ctx.ghost:
            # clauses false_means_the_iterator_was_found_exhausted / false_on_the_input_itself_means_done of its contract;
            # DONE is stable (lock invariant part input-found-exhausted-means-drained)
            it = args[0]
            aborted = BOOL.fresh(ctx, "abort_seen")
            ctx.ghost["ABORT_SEEN"] = ops.mk_bool(ops.b_or(ops.truth(ctx.ghost["ABORT_SEEN"]), ops.truth(aborted)))
            st0, d0 = G(interp, "SLICE_TAKEN"), _b(ctx.ghost["DONE"])
            st1, d1 = z3.Int(ctx.fresh_name("slice_taken")), z3.Bool(ctx.fresh_name("done"))
            limited = isinstance(it, Opaque) and it.tag == "limited"
            used_up = st1 >= ops.as_int_term(it.attrs["n"]) if limited else z3.BoolVal(False)
            ctx.assume(z3.And(st1 >= st0, z3.Implies(d0, d1),
                              z3.Implies(z3.Not(ops.truth(r)), z3.And(st1 == st0, z3.Or(ops.truth(aborted), d1, used_up)))))
            ctx.ghost["SLICE_TAKEN"], ctx.ghost["DONE"] = Sym(INT, st1), ops.mk_bool(d1)
        return r

    sglob = {}
    p2 = p

    def with_summary(c):
        c.calls = {"self.dispatch_one_batch": lambda interp, args, kwargs: d1b_summary(interp, None, args, kwargs)}
        return c

    p.add(with_summary(Contract(
        PAR, "Parallel.dispatch_next", props=["C01", "C09", "C04"], ghost=dict(GHOST, SLICE_TAKEN=INT, ABORT_SEEN=BOOL), setup=setup,
        params=dict(self=parallel(_original_iterator=OpaqueOf("taskiter"))),
        requires=["implies(self._aborting, ABORT_SEEN)"],
        ensures={"uses_the_original_iterator": "n_events('dispatch_one_batch') <= 1 and implies(n_events('dispatch_one_batch') == 1, ev_named('dispatch_one_batch')[0][1] is old(self._original_iterator))",
                 "stops_iterating_when_exhausted": "implies(n_events('dispatch_one_batch') == 1 and not last_dispatch(), self._iterating is False and self._original_iterator is None)",
                 "stops_iterating_only_when_the_input_is_done_or_aborting": "implies(self._iterating is False and old(self._iterating), DONE or ABORT_SEEN)",
                 "clears_the_iterator_only_when_the_input_is_done_or_aborting": "implies(self._original_iterator is None, DONE or ABORT_SEEN)",
                 "keeps_iterating_otherwise": "implies(n_events('dispatch_one_batch') == 1 and last_dispatch(), self._original_iterator is old(self._original_iterator) and self._iterating == old(self._iterating))"},
    )))
    p.spec_funcs["last_dispatch"] = lambda interp: interp.ctx.ghost["D1B_RESULTS"][-1]
    p.spec_funcs["is_tag"] = lambda interp, o, tag: isinstance(o, Opaque) and o.tag == tag
    p.spec_funcs["limited_to"] = lambda interp, o: o.attrs.get("n")

    def start_iterator(interp):
        if interp.ctx.choose(2, "pre_dispatch-slice") == 0:
            return Opaque("limited", None, n=INT.fresh(interp.ctx, "limit"))
        return Opaque("taskiter", None)
    p.add(with_summary(Contract(
        PAR, "Parallel._start", props=["C01", "C09", "C04"],
        # (GHOST: the protected state behind Parallel._lock, needed for the critical section in which _iterating is set)
        ghost=dict(GHOST, SLICE_TAKEN=INT, ABORT_SEEN=BOOL), setup=setup,
        params=dict(self=parallel(_original_iterator=Opt(OpaqueOf("taskiter"))), iterator=start_iterator, pre_dispatch=OneOf("all", INT)),
        requires=["SLICE_TAKEN == 0",
                  # established by Parallel.__call__ (part 4): 'all' hands the input itself over and disables callbacks' dispatching
                  "(pre_dispatch == 'all') == is_tag(iterator, 'taskiter')", "implies(pre_dispatch == 'all', self._original_iterator is None)",
                  # a callback thread clears _original_iterator only when the input is done or the call aborts (dispatch_next)
                  "implies(pre_dispatch != 'all' and self._original_iterator is None, DONE or ABORT_SEEN)",
                  # the obligation on the caller: the slice dispatched by the calling thread is not empty by construction
                  "implies(is_tag(iterator, 'limited'), limited_to(iterator) >= 1)"],
        ensures={"dispatches_until_the_slice_is_exhausted": "not_true(last_dispatch())",
                 "no_task_is_left_behind": "implies(not ABORT_SEEN, self._iterating or DONE)",
                 "all_means_no_lazy_dispatch_left": "implies(pre_dispatch == 'all', self._iterating is False)",
                 "iterating_only_if_something_was_dispatched_and_callbacks_may_continue": "implies(self._iterating, first_dispatch() and self._original_iterator is not None)"},
        loops={1: Loop("while self.dispatch_one_batch(iterator)",
                       invariant={"iterating_flag": "implies(self._iterating, first_dispatch() and self._original_iterator is not None)",
                                  "nothing_left_behind_so_far": "implies(not ABORT_SEEN and not self._iterating, DONE or (first_dispatch() and self._original_iterator is None))",
                                  "done_is_stable": "implies(old(DONE), DONE) and implies(old(ABORT_SEEN), ABORT_SEEN)"},
                       havoc=["ghost:SLICE_TAKEN", "ghost:ABORT_SEEN", "ghost:DONE"])},
    )))
    p.spec_funcs["first_dispatch"] = lambda interp: interp.ctx.ghost["D1B_RESULTS"][0]
    p.spec_funcs["not_true"] = lambda interp, b: ops.mk_bool(ops.b_not(ops.truth(b)))
    p.spec_funcs["queue_tiles"] = lambda interp, me, lo, hi: ops.mk_bool(tiles(me.fields["_ready_batches"], ops.as_int_term(lo), ops.as_int_term(hi)))
    p.spec_funcs["seg_lo"] = lambda interp, s: Sym(INT, s.lo)
    p.spec_funcs["minimum"] = lambda i, a, b: Sym(INT, z3.If(ops.as_int_term(a) <= ops.as_int_term(b), ops.as_int_term(a), ops.as_int_term(b)))
    return p
