"""func_inspect.get_func_code under contract (C12): the text that decides whether a cached result belongs to the current code.

Until now "get_func_code returns the current source text" was a trusted line of C12.  The property (a cached value is never returned
for a function whose source differs from the one that computed it) needs, from this function, for a function whose source file exists:

  current text      the text returned is the block that starts at line co_firstlineno (index co_firstlineno - 1) of what the file
                    contains AT THIS CALL - the file is opened and read on every call, nothing is remembered from an earlier call
                    (two calls separated by an edit of the file return the two texts)
  position          result[1] is code.co_filename and result[2] is code.co_firstlineno
  totality          no exception escapes, whatever happens to the file between the existence test and the read (the fallback is the
                    hash of the code object with line -1: such a text never equals a stored source text that starts with `def`/`@`...
                    - that side is the caller's clause `_check_previous_func_code`, mem pack)

Model: the file system is a ghost map from the call ordinal to the file's text (havocked between calls: FILE_TEXT(k) are unrelated
strings); tokenize.open(path) returns a reader over FILE_TEXT(now) or raises OSError / SyntaxError / UnicodeDecodeError (vanished, bad
coding cookie); islice(reader, a, None) is the suffix of its lines from index a; inspect.getblock is an uninterpreted function BLOCK of
(text, start index) that may raise (IndentationError / tokenize errors: any exception).  Functions whose file does not exist (lambdas
typed in a shell, doctests) go through inspect.getsourcelines: covered for the non-doctest case with getsourcelines uninterpreted
(SRC_LINES(func)) or raising OSError; the doctest branch (re.match on the pseudo file name) is outside the variant (precondition).
"""
import z3

from pyvc import ops
from pyvc.contracts import Contract
from pyvc.pack import Pack
from pyvc.interp import PyRaise, exc
from pyvc.values import INT, STR, Opaque, Sym

from .common import install_common

FI = "joblib/func_inspect.py"


def build():
    p = Pack("GFC", files=[FI])
    install_common(p)

    FILE_TEXT = z3.Function("FILE_TEXT", z3.IntSort(), z3.StringSort())       # text of the source file at read number k
    BLOCK = z3.Function("BLOCK", z3.StringSort(), z3.IntSort(), z3.StringSort())  # "".join(inspect.getblock(lines of text from index i))
    SRC = z3.Function("SRC_LINES_JOINED", z3.IntSort(), z3.StringSort())      # "".join(inspect.getsourcelines(func)[0]) of function object f

    def func(interp):
        ctx = interp.ctx
        fname = Sym(STR, z3.String(ctx.fresh_name("co_filename")))
        line = Sym(INT, z3.Int(ctx.fresh_name("co_firstlineno")))
        ctx.assume(ops.to_term(line) >= 1)
        ctx.ghost["FILE"], ctx.ghost["LINE"] = fname, line
        ctx.ghost["NOW"] = z3.Int(ctx.fresh_name("read_ordinal"))
        ctx.ghost["READS"] = 0
        code = Opaque("code", None, co_filename=fname, co_firstlineno=line)
        return Opaque("function", None, __code__=code, hasattr={"__code__": True})

    def exists(interp, recv, args, kwargs):
        e = interp.ctx.branch(z3.Bool(interp.ctx.fresh_name("exists")), "os.path.exists")
        interp.ctx.ghost["EXISTED"] = e
        return e

    p.models["ospath.exists"] = exists

    def _osmod():
        return Opaque("osmod", None, sep="/", path=Opaque("ospath", None))

    def open_py_source(interp, args, kwargs):
        ctx = interp.ctx
        k = ctx.choose(4, "tokenize.open")
        if k == 1:
            raise PyRaise(exc("FileNotFoundError", errno=2))
        if k == 2:
            raise PyRaise(exc("SyntaxError"))
        if k == 3:
            raise PyRaise(exc("UnicodeDecodeError"))
        ctx.ghost["READS"] += 1
        ctx.events.append(("open", args[0]))
        return Opaque("pysrc", None, path=args[0], text=FILE_TEXT(ctx.ghost["NOW"]))

    p.models["tokenize.open"] = open_py_source
    p.models["enter:pysrc"] = lambda i, cm: cm
    p.models["exit:pysrc"] = lambda i, cm, e: (i.ctx.events.append(("close", cm.attrs["path"])), False)[1]

    def m_islice(interp, args, kwargs):
        src = args[0]
        if not (isinstance(src, Opaque) and src.tag == "pysrc") or len(args) != 3 or args[2] is not None:
            interp.unsupported(None, "islice other than islice(<source file>, start, None)")
        return Opaque("lines", None, text=src.attrs["text"], start=args[1])

    p.models["itertools.islice"] = m_islice

    def m_list(interp, args, kwargs):
        if args and isinstance(args[0], Opaque) and args[0].tag == "lines":
            return Opaque("linelist", None, **args[0].attrs)
        interp.unsupported(None, "list() of something else than the lines of the source file")

    p.models["builtin:list"] = m_list

    def getblock(interp, args, kwargs):
        ll = args[0]
        if not (isinstance(ll, Opaque) and ll.tag == "linelist"):
            interp.unsupported(None, "inspect.getblock of something else than the lines read")
        k = interp.ctx.choose(3, "inspect.getblock")
        if k == 1:
            raise PyRaise(exc("IndentationError"))
        if k == 2:
            raise PyRaise(exc("IndexError"))
        return Opaque("block", None, joined=BLOCK(ll.attrs["text"], ops.to_term(ll.attrs["start"])))

    p.models["inspect.getblock"] = getblock

    def getsourcelines(interp, args, kwargs):
        k = interp.ctx.choose(3, "inspect.getsourcelines")
        if k == 1:
            raise PyRaise(exc("OSError"))
        if k == 2:
            raise PyRaise(exc("TypeError"))
        return (Opaque("block", None, joined=SRC(z3.IntVal(0))), 1)

    p.models["inspect.getsourcelines"] = getsourcelines

    def join(interp, sep, src):
        if isinstance(src, Opaque) and src.tag == "block" and sep == "":
            return Sym(STR, src.attrs["joined"])
        interp.unsupported(None, "str.join of something else than a block of source lines")

    p.models["join"] = join

    def m_hash(interp, recv, args, kwargs):
        return Sym(INT, z3.Int(interp.ctx.fresh_name("code_hash")))

    p.models["code.__hash__"] = m_hash

    p.spec_funcs["file_text_now"] = lambda interp: Sym(STR, FILE_TEXT(interp.ctx.ghost["NOW"]))
    p.spec_funcs["block_of"] = lambda interp, t, i: Sym(STR, BLOCK(ops.to_term(t), ops.to_term(i)))
    p.spec_funcs["shell_source"] = lambda interp: Sym(STR, SRC(z3.IntVal(0)))
    p.spec_funcs["co_filename"] = lambda interp: interp.ctx.ghost["FILE"]
    p.spec_funcs["co_firstlineno"] = lambda interp: interp.ctx.ghost["LINE"]
    p.spec_funcs["file_existed"] = lambda interp: interp.ctx.ghost.get("EXISTED", False)
    p.spec_funcs["reads"] = lambda interp: interp.ctx.ghost["READS"]
    p.spec_funcs["opened_and_closed_the_file_once"] = lambda interp: (
        [e[0] for e in interp.ctx.events if e[0] in ("open", "close")] == ["open", "close"])

    p.add(Contract(
        FI, "get_func_code", props=["C12"],
        globals={"os": lambda i: _osmod()},
        params=dict(func=func),
        requires=["not co_filename().startswith('<doctest ')"],
        ensures={
            "a_source_text_comes_from_the_file_as_it_is_now":
                "result[2] == -1 or not file_existed() or (reads() == 1 and result[0] == block_of(file_text_now(), co_firstlineno() - 1))",
            "position_is_that_of_the_code_object":
                "result[2] == -1 or not file_existed() or (result[1] == co_filename() and result[2] == co_firstlineno())",
            "shell_functions_get_the_text_inspect_reports":
                "result[2] == -1 or file_existed() or (result[0] == shell_source() and result[1] == co_filename() and result[2] == 1)",
            "fallback_is_marked_by_line_minus_one_and_names_the_file":
                "result[2] != -1 or result[1] == co_filename()",
            "file_closed_when_it_was_opened": "reads() == 0 or opened_and_closed_the_file_once()",
        },
        note="no exsures: no exception may escape (a source file can vanish or become undecodable between the existence test and the read)",
    ))
    return p
