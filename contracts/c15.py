"""C15 - n_jobs bounds concurrency; nesting never multiplies worker processes.

Integer contracts of every effective_n_jobs, pool/executor sizing in configure, nested-backend choice,
cpu_count.  Loop-free: every obligation is decided for all integers n_jobs and all cpu counts >= 1.
"""
import z3

from pyvc import ops
from pyvc.contracts import Contract, SourceModule
from pyvc.interp import PyRaise
from pyvc.pack import Pack
from pyvc.values import (
    BOOL, INT, REAL, STR, Atom, ClassRef, ObjOf, OneOf, Opaque, OpaqueOf, Opt, PyDict, PyList, SExc, SObj, Sym,
    Unsupported,
)

from .common import install_common

PB = "joblib/_parallel_backends.py"
PAR = "joblib/parallel.py"
CTX = "joblib/externals/loky/backend/context.py"

# the arithmetic every pool-based backend must implement (property statement)
RESOLVED = "(n_jobs if n_jobs > 0 else (CPUS + 1 + n_jobs if CPUS + 1 + n_jobs > 1 else 1))"


def build():
    p = Pack("C15", files=[PB, PAR, CTX, "joblib/executor.py"])
    install_common(p)
    G = dict(CPUS=INT, DAEMON=BOOL, MAIN=BOOL, DEPTH=INT)

    def setup(interp, env):
        interp.ctx.assume(interp.ctx.ghost["CPUS"].term >= 1)

    def cpu_count(interp, args, kwargs):
        return interp.ctx.ghost["CPUS"]

    p.assume_note("cpu_count() called by the backends returns CPUS >= 1 (proved for loky.backend.context.cpu_count in this pack)")
    p.models["mp.current_process"] = lambda i, r, a, k: Opaque("process", None, daemon=i.ctx.ghost["DAEMON"])
    p.models["ParallelBackendBase.in_main_thread"] = lambda i, r, a, k: i.ctx.ghost["MAIN"]
    p.assume_note("mp.current_process().daemon, in_main_thread(), process_executor._CURRENT_DEPTH: arbitrary (symbolic) environment facts")
    glob = {
        "mp": OneOf(None, OpaqueOf("mp")),
        "cpu_count": lambda interp: _Fn(cpu_count),
        "process_executor": lambda interp: Opaque("pe", None, _CURRENT_DEPTH=interp.ctx.ghost["DEPTH"]),
        "inside_dask_worker": lambda interp: _Fn(lambda i, a, k: BOOL.fresh(i.ctx, "dask")),
    }
    p.models["fn.__call__"] = lambda interp, fv, args, kwargs: fv.attrs["fn"](interp, args, kwargs)

    Backend = lambda cls: ObjOf(cls, nesting_level=Opt(INT), backend_kwargs=PyDict({}), inner_max_num_threads=None,
                                _pool=None, parallel=None)

    # ---------------------------------------------------------------- effective_n_jobs family
    p.add(Contract(
        PB, "PoolManagerMixin.effective_n_jobs", props=["C15"], ghost=G, setup=setup, globals=glob,
        params=dict(self=Backend("ThreadingBackend"), n_jobs=OneOf(None, INT)),
        returns=INT,
        ensures={
            "at_least_one": "result >= 1",
            "nonzero": "n_jobs is None or n_jobs != 0",
            "fallback": "implies(mp is None or n_jobs is None, result == 1)",
            "resolved": "implies(mp is not None and n_jobs is not None, result == %s)" % RESOLVED,
        },
        exsures={"ValueError": {"only_zero": "n_jobs is not None and n_jobs == 0"}},
    ))
    p.add(Contract(
        PB, "SequentialBackend.effective_n_jobs", props=["C15"], ghost=G, setup=setup, globals=glob,
        params=dict(self=Backend("SequentialBackend"), n_jobs=OneOf(None, INT)),
        returns=INT,
        ensures={"one": "result == 1", "nonzero": "n_jobs is None or n_jobs != 0"},
        exsures={"ValueError": {"only_zero": "n_jobs is not None and n_jobs == 0"}},
    ))
    GUARD_LOKY = "(DAEMON or not (MAIN or (self.nesting_level is not None and self.nesting_level == 0)))"
    p.add(Contract(
        PB, "LokyBackend.effective_n_jobs", props=["C15"], ghost=G, setup=setup, globals=glob,
        params=dict(self=Backend("LokyBackend"), n_jobs=OneOf(None, INT)),
        returns=INT,
        ensures={
            "at_least_one": "result >= 1",
            "nonzero": "n_jobs is None or n_jobs != 0",
            "fallback": "implies(mp is None or n_jobs is None, result == 1)",
            "no_nested_processes": "implies(mp is not None and n_jobs is not None and %s, result == 1)" % GUARD_LOKY,
            "resolved": "implies(mp is not None and n_jobs is not None and not %s, result == %s)" % (GUARD_LOKY, RESOLVED),
        },
        exsures={"ValueError": {"only_zero": "n_jobs is not None and n_jobs == 0"}},
    ))
    GUARD_MP = "(DAEMON or DEPTH > 0 or not (MAIN or (self.nesting_level is not None and self.nesting_level == 0)))"
    p.add(Contract(
        PB, "MultiprocessingBackend.effective_n_jobs", props=["C15"], ghost=G, setup=setup, globals=glob,
        params=dict(self=Backend("MultiprocessingBackend"), n_jobs=OneOf(None, INT)),
        returns=INT,
        ensures={
            "at_least_one": "result >= 1",
            "fallback": "implies(mp is None, result == 1)",
            "no_nested_processes": "implies(mp is not None and %s, result == 1)" % GUARD_MP,
            "resolved": "implies(mp is not None and n_jobs is not None and not %s, result == %s)" % (GUARD_MP, RESOLVED),
            "none": "implies(mp is not None and n_jobs is None and not %s, result == 1)" % GUARD_MP,
            "nonzero": "implies(mp is not None and not %s, n_jobs is None or n_jobs != 0)" % GUARD_MP,
        },
        exsures={"ValueError": {"only_zero": "n_jobs is not None and n_jobs == 0"}},
    ))

    # ---------------------------------------------------------------- configure: pool size == effective n_jobs
    def pool_ctor(name):
        def h(interp, args, kwargs):
            interp.ctx.events.append((name, tuple(args), dict(kwargs)))
            return Opaque("pool", None, size=args[0] if args else kwargs.get("max_workers"))
        return h

    p.exc_ctor_fields["FallbackToBackend"] = lambda interp, cls, args, kwargs: SExc(cls, args, backend=args[0])
    p.spec_funcs["n_events"] = lambda interp, name: sum(1 for e in interp.ctx.events if e[0] == name)
    p.spec_funcs["event_arg"] = lambda interp, name, i: next(e[1][i] for e in interp.ctx.events if e[0] == name)

    cfg_glob = dict(glob)
    cfg_glob["ThreadPool"] = lambda interp: _Fn(pool_ctor("ThreadPool"))
    cfg_glob["MemmappingPool"] = lambda interp: _Fn(pool_ctor("MemmappingPool"))
    cfg_glob["get_memmapping_executor"] = lambda interp: _Fn(pool_ctor("get_memmapping_executor"))
    p.assume_note("ThreadPool(k) / MemmappingPool(k) / loky reusable executor with max_workers=k run at most k tasks at once (external)")

    EFF = "ret_effective_n_jobs"
    p.add(Contract(
        PB, "ThreadingBackend.configure", props=["C15"], inline={"__init__"}, ghost=G, setup=setup, globals=cfg_glob,
        params=dict(self=Backend("ThreadingBackend"), n_jobs=OneOf(None, INT), parallel=OpaqueOf("parallel")),
        ensures={"returns_effective": "result == %s and result >= 2" % EFF, "records": "self._n_jobs == result"},
        exsures={"ValueError": {"only_zero": "n_jobs is not None and n_jobs == 0"},
                 "FallbackToBackend": {"only_when_one": "%s == 1" % EFF,
                                       "sequential": "isinstance(exc.backend, SequentialBackend)"}},
    ))
    p.add(Contract(
        PB, "ThreadingBackend._get_pool", props=["C15"], ghost=G, setup=setup, globals=cfg_glob,
        params=dict(self=ObjOf("ThreadingBackend", _pool=Opt(OpaqueOf("pool", size=INT)), _n_jobs=INT)),
        ensures={
            "sized_by_n_jobs": "implies(old(self._pool) is None, n_events('ThreadPool') == 1 and event_arg('ThreadPool', 0) == old(self._n_jobs))",
            "reused": "implies(old(self._pool) is not None, n_events('ThreadPool') == 0 and result is old(self._pool))",
        },
    ))
    p.add(Contract(
        PB, "MultiprocessingBackend.configure", props=["C15"], inline={"__init__"}, ghost=G, setup=setup, globals=cfg_glob,
        params=dict(self=Backend("MultiprocessingBackend"), n_jobs=OneOf(None, INT), parallel=OpaqueOf("parallel"),
                    memmapping_pool_kwargs=PyDict({})),
        ensures={"returns_effective": "result == %s and result >= 2" % EFF,
                 "pool_size": "n_events('MemmappingPool') == 1 and event_arg('MemmappingPool', 0) == result"},
        exsures={"ValueError": {"only_zero": "n_jobs is not None and n_jobs == 0"},
                 "FallbackToBackend": {"only_when_one": "%s == 1" % EFF, "no_pool": "n_events('MemmappingPool') == 0",
                                       "sequential": "isinstance(exc.backend, SequentialBackend)"}},
    ))
    p.models["ParallelBackendBase._prepare_worker_env"] = lambda i, r, a, k: PyDict({})
    p.add(Contract(
        PB, "LokyBackend.configure", props=["C15"], inline={"__init__"}, ghost=G, setup=setup, globals=cfg_glob,
        params=dict(self=Backend("LokyBackend"), n_jobs=OneOf(None, INT), parallel=OpaqueOf("parallel", _id=STR),
                    idle_worker_timeout=Opt(INT), memmapping_executor_kwargs=PyDict({})),
        ensures={"returns_effective": "result == %s and result >= 2" % EFF,
                 "executor_size": "n_events('get_memmapping_executor') == 1 and event_arg('get_memmapping_executor', 0) == result"},
        exsures={"ValueError": {"only_zero": "n_jobs is not None and n_jobs == 0"},
                 "FallbackToBackend": {"only_when_one": "%s == 1" % EFF, "no_executor": "n_events('get_memmapping_executor') == 0",
                                       "sequential": "isinstance(exc.backend, SequentialBackend)"}},
    ))

    # ---------------------------------------------------------------- executor sizing pass-through
    def reusable(interp, args, kwargs):
        interp.ctx.events.append(("get_reusable_executor", tuple(args), dict(kwargs)))
        ex = Opaque("executor", None, _temp_folder_manager=Opaque("tfm", None))
        return (ex, BOOL.fresh(interp.ctx, "reused"))

    p.models["tfm.register_new_context"] = lambda i, r, a, k: None
    ex_glob = {
        "_executor_args": Opt(OpaqueOf("dictval")),
        "TemporaryResourcesManager": lambda interp: _Fn(lambda i, a, k: Opaque("tfm", None)),
        "get_memmapping_reducers": lambda interp: _Fn(lambda i, a, k: (Opaque("red", None), Opaque("red", None))),
    }
    p.models["tfm.resolve_temp_folder_name"] = lambda i, r, a, k: STR.fresh(i.ctx, "folder")
    p.add(Contract(
        "joblib/executor.py", "MemmappingExecutor.get_memmapping_executor", props=["C15"], globals=ex_glob,
        params=dict(cls=ClassRef("MemmappingExecutor"), n_jobs=INT, timeout=INT, env=None, temp_folder=None,
                    context_id=Opt(STR), backend_args=PyDict({})),
        calls={"super().get_reusable_executor": reusable},
        ensures={"max_workers_is_n_jobs": "n_events('get_reusable_executor') == 1 and event_arg('get_reusable_executor', 0) is n_jobs"},
    ))
    p.add(Contract(
        "joblib/executor.py", "get_memmapping_executor", props=["C15"],
        params=dict(n_jobs=INT, kwargs=PyDict({})),
        calls={"MemmappingExecutor.get_memmapping_executor": lambda i, a, k: i.ctx.events.append(("mm", tuple(a), dict(k)))},
        ensures={"passes_n_jobs": "n_events('mm') == 1 and event_arg('mm', 0) is n_jobs"},
    ))

    # ---------------------------------------------------------------- nesting
    p.add(Contract(
        PB, "ParallelBackendBase.get_nested_backend", props=["C15"],
        params=dict(self=ObjOf("LokyBackend", nesting_level=INT)),
        requires=["self.nesting_level >= 0"],
        inline={"__init__"},
        ensures={
            "first_level_threads": "implies(self.nesting_level == 0, isinstance(result[0], ThreadingBackend) and result[0].nesting_level == 1)",
            "deeper_sequential": "implies(self.nesting_level >= 1, isinstance(result[0], SequentialBackend) and result[0].nesting_level == self.nesting_level + 1)",
            "never_processes": "not isinstance(result[0], LokyBackend) and not isinstance(result[0], MultiprocessingBackend)",
            "n_jobs_unset": "result[1] is None",
        },
    ))

    # ---------------------------------------------------------------- module-level API in parallel.py
    def active_backend(interp, args, kwargs):
        b = Opaque("backend", None)
        return (b, interp.ctx.ghost["CTX_N_JOBS"])

    def backend_eff(interp, recv, args, kwargs):
        interp.ctx.events.append(("backend.effective_n_jobs", (kwargs.get("n_jobs", args[0] if args else None),), {}))
        return INT.fresh(interp.ctx, "eff")

    p.models["backend.effective_n_jobs"] = backend_eff
    p.add(Contract(
        PAR, "effective_n_jobs", props=["C15"], ghost=dict(CTX_N_JOBS=OneOf(None, INT)),
        params=dict(n_jobs=OneOf(None, INT)),
        calls={"get_active_backend": active_backend},
        ensures={
            "one_is_one": "implies(n_jobs is not None and n_jobs == 1, result == 1 and n_events('backend.effective_n_jobs') == 0)",
            "delegates": "implies(n_jobs is None or n_jobs != 1, n_events('backend.effective_n_jobs') == 1 and "
                         "event_arg('backend.effective_n_jobs', 0) is (n_jobs if n_jobs is not None else CTX_N_JOBS))",
        },
    ))
    p.add(Contract(
        PAR, "cpu_count", props=["C15"], ghost=dict(CPUS=INT), setup=setup,
        params=dict(only_physical_cores=BOOL),
        globals={"mp": OneOf(None, OpaqueOf("mp")), "loky": lambda interp: Opaque("lokymod", None)},
        ensures={"at_least_one": "result >= 1"},
    ))
    p.models["lokymod.cpu_count"] = lambda i, r, a, k: i.ctx.ghost["CPUS"]
    p.add(Contract(
        PAR, "Parallel._effective_n_jobs", props=["C15"],
        params=dict(self=ObjOf("Parallel", _backend=Opt(OpaqueOf("backend")), n_jobs=INT)),
        ensures={"delegates_or_one": "implies(self._backend is None, result == 1) and implies(self._backend is not None, "
                                     "n_events('backend.effective_n_jobs') == 1 and event_arg('backend.effective_n_jobs', 0) is self.n_jobs)"},
    ))

    # ---------------------------------------------------------------- loky cpu_count: >= 1, honours affinity and LOKY_MAX_CPU_COUNT
    CG = dict(OS=OneOf(None, INT), AFF=INT, CGROUP=INT, LOKYMAX=OneOf(None, INT), PHYS=OneOf("not found", INT), SCHED_IMPL=True, PSUTIL=None)

    def ctx_setup(interp, env):
        g = interp.ctx.ghost
        if g["OS"] is not None:
            interp.ctx.assume(g["OS"].term >= 0)

    p.models["os.cpu_count"] = lambda i, a, k: i.ctx.ghost["OS"]
    p.models["os.environ.get"] = lambda i, a, k: (i.ctx.ghost["LOKYMAX"] if i.ctx.ghost["LOKYMAX"] is not None else (a[1] if len(a) > 1 else None))
    p.assume_note("os.cpu_count() is None or >= 0; os.sched_getaffinity / cgroup files / LOKY_MAX_CPU_COUNT are arbitrary integers (int() of the env string assumed to parse)")
    # _cpu_count_affinity is under contract itself (below) and used through that contract: AFF is the number of CPUs the affinity mask
    # allows RIGHT NOW as reported by the platform (os.sched_getaffinity, else psutil), or os_cpu_count where neither exists
    def sched_getaffinity(interp, args, kwargs):
        interp.ctx.events.append(("sched_getaffinity",))
        if interp.ctx.ghost.get("SCHED_IMPL", True) is False:
            interp.raise_("NotImplementedError")
        return Opaque("cpuset", None, n=interp.ctx.ghost["AFF"])

    p.models["os.sched_getaffinity"] = sched_getaffinity
    p.models["len:cpuset"] = lambda i, v: v.attrs["n"]
    p.models["hasattr:osmod"] = None

    def import_psutil(interp):
        if interp.ctx.ghost.get("PSUTIL") is None:
            interp.raise_("ImportError")
        return Opaque("psutilmod", None)

    p.models["import:psutil"] = import_psutil
    p.models["psutilmod.Process"] = lambda i, r, a, k: Opaque("psproc", None, hasattr={"cpu_affinity": True})
    p.models["psproc.cpu_affinity"] = lambda i, r, a, k: Opaque("cpuset", None, n=i.ctx.ghost["PSUTIL"])
    AFFG = dict(AFF=INT, SCHED_IMPL=OneOf(True, False), PSUTIL=OneOf(None, INT), LOKYMAX=OneOf(None, INT))
    p.add(Contract(
        CTX, "_cpu_count_affinity", props=["C15"], ghost=AFFG,
        globals={"os": lambda interp: Opaque("osmod", None, hasattr={"sched_getaffinity": True}, environ=Opaque("environ", None)),
                 "sys": lambda interp: Opaque("sys", None, platform="linux")},
        params=dict(os_cpu_count=INT),
        returns=INT,
        ensures={"the_current_affinity_mask_when_the_platform_reports_one": "implies(SCHED_IMPL, result == AFF)",
                 "else_psutil_else_all_cpus": "implies(not SCHED_IMPL, result == (PSUTIL if PSUTIL is not None else os_cpu_count))"},
    ))
    p.models["osmod.sched_getaffinity"] = lambda i, r, a, k: sched_getaffinity(i, a, k)
    p.models["environ.get"] = lambda i, r, a, k: (i.ctx.ghost["LOKYMAX"] if i.ctx.ghost.get("LOKYMAX") is not None else (a[1] if len(a) > 1 else None))
    p.log_calls.update({"warnings.warn"})
    ctx_glob = {
        "_cpu_count_cgroup": lambda interp: _Fn(lambda i, a, k: i.ctx.ghost["CGROUP"]),
        "_count_physical_cores": lambda interp: _Fn(lambda i, a, k: (i.ctx.ghost["PHYS"], None)),
        "sys": lambda interp: Opaque("sys", None, platform="linux"),
    }
    p.add(Contract(
        CTX, "_cpu_count_user", props=["C15"], ghost=CG, setup=ctx_setup, globals=ctx_glob,
        params=dict(os_cpu_count=INT),
        returns=INT,
        ensures={"min_of_constraints": "result <= AFF and result <= CGROUP and result <= (LOKYMAX if LOKYMAX is not None else os_cpu_count)"
                                       " and (result == AFF or result == CGROUP or result == (LOKYMAX if LOKYMAX is not None else os_cpu_count))"},
    ))
    p.add(Contract(
        CTX, "cpu_count", props=["C15"], ghost=CG, setup=ctx_setup, globals=ctx_glob,
        params=dict(only_physical_cores=OneOf(False, True)),
        requires=["PHYS == 'not found' or PHYS >= 1"],
        ensures={
            "at_least_one": "result >= 1",
            "honours_affinity": "implies(AFF >= 1 and not only_physical_cores, result <= AFF)",
            "honours_loky_max": "implies(LOKYMAX is not None and LOKYMAX >= 1 and not only_physical_cores, result <= LOKYMAX)",
            "honours_user_physical": "implies(only_physical_cores and ret__cpu_count_user >= 1 and ret__cpu_count_user < (OS if OS is not None and OS != 0 else 1), result <= ret__cpu_count_user)",
        },
    ))
    # ---------------------------------------------------------------- Parallel._initialize_backend: the fallback chain
    # configure() either returns the number of workers or raises FallbackToBackend(other): then `other` becomes the backend of the object and
    # is configured in turn with the same settings (the recursive call is inlined; shape-bounded: the backend fallen back to accepts - the built-in
    # chains are loky/multiprocessing/threading -> sequential).
    # What the caller gets is the worker count of the backend that finally accepted - C15 relies on it for "1 runs in the calling thread"
    # (a backend asked for one worker falls back to SequentialBackend) and C17 for the thread / sequential fallbacks of nested calls.
    def be_configure(interp, recv, args, kwargs):
        ctx = interp.ctx
        g = ctx.ghost
        ctx.events.append(("configure", recv, kwargs.get("n_jobs"), kwargs.get("parallel"), PyDict({k: v for k, v in kwargs.items() if k not in ("n_jobs", "parallel")})))
        if recv.attrs.get("may_fall_back") and ctx.choose(2, "configure:falls-back") == 1:
            other = Opaque("cfgbackend", ctx.fresh_name("fallback"), may_fall_back=False, supports_timeout=BOOL.fresh(ctx, "supports_timeout"))
            other.attrs["__class__"] = Opaque("cls", None, __name__="SequentialBackend")
            g["FALLBACK"] = other
            cls = interp.global_lookup("FallbackToBackend", SourceModule.get(PAR))
            raise PyRaise(SExc(cls, (other,), backend=other))
        n = INT.fresh(ctx, "workers")
        g["ACCEPTED_BY"] = recv
        g["WORKERS"] = n
        return n

    p.models["cfgbackend.configure"] = be_configure
    p.log_calls.add("warnings.warn")

    def ib_backend(interp):
        o = Opaque("cfgbackend", "first", may_fall_back=True, supports_timeout=BOOL.fresh(interp.ctx, "supports_timeout"))
        o.attrs["__class__"] = Opaque("cls", None, __name__="SomeBackend")
        return o

    p.spec_funcs["accepted_by"] = lambda interp: interp.ctx.ghost.get("ACCEPTED_BY")
    p.spec_funcs["workers"] = lambda interp: interp.ctx.ghost.get("WORKERS")
    p.spec_funcs["cfg_events"] = lambda interp: tuple(e for e in interp.ctx.events if e[0] == "configure")
    p.add(Contract(
        PAR, "Parallel._initialize_backend", props=["C15", "C17"], inline={"_initialize_backend"},
        params=dict(self=ObjOf("Parallel", _backend=ib_backend, n_jobs=OneOf(None, INT), timeout=Opt(REAL), _backend_kwargs=lambda i: PyDict({"mmap_mode": "r", "temp_folder": Opaque("folder", None)}))),
        ensures={"workers_of_the_backend_that_accepted": "result is workers() and self._backend is accepted_by()",
                 "every_backend_of_the_chain_gets_the_objects_settings": "all(e[2] is self.n_jobs and e[3] is self and e[4]['mmap_mode'] == 'r' and e[4]['temp_folder'] is self._backend_kwargs['temp_folder'] for e in cfg_events())",
                 "a_fallback_is_configured_too": "len(cfg_events()) >= 1 and cfg_events()[-1][1] is self._backend"},
    ))
    return p


def _Fn(fn):
    return Opaque("fn", None, fn=fn)
