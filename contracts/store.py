"""Store write discipline (C05 crash points, C11 interference) on the real FileSystemStoreBackend / StoreBackendMixin code.

File-system model (DESIGN 4.3), ghost state:  EX : Path -> Bool,  CT : Path -> {0 dir, 1 file being written / torn,
2 complete file},  PAYL : Path -> Payload.  Paths are an algebraic datatype (injective by construction):
     Path = loc | join(parent, name) | tmp(base, thread id, pid)
Crash invariant  CI :  every visible path named output.pkl / metadata.json is a COMPLETE file.
CI is asserted after EVERY file-system effect (a crash leaves a prefix of the effects; a file that is open for writing
is in state 1 whatever prefix of its bytes reached the disk).
Interference (variant "concurrent"): before every primitive the whole file system is replaced by an arbitrary one
that (a) neither creates nor rewrites this writer's own temporaries (its thread id and pid) - they may only vanish, removed
with their entry by a concurrent clear() / reduce_size() - and (b) satisfies CI (what every
cache user guarantees: final names are only ever the target of an atomic replace of a complete file).
"""
import z3

from pyvc import ops
from pyvc.contracts import Contract, Loop
from pyvc.ctx import PathEnd
from pyvc.interp import BUILTIN_EXC, PyRaise
from pyvc.pack import Pack
from pyvc.values import (
    BOOL, BYTES, INT, REAL, STR, Atom, Kind, ObjOf, OneOf, Opaque, OpaqueOf, Opt, PyDict, PyList, SExc, Sym, Unsupported,
    kind_of, to_term,
)

from .common import install_common

SB = "joblib/_store_backends.py"

PathDT = z3.Datatype("Path")
PathDT.declare("loc", ("loc_id", z3.IntSort()))
PathDT.declare("join", ("parent", PathDT), ("name", z3.StringSort()))
PathDT.declare("tmp", ("base", PathDT), ("tid", z3.IntSort()), ("pid", z3.IntSort()))
PathDT = PathDT.create()
Payload = z3.DeclareSort("Payload")


class _PathK(Atom):
    def __init__(self):
        self.name = "Path"

    def sort(self):
        return PathDT


PATH = _PathK()


class _ArrK(Atom):
    def __init__(self, name, rng):
        self.name = name
        self._s = z3.ArraySort(PathDT, rng)

    def sort(self):
        return self._s


EXK, CTK, PAYK = _ArrK("FS.exists", z3.BoolSort()), _ArrK("FS.state", z3.IntSort()), _ArrK("FS.payload", Payload)
FINAL_NAMES = ("output.pkl", "metadata.json")


from pyvc.values import ExcClass  # noqa: E402

PICKLING = ExcClass("PicklingError", bases=(BUILTIN_EXC["Exception"],))


def _Fn(fn):
    return Opaque("fn", None, fn=fn)


def ci_term(ex, ct):
    p = z3.Const("p!ci", PathDT)
    final = z3.And(PathDT.is_join(p), z3.Or(*[PathDT.name(p) == z3.StringVal(n) for n in FINAL_NAMES]))
    return z3.ForAll([p], z3.Implies(z3.And(final, z3.Select(ex, p)), z3.Select(ct, p) == 2))


def parents(t):
    """Ancestors of a path term built by os.path.join (walks the concrete constructor structure)."""
    out = []
    while z3.is_app(t) and t.decl().name() == "join":
        t = t.arg(0)
        out.append(t)
    return out


def build():
    p = Pack("STORE", files=[SB, "joblib/disk.py", "joblib/backports.py"])
    install_common(p)
    p.models["fn.__call__"] = lambda interp, fv, args, kwargs: fv.attrs["fn"](interp, args, kwargs)
    p.models["builtin:staticmethod"] = lambda i, a, k: a[0]
    p.log_calls.update({"warnings.warn"})
    p.exc_dotted["pickle.PicklingError"] = PICKLING

    def fs(ctx):
        g = ctx.ghost
        return g["EX"].term, g["CT"].term, g["PAYL"].term

    def setfs(ctx, ex=None, ct=None, pay=None):
        g = ctx.ghost
        if ex is not None:
            g["EX"] = Sym(EXK, ex)
        if ct is not None:
            g["CT"] = Sym(CTK, ct)
        if pay is not None:
            g["PAYL"] = Sym(PAYK, pay)

    def crash_point(interp, label):
        ctx = interp.ctx
        ex, ct, _ = fs(ctx)
        ctx.check("%s/crash-after.%s.CI" % (interp.contract.qualname, label), ci_term(ex, ct),
                  detail="a result file is never visible under its final name unless it is complete (state after effect: %s)" % label)

    def interfere(interp):
        ctx = interp.ctx
        g = ctx.ghost
        if not g.get("INTERFERE"):
            return
        ex, ct, pay = fs(ctx)
        n = ctx.fresh_name("fs")
        ex2, ct2, pay2 = (z3.Const(n + s, k.sort()) for s, k in ((".ex", EXK), (".ct", CTK), (".pay", PAYK)))
        q = z3.Const("q!if", PathDT)
        mine = z3.And(PathDT.is_tmp(q), PathDT.tid(q) == g["TID"].term, PathDT.pid(q) == g["PID"].term)
        # nobody else creates or writes this user's temporaries - but a concurrent clear() / reduce_size() may REMOVE them with the entry
        ctx.assume(z3.ForAll([q], z3.Implies(mine, z3.And(z3.Implies(z3.Select(ex2, q), z3.Select(ex, q)), z3.Select(ct2, q) == z3.Select(ct, q),
                                                          z3.Select(pay2, q) == z3.Select(pay, q)))))
        ctx.assume(ci_term(ex2, ct2))
        setfs(ctx, ex2, ct2, pay2)

    # ------------------------------------------------------------------ path construction
    def path_join(interp, args, kwargs):
        t = to_term(args[0])
        for part in args[1:]:
            t = PathDT.join(t, to_term(part))
        return Sym(PATH, t)

    p.models["os.path.join"] = path_join
    p.assume_note("os.path.join(a, b, ...) builds join(join(a, b), ...): distinct component sequences give distinct paths (components contain no separator)")

    def str_format(interp, recv, args, kwargs):
        if isinstance(recv, str) and args and kind_of(args[0]) is PATH:
            # "<base>.thread-<tid>-pid-<pid>": the temporary name is a function of exactly the values substituted
            fields = recv.split("{}")
            base = to_term(args[0])
            tid = pid = z3.IntVal(0)
            for lit, a in zip(fields[1:], args[1:]):
                if lit.endswith("thread-"):
                    tid = ops.as_int_term(a)
                elif lit.endswith("pid-"):
                    pid = ops.as_int_term(a)
            if not fields[0] == "" or len(fields) < 2:
                raise Unsupported("temporary-name template %r" % recv)
            return Sym(PATH, PathDT.tmp(base, tid, pid))
        return STR.fresh(interp.ctx, "fmt")

    p.models["Str.format"] = str_format
    p.assume_note("'{}.thread-{}-pid-{}'.format(f, t, p) is injective in (f, t, p)")
    p.models["threading.current_thread"] = lambda i, a, k: Opaque("thread", "current")
    p.models["builtin:id"] = lambda i, a, k: i.ctx.ghost["TID"]
    p.models["os.getpid"] = lambda i, a, k: i.ctx.ghost["PID"]
    p.assume_note("id(threading.current_thread()) is distinct among live threads of a process, os.getpid() among live processes")

    # ------------------------------------------------------------------ primitives (ASSUMED POSIX contracts)
    def os_exists(interp, args, kwargs):
        interfere(interp)
        ex, _, _ = fs(interp.ctx)
        return ops.mk_bool(z3.Select(ex, to_term(args[0])))

    p.models["os.path.exists"] = os_exists

    def os_isdir(interp, args, kwargs):
        interfere(interp)
        ex, ct, _ = fs(interp.ctx)
        return ops.mk_bool(z3.And(z3.Select(ex, to_term(args[0])), z3.Select(ct, to_term(args[0])) == 0))

    p.models["os.path.isdir"] = os_isdir

    def os_makedirs(interp, args, kwargs):
        ctx = interp.ctx
        interfere(interp)
        ex, ct, _ = fs(ctx)
        t = to_term(args[0])
        if ctx.branch(z3.Select(ex, t), "makedirs:exists"):
            raise PyRaise(SExc(BUILTIN_EXC["FileExistsError"], (), errno=17))
        if ctx.ghost.get("INTERFERE") and parents(t) and ctx.choose(2, "makedirs:a-parent-vanishes-between-two-levels") == 1:
            # os.makedirs creates the missing levels one mkdir at a time: another user removing a level in between gives ENOENT
            raise PyRaise(SExc(BUILTIN_EXC["FileNotFoundError"], (), errno=2))
        for a in [t] + parents(t):
            ex = z3.Store(ex, a, True)
        ct = z3.Store(ct, t, 0)
        setfs(ctx, ex=ex, ct=ct)
        ctx.events.append(("makedirs", args[0]))
        crash_point(interp, "makedirs")
        return None

    p.models["os.makedirs"] = os_makedirs
    p.globals["errno"] = Opaque("errnomod", None, EEXIST=17)
    p.assume_note("os.makedirs creates the directory and its ancestors or raises FileExistsError (errno EEXIST); other OS errors (permissions, full disk) are out of scope")

    def open_model(interp, args, kwargs):
        mode = args[1] if len(args) > 1 else "r"
        return Opaque("file", None, path=args[0], mode=mode, failed=False)

    p.models["builtin:open"] = open_model

    def file_enter(interp, f):
        ctx = interp.ctx
        interfere(interp)
        ex, ct, pay = fs(ctx)
        t = to_term(f.attrs["path"])
        if f.attrs["mode"] == "wb":
            par = parents(t) or ([PathDT.base(t)] if False else [])
            if z3.is_app(t) and t.decl().name() == "tmp":
                par = parents(t.arg(0))
            if par:
                if not ctx.branch(z3.Select(ex, par[0]), "open:parent-dir-exists"):
                    raise PyRaise(SExc(BUILTIN_EXC["FileNotFoundError"], (), errno=2))
            # creates or TRUNCATES the name: from now on the content is a prefix of what will be written
            setfs(ctx, ex=z3.Store(ex, t, True), ct=z3.Store(ct, t, 1))
            ctx.events.append(("open-wb", f.attrs["path"]))
            crash_point(interp, "open-for-writing")
        else:
            if not ctx.branch(z3.And(z3.Select(ex, t), z3.Select(ct, t) != 0), "open:readable"):
                raise PyRaise(SExc(BUILTIN_EXC["FileNotFoundError"], (), errno=2))
        return f

    def file_exit(interp, f, e):
        ctx = interp.ctx
        if f.attrs["mode"] == "wb":
            ex, ct, pay = fs(ctx)
            t = to_term(f.attrs["path"])
            if e is None and not f.attrs.get("torn"):
                payload = f.attrs.get("payload")
                pt = payload if payload is not None else z3.Const(ctx.fresh_name("payload"), Payload)
                setfs(ctx, ct=z3.Store(ct, t, 2), pay=z3.Store(pay, t, pt))
                ctx.events.append(("close-complete", f.attrs["path"]))
            crash_point(interp, "close")
        return False

    p.models["enter:file"] = file_enter
    p.models["exit:file"] = file_exit

    def file_write(interp, recv, args, kwargs):
        interp.ctx.events.append(("write", recv.attrs["path"]))
        crash_point(interp, "write")
        return None

    p.models["file.write"] = file_write
    p.models["file.read"] = lambda i, r, a, k: Opaque("filebytes", None, path=r.attrs["path"])
    p.models["filebytes.decode"] = lambda i, r, a, k: Opaque("filetext", None, path=r.attrs["path"])
    p.assume_note("open(p, 'wb') creates/truncates p (FileNotFoundError when the parent directory is missing); the content is torn until the file is closed normally")

    def json_loads(interp, args, kwargs):
        ctx = interp.ctx
        t = to_term(args[0].attrs["path"])
        _, ct, _ = fs(ctx)
        if ctx.choose(2, "json:invalid") == 1:
            interp.raise_("ValueError")
        return PyDict({"time": REAL.fresh(ctx, "t"), "duration": REAL.fresh(ctx, "d"), "input_args": Opaque("ia", None)})

    p.models["json.loads"] = json_loads
    p.models["json.dumps"] = lambda i, a, k: Opaque("jsontext", None)
    p.models["jsontext.encode"] = lambda i, r, a, k: BYTES.fresh(i.ctx, "json")
    p.models["Str.encode"] = lambda i, r, a, k: BYTES.fresh(i.ctx, "enc")

    def np_dump(interp, args, kwargs):
        ctx = interp.ctx
        f = args[1]
        ctx.events.append(("pickle-into", f.attrs["path"]))
        crash_point(interp, "write")
        k = ctx.choose(3, "dump:outcome")
        if k:
            f.attrs["torn"] = True  # the bytes written so far are a strict prefix of the pickle, whatever happens to the exception
        if k == 1:
            raise PyRaise(SExc(PICKLING, ()))
        if k == 2:
            interp.raise_("OSError")
        return None

    p.models["joblib.numpy_pickle.dump"] = np_dump
    p.globals["numpy_pickle"] = Opaque("numpy_pickle_mod", None)
    p.models["numpy_pickle_mod.dump"] = lambda i, r, a, k: np_dump(i, a, k)
    p.models["numpy_pickle_mod.load"] = lambda i, r, a, k: Opaque("loaded", None) if i.ctx.choose(2, "load:fails") == 0 else i.raise_("ValueError")
    p.assume_note("numpy_pickle.dump writes into the open file and may raise PicklingError or OSError; load returns the object or raises (C03/C14)")

    def os_replace(interp, args, kwargs):
        ctx = interp.ctx
        interfere(interp)
        ex, ct, pay = fs(ctx)
        s, d = to_term(args[0]), to_term(args[1])
        if not ctx.branch(z3.Select(ex, s), "replace:src-exists"):
            raise PyRaise(SExc(BUILTIN_EXC["FileNotFoundError"], (), errno=2))
        ex2 = z3.Store(z3.Store(ex, d, True), s, False)
        setfs(ctx, ex=ex2, ct=z3.Store(ct, d, z3.Select(ct, s)), pay=z3.Store(pay, d, z3.Select(pay, s)))
        ctx.events.append(("replace", args[0], args[1]))
        crash_point(interp, "replace")
        return None

    def os_unlink(interp, args, kwargs):
        # removes one name (FileNotFoundError when it is already gone); only ever applied to this writer's own temporary
        ctx = interp.ctx
        interfere(interp)
        ex, ct, pay = fs(ctx)
        f = to_term(args[0])
        if not ctx.branch(z3.Select(ex, f), "unlink:exists"):
            raise PyRaise(SExc(BUILTIN_EXC["FileNotFoundError"], (), errno=2))
        setfs(ctx, ex=z3.Store(ex, f, False))
        ctx.events.append(("unlink", args[0]))
        crash_point(interp, "unlink")
        return None

    p.models["os.unlink"] = os_unlink
    p.globals["concurrency_safe_rename"] = _Fn(os_replace)
    p.assume_note("os.replace(src, dst) is atomic: dst becomes exactly src's file (FileNotFoundError when src is gone); POSIX rename semantics, no fsync reordering")

    def under_term(q, t):
        return z3.Or(q == t, z3.And(PathDT.is_join(q), z3.Or(PathDT.parent(q) == t, z3.And(PathDT.is_join(PathDT.parent(q)), z3.Or(
            PathDT.parent(PathDT.parent(q)) == t)))),
            z3.And(PathDT.is_tmp(q), z3.Or(PathDT.base(q) == t, z3.And(PathDT.is_join(PathDT.base(q)), z3.Or(
                PathDT.parent(PathDT.base(q)) == t, z3.And(PathDT.is_join(PathDT.parent(PathDT.base(q))), PathDT.parent(PathDT.parent(PathDT.base(q))) == t))))))

    def ord_term(ctx):
        """Ordering clause of clear_path(function directory): the function's code file is still there, or no sub-directory (cached
        result) is - results never outlive the code that computed them (what MemorizedFunc relies on: store invariant SI)."""
        loc = ctx.ghost.get("ORD_LOC")
        if loc is None:
            return None
        ex, ct, _ = fs(ctx)
        code = PathDT.join(loc, z3.StringVal("func_code.py"))
        sname = z3.String("s!ord")
        child = PathDT.join(loc, sname)
        return z3.Or(z3.And(z3.Select(ex, code), z3.Select(ct, code) != 0),
                     z3.ForAll([sname], z3.Not(z3.And(z3.Select(ex, child), z3.Select(ct, child) == 0)), patterns=[z3.Select(ex, child)]))

    def rmtree_subset(interp, args, kwargs, complete):
        ctx = interp.ctx
        interfere(interp)
        ex, ct, pay = fs(ctx)
        t = to_term(args[0])
        q = z3.Const("q!rm", PathDT)
        under = under_term(q, t)
        ex2 = z3.Const(ctx.fresh_name("ex.rm"), EXK.sort())
        # a crash leaves any prefix of the piecewise removal: nothing outside the subtree changes, inside things only disappear
        ctx.assume(z3.ForAll([q], z3.If(under, z3.Implies(z3.Select(ex2, q), z3.Select(ex, q)), z3.Select(ex2, q) == z3.Select(ex, q))))
        setfs(ctx, ex=ex2)
        ctx.events.append(("rmtree", args[0]))
        crash_point(interp, "rmtree (any prefix of the piecewise removal)")
        o = ord_term(ctx)
        if o is not None:
            ctx.check("%s/crash-inside.rmtree.results-never-outlive-their-code-file" % interp.contract.qualname, o,
                      detail="in every state a kill inside this removal can leave: func_code.py is still there, or no cached result of the function is")
        if complete:
            # the call returned: the whole subtree is gone (assumption: the owner of the cache can delete its own files)
            ex3 = z3.Const(ctx.fresh_name("ex.rmdone"), EXK.sort())
            ctx.assume(z3.ForAll([q], z3.If(under, z3.Not(z3.Select(ex3, q)), z3.Select(ex3, q) == z3.Select(ex, q))))
            setfs(ctx, ex=ex3)
        return None

    def rmtree(interp, args, kwargs):
        return rmtree_subset(interp, args, kwargs, True)

    def os_listdir(interp, args, kwargs):
        """os.listdir(d): the names of exactly the children of d that exist at this moment (OSError when d does not exist)."""
        ctx = interp.ctx
        interfere(interp)
        ex, ct, _ = fs(ctx)
        d = to_term(args[0])
        if not ctx.branch(z3.Select(ex, d), "listdir:exists"):
            raise PyRaise(SExc(BUILTIN_EXC["FileNotFoundError"], (), errno=2))
        from pyvc.values import SList
        nm = ctx.fresh_name("names")
        arr = z3.Const(nm, z3.ArraySort(z3.IntSort(), z3.StringSort()))
        n = z3.Int(nm + ".len")
        lidx = z3.Function(nm + ".idx", z3.StringSort(), z3.IntSort())
        j, sname = z3.Int("j!ls"), z3.String("s!ls")
        ctx.assume(n >= 0)
        ctx.assume(z3.ForAll([j], z3.Implies(z3.And(0 <= j, j < n), z3.And(z3.Select(ex, PathDT.join(d, z3.Select(arr, j))), lidx(z3.Select(arr, j)) == j)),
                             patterns=[z3.Select(arr, j)]))
        ctx.assume(z3.ForAll([sname], z3.Implies(z3.Select(ex, PathDT.join(d, sname)), z3.And(0 <= lidx(sname), lidx(sname) < n, z3.Select(arr, lidx(sname)) == sname)),
                             patterns=[z3.Select(ex, PathDT.join(d, sname))]))
        ctx.ghost["LISTED"] = (Sym(EXK, ex), d, arr, n, lidx)
        ctx.events.append(("listdir", args[0]))
        return SList(STR, arr, n)

    p.models["os.listdir"] = os_listdir
    p.assume_note("os.listdir(d) returns exactly the names of the children of d at that moment; shutil.rmtree(p, ignore_errors=True) that returns has removed the whole subtree "
                  "(the owner of a cache directory can delete its own files); a kill inside it leaves any subset")

    p.models["shutil.rmtree"] = rmtree
    p.globals["rm_subdirs"] = _Fn(lambda i, a, k: rmtree_subset(i, a, k, False))
    p.assume_note("shutil.rmtree(p, ignore_errors=True) removes entries under p piecewise (depth <= 3 below p: function dir / entry dir / file); never raises here")

    # ------------------------------------------------------------------ ghost set-up
    GHOST = dict(TID=INT, PID=INT, EX=EXK, CT=CTK, PAYL=PAYK)

    def setup(conc):
        def s(interp, env):
            ctx = interp.ctx
            ex, ct, _ = fs(ctx)
            ctx.assume(ci_term(ex, ct))  # the cache directory is in a crash-consistent state at entry
            ctx.ghost["INTERFERE"] = conc
            if env.has("self"):
                loc = to_term(env.lookup("self").fields["location"])
                ctx.assume(z3.Not(z3.And(PathDT.is_join(loc), z3.Or(*[PathDT.name(loc) == z3.StringVal(n) for n in FINAL_NAMES]))))
        return s

    def backend():
        return ObjOf("FileSystemStoreBackend", location=PATH, compress=OneOf(False, True), verbose=INT, mmap_mode=None)

    def comp(interp, hint):
        c = STR.fresh(interp.ctx, hint)
        # directory components (function id, argument hash) are never called like a result file
        interp.ctx.assume(z3.And(*[c.term != z3.StringVal(n) for n in FINAL_NAMES]))
        return c

    CALLID = lambda interp: PyList([comp(interp, "func_id"), comp(interp, "args_id")])
    FUNCID = lambda interp: PyList([comp(interp, "func_id")])
    p.spec_funcs["not_final"] = lambda interp, d: ops.mk_bool(z3.Not(z3.And(PathDT.is_join(to_term(d)), z3.Or(*[PathDT.name(to_term(d)) == z3.StringVal(n) for n in FINAL_NAMES]))))
    p.spec_funcs["CI"] = lambda interp: ops.mk_bool(ci_term(*fs(interp.ctx)[:2]))
    p.spec_funcs["ORD"] = lambda interp: ops.mk_bool(ord_term(interp.ctx))

    def code_present(interp):
        ex, ct, _ = fs(interp.ctx)
        code = PathDT.join(interp.ctx.ghost["ORD_LOC"], z3.StringVal("func_code.py"))
        return ops.mk_bool(z3.And(z3.Select(ex, code), z3.Select(ct, code) != 0))

    def shrunk(interp):
        exl = interp.ctx.ghost["LISTED"][0].term
        ex, _, _ = fs(interp.ctx)
        q = z3.Const("q!shr", PathDT)
        return ops.mk_bool(z3.ForAll([q], z3.Implies(z3.Select(ex, q), z3.Select(exl, q)), patterns=[z3.Select(ex, q)]))

    def processed(interp, upto):
        _exl, d, arr, n, lidx = interp.ctx.ghost["LISTED"]
        ex, ct, _ = fs(interp.ctx)
        j = z3.Int("j!pr")
        child = PathDT.join(d, z3.Select(arr, j))
        return ops.mk_bool(z3.ForAll([j], z3.Implies(z3.And(0 <= j, j < ops.as_int_term(upto)), z3.Not(z3.And(z3.Select(ex, child), z3.Select(ct, child) == 0))),
                                     patterns=[z3.Select(arr, j)]))

    def nothing_left(interp):
        ex, _, _ = fs(interp.ctx)
        loc = interp.ctx.ghost["ORD_LOC"]
        sname = z3.String("s!nl")
        return ops.mk_bool(z3.And(z3.Not(z3.Select(ex, loc)), z3.ForAll([sname], z3.Not(z3.Select(ex, PathDT.join(loc, sname))))))

    p.spec_funcs["code_present"] = code_present
    p.spec_funcs["shrunk_since_listing"] = shrunk
    p.spec_funcs["processed"] = processed
    p.spec_funcs["nothing_left"] = nothing_left
    p.spec_funcs["n_events"] = lambda interp, name: sum(1 for e in interp.ctx.events if e[0] == name)
    p.spec_funcs["ev"] = lambda i, k: i.ctx.events[k] if isinstance(k, int) and 0 <= k < len(i.ctx.events) else ("<none>", None, None)
    p.spec_funcs["tmp_of"] = lambda interp, f: Sym(PATH, PathDT.tmp(to_term(f), interp.ctx.ghost["TID"].term, interp.ctx.ghost["PID"].term))
    p.spec_funcs["final_writes"] = lambda interp: sum(1 for e in interp.ctx.events if e[0] == "open-wb" and not (z3.is_app(to_term(e[1])) and to_term(e[1]).decl().name() == "tmp"))
    p.spec_funcs["is_file"] = lambda interp, path: ops.mk_bool(z3.And(z3.Select(fs(interp.ctx)[0], to_term(path)), z3.Select(fs(interp.ctx)[1], to_term(path)) == 2))

    # ------------------------------------------------------------------ contracts
    def wf(interp):
        def call(i, a, k):
            i.ctx.events.append(("write_func", a[0], a[1]))
            if i.ctx.choose(2, "write_func:raises") == 1:
                i.raise_("OSError")
            # contract of the write_func argument: on return the destination it was given is a complete file
            ex, ct, _ = fs(i.ctx)
            setfs(i.ctx, ex=z3.Store(ex, to_term(a[1]), True), ct=z3.Store(ct, to_term(a[1]), 2))
            return None
        return _Fn(call)

    p.add(Contract(
        SB, "concurrency_safe_write", props=["C05", "C11"], ghost=GHOST, setup=setup(False),
        params=dict(object_to_write=OpaqueOf("obj"), filename=PATH, write_func=wf),
        ensures={
            "temporary_name_embeds_thread_and_pid": "result is tmp_of(filename)",
            "writes_once_to_the_temporary": "n_events('write_func') == 1 and ev(0)[1] is object_to_write and ev(0)[2] is tmp_of(filename)",
        },
        exsures={"OSError": {"writer_failed": "n_events('write_func') == 1"}},
    ))

    for conc in (False, True):
        v = "concurrent" if conc else "sequential"
        props = ["C11"] if conc else ["C05"]
        p.add(Contract(
            SB, "StoreBackendMixin._concurrency_safe_write", variant=v, props=props, ghost=GHOST, setup=setup(conc),
            inline={"concurrency_safe_write"},
            params=dict(self=backend(), to_write=OpaqueOf("obj"), filename=PATH, write_func=wf),
            ensures={"one_atomic_move_of_the_temporary": "n_events('replace') == 1 and ev(1)[0] == 'replace' and ev(1)[1] is tmp_of(filename) and ev(1)[2] is filename",
                     "never_writes_the_final_name_directly": "final_writes() == 0"},
            exsures={"OSError": {"nothing_moved_unless_written": "n_events('replace') == 0 or n_events('write_func') == 1",
                                 "never_writes_the_final_name_directly": "final_writes() == 0"}},
        ))
        p.add(Contract(
            SB, "StoreBackendMixin.dump_item", variant=v, props=props, ghost=GHOST, setup=setup(conc),
            inline={"_concurrency_safe_write", "concurrency_safe_write", "create_location", "mkdirp"},
            params=dict(self=backend(), call_id=CALLID, item=OpaqueOf("obj"), verbose=INT),
            ensures={
                # no exception escapes, whatever the other cache users (or the file system) do in between
                "final_name_only_by_atomic_replace": "final_writes() == 0",
                "CI": "CI()",
            },
        ))
        p.add(Contract(
            SB, "StoreBackendMixin.store_metadata", variant=v, props=props, ghost=GHOST, setup=setup(conc),
            inline={"_concurrency_safe_write", "concurrency_safe_write", "create_location", "mkdirp"},
            params=dict(self=backend(), call_id=CALLID, metadata=PyDict({})),
            ensures={"final_name_only_by_atomic_replace": "final_writes() == 0", "CI": "CI()"},
        ))
        p.add(Contract(
            SB, "StoreBackendMixin.get_metadata", variant=v, props=props, ghost=GHOST, setup=setup(conc),
            params=dict(self=backend(), call_id=CALLID),
            ensures={"no_effect": "n_events('open-wb') == 0 and n_events('replace') == 0 and n_events('rmtree') == 0", "CI": "CI()"},
        ))
        p.add(Contract(
            SB, "StoreBackendMixin.contains_item", variant=v, props=props, ghost=GHOST, setup=setup(conc),
            params=dict(self=backend(), call_id=CALLID),
            ensures={"no_effect": "n_events('open-wb') == 0 and n_events('replace') == 0 and n_events('rmtree') == 0"},
        ))
        LOOP_CI = Loop("for name in names", invariant={"CI": "CI()"}, havoc=["ghost:EX", "ghost:CT", "ghost:PAYL"])
        p.add(Contract(
            SB, "StoreBackendMixin.clear_item", variant=v, props=props, ghost=GHOST, setup=setup(conc),
            inline={"clear_location"},
            params=dict(self=backend(), call_id=CALLID),
            ensures={"CI": "CI()", "only_removes": "n_events('open-wb') == 0 and n_events('replace') == 0"},
            loops={"clear_location#1": LOOP_CI},
        ))
        if conc:
            p.add(Contract(
                SB, "StoreBackendMixin.clear_path", variant=v, props=props, ghost=GHOST, setup=setup(conc),
                inline={"clear_location"},
                params=dict(self=backend(), call_id=FUNCID),
                ensures={"CI": "CI()", "only_removes": "n_events('open-wb') == 0 and n_events('replace') == 0"},
                loops={"clear_location#1": LOOP_CI},
            ))
        else:
            # no concurrent writer (C05): in EVERY state a kill can leave, the function's cached results never outlive its code file
            def cp_setup(interp, env, base=setup(conc)):
                base(interp, env)
                ctx = interp.ctx
                loc = PathDT.join(to_term(env.lookup("self").fields["location"]), to_term(env.lookup("call_id").items[0]))
                ctx.ghost["ORD_LOC"] = loc
                ctx.assume(ord_term(ctx))  # store invariant at entry
                ex, ct, _ = fs(ctx)
                code = PathDT.join(loc, z3.StringVal("func_code.py"))
                ctx.ghost["CODE0"] = ops.mk_bool(z3.And(z3.Select(ex, code), z3.Select(ct, code) != 0))
                ctx.ghost["PRESENT0"] = ops.mk_bool(z3.Select(ex, loc))

            p.add(Contract(
                SB, "StoreBackendMixin.clear_path", variant=v, props=props + ["C12"], ghost=GHOST, setup=cp_setup,
                inline={"clear_location"},
                params=dict(self=backend(), call_id=FUNCID),
                ensures={"CI": "CI()", "only_removes": "n_events('open-wb') == 0 and n_events('replace') == 0", "results_never_outlive_their_code_file": "ORD()",
                         "everything_of_the_function_is_gone": "implies(PRESENT0, nothing_left())"},
                loops={"clear_location#1": Loop("for name in names", invariant={
                    "CI": "CI()", "results_never_outlive_their_code_file": "ORD()", "code_file_untouched_so_far": "implies(CODE0, code_present())",
                    "only_removals_since_the_listing": "shrunk_since_listing()", "listed_subdirectories_processed_so_far_are_gone": "processed(_i)"},
                    havoc=["ghost:EX"])},
            ))
        p.add(Contract(
            SB, "StoreBackendMixin.load_item", variant=v, props=props, ghost=GHOST, setup=setup(conc),
            params=dict(self=backend(), call_id=CALLID, verbose=1, timestamp=None, metadata=None),
            ensures={"no_effect": "n_events('open-wb') == 0 and n_events('replace') == 0 and n_events('rmtree') == 0"},
            exsures={"KeyError": {}, "ValueError": {}, "FileNotFoundError": {}},
        ))
        p.add(Contract(
            SB, "StoreBackendMixin.store_cached_func_code", variant=v, props=props, ghost=GHOST, setup=setup(conc),
            inline={"create_location", "mkdirp"},
            params=dict(self=backend(), call_id=FUNCID, func_code=OneOf(None, STR)),
            ensures={"CI": "CI()",
                     "code_file_complete_when_returning": "implies(func_code is not None, n_events('close-complete') == 1)"},
            # func_code.py is (over)written in place: not a result file, recovery from a torn one is decided in the Memory pack
        ))
        p.add(Contract(
            "joblib/disk.py", "mkdirp", variant=v, props=props, ghost=GHOST, setup=setup(conc),
            params=dict(d=PATH),
            requires=["not_final(d)"],
            ensures={"CI": "CI()"},
            # raises nothing when the directory appears concurrently (EEXIST is swallowed); a parent level removed concurrently surfaces
            # as FileNotFoundError, which the callers have to tolerate (dump_item / store_metadata do; store_cached_func_code: K4)
            exsures=({"FileNotFoundError": {"only_under_interference": "True"}} if conc else {}),
        ))
    return p
