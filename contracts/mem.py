"""Memory cache logic against an abstract store (C02, C06, C12, C05 recovery, C14 load-failure path).

Abstract store of ONE function id (ghost state, DESIGN 4.3):
  HAS : Key -> Bool   an output.pkl is visible (and complete) under that key
  VAL : Key -> Val    the value it unpickles to
  CODESTATE           0 = func_code.py absent, 1 = torn / garbled, 2 = complete
  DISKSRC, DISKLINE   what a complete func_code.py parses back to
  TABLE_HIT           `self.func in _FUNCTION_HASHES` and the recorded hash tuple equals _hash_func()
  EXECS               how many times the user function ran;  Eval(src, key) = the value the (pure) function returns
Store invariant   SI :  CODESTATE == 2  ==>  forall k. HAS[k] ==> VAL[k] == Eval(DISKSRC, k)
                       CODESTATE != 2  ==>  forall k. not HAS[k]
Table invariant   TI :  TABLE_HIT ==> CODESTATE == 2 and DISKSRC == CURSRC
"""
import z3

from pyvc import ops
from pyvc.contracts import Contract, Loop
from pyvc.interp import BUILTIN_EXC, PyRaise
from pyvc.pack import Pack
from pyvc.values import (
    BOOL, INT, REAL, STR, Atom, ObjOf, OneOf, Opaque, OpaqueOf, Opt, PyDict, PyList, SExc, SObj, Sym, Unsupported, kind_of,
    to_term,
)

from .common import install_common

MEM = "joblib/memory.py"
Key = Atom("Key")
Val = Atom("CachedVal")
Src = Atom("Src")
HashT = Atom("HashTuple")
Eval = z3.Function("Eval", Src.sort(), Key.sort(), Val.sort())


class ArrK(Atom):
    """Ghost array value (compared by extensional equality)."""

    def __init__(self, name, srt):
        self.name = name
        self._sort = srt

    def sort(self):
        return self._sort


HASK = ArrK("KeySet", z3.ArraySort(Key.sort(), z3.BoolSort()))
VALK = ArrK("KeyVals", z3.ArraySort(Key.sort(), Val.sort()))


from pyvc.values import ExcClass  # noqa: E402

ANY_LOAD_ERROR = ExcClass("SomeOtherLoadError", bases=(BUILTIN_EXC["Exception"],))


def _Fn(fn):
    return Opaque("fn", None, fn=fn)


GHOST = dict(KEY=Key, CURSRC=Src, CURLINE=INT, DISKSRC=Src, DISKLINE=INT, CODESTATE=INT, TABLE_HIT=BOOL, EXECS=INT,
             OTHER_HIT=BOOL, OTHER_SRC=Src)


def HASf(g):
    return g["HAS"]


def si_term(g):
    k = z3.Const("k!si", Key.sort())
    has, val = g["HAS"].term, g["VAL"].term
    cs = ops.as_int_term(g["CODESTATE"])
    return z3.And(
        z3.Implies(cs == 2, z3.ForAll([k], z3.Implies(z3.Select(has, k), z3.Select(val, k) == Eval(g["DISKSRC"].term, k)))),
        # results WITHOUT a complete code file may exist (another user of the directory cleared it while this process kept storing, a kill
        # inside Memory.clear, a failed code write): nothing is known about them - they must be wiped before anything is served from disk
        cs >= 0, cs <= 2,
    )


def build():
    p = Pack("MEM", files=[MEM, "joblib/_store_backends.py", "joblib/func_inspect.py", "joblib/logger.py"])
    install_common(p)
    p.models["fn.__call__"] = lambda interp, fv, args, kwargs: fv.attrs["fn"](interp, args, kwargs)
    p.log_calls.update({"logging.basicConfig", "self.warn", "self.info", "self._print_duration", "textwrap.dedent", "traceback.format_exc"})

    # ------------------------------------------------------------------ ghost set-up
    def setup(interp, env):
        ctx = interp.ctx
        g = ctx.ghost
        g["HAS"] = HASK.fresh(ctx, "HAS")
        g["VAL"] = VALK.fresh(ctx, "VAL")
        g["WROTE_CODE"] = 0

    def _b(t):
        return z3.BoolVal(t) if isinstance(t, bool) else t

    p.spec_funcs["SI"] = lambda interp: ops.mk_bool(si_term(interp.ctx.ghost))

    def entries_current(interp):
        g = interp.ctx.ghost
        k = z3.Const("k!ec", Key.sort())
        return ops.mk_bool(z3.ForAll([k], z3.Implies(z3.Select(g["HAS"].term, k), z3.Select(g["VAL"].term, k) == Eval(g["CURSRC"].term, k))))

    p.spec_funcs["entries_current"] = entries_current

    def TI(interp):
        g = interp.ctx.ghost
        k = z3.Const("k!ti", Key.sort())
        cs = ops.as_int_term(g["CODESTATE"])
        # a hit in the in-process table: every entry on disk was computed by the current code (by this process, or found under the current
        # code when the table entry was made); the code file may have been deleted by another user since, never replaced by other code
        return ops.mk_bool(z3.Implies(_b(ops.truth(g["TABLE_HIT"])), z3.And(
            z3.ForAll([k], z3.Implies(z3.Select(g["HAS"].term, k), z3.Select(g["VAL"].term, k) == Eval(g["CURSRC"].term, k))),
            z3.Implies(cs == 2, g["DISKSRC"].term == g["CURSRC"].term))))

    p.spec_funcs["TI"] = TI
    p.spec_funcs["sel"] = lambda interp, arr, k: (ops.mk_bool(z3.Select(arr.term, k.term)) if arr.kind is HASK else Sym(Val, z3.Select(arr.term, k.term)))
    p.spec_funcs["has"] = lambda interp, k: ops.mk_bool(z3.Select(interp.ctx.ghost["HAS"].term, k.term))
    p.spec_funcs["val"] = lambda interp, k: Sym(Val, z3.Select(interp.ctx.ghost["VAL"].term, k.term))
    p.spec_funcs["ev"] = lambda interp, s, k: Sym(Val, Eval(s.term, k.term))

    def no_entries(interp):
        k = z3.Const("k!ne", Key.sort())
        return ops.mk_bool(z3.ForAll([k], z3.Not(z3.Select(interp.ctx.ghost["HAS"].term, k))))

    p.spec_funcs["no_entries"] = no_entries

    def only_key_changed(interp, has0, val0, key):
        g = interp.ctx.ghost
        k = z3.Const("k!oc", Key.sort())
        return ops.mk_bool(z3.ForAll([k], z3.Implies(k != key.term, z3.And(
            z3.Select(g["HAS"].term, k) == z3.Select(has0.term, k), z3.Select(g["VAL"].term, k) == z3.Select(val0.term, k)))))

    p.spec_funcs["only_key_changed"] = only_key_changed

    def no_new_entries(interp, has0, val0):
        g = interp.ctx.ghost
        k = z3.Const("k!nn", Key.sort())
        return ops.mk_bool(z3.ForAll([k], z3.Implies(z3.Select(g["HAS"].term, k), z3.And(z3.Select(has0.term, k), z3.Select(g["VAL"].term, k) == z3.Select(val0.term, k)))))

    p.spec_funcs["no_new_entries"] = no_new_entries

    def key_of(call_id):
        if isinstance(call_id, (tuple, PyList)):
            items = call_id if isinstance(call_id, tuple) else call_id.items
            k = items[1]
            if kind_of(k) == STR:  # a literal / string key: some key, in general not KEY
                return Sym(Key, z3.Function("key_of_str", z3.StringSort(), Key.sort())(to_term(k)))
            return k
        raise Unsupported("call_id %r" % (call_id,))

    # ------------------------------------------------------------------ abstract store (ASSUMED contracts; justified by the store pack)
    def store():
        return OpaqueOf("store", location=STR)

    def m_contains(interp, recv, args, kwargs):
        return ops.mk_bool(z3.Select(interp.ctx.ghost["HAS"].term, key_of(args[0]).term))

    def m_load(interp, recv, args, kwargs):
        ctx = interp.ctx
        g = ctx.ghost
        k = key_of(args[0]).term
        if ctx.branch(z3.Select(g["HAS"].term, k), "load:present"):
            # a complete file unpickles to its value; the load may still fail (file removed meanwhile, damaged media, ...)
            if ctx.choose(2, "load:fails") == 1:
                which = ctx.choose(4, "load:exc")
                if which == 3:
                    # any other Exception subclass (struct.error, UnpicklingError, AttributeError of a moved class, ...)
                    raise PyRaise(SExc(ANY_LOAD_ERROR, ()))
                raise PyRaise(SExc(BUILTIN_EXC[("ValueError", "OSError", "EOFError")[which]], ()))
            return Sym(Val, z3.Select(g["VAL"].term, k))
        interp.raise_("KeyError")

    def m_dump(interp, recv, args, kwargs):
        ctx = interp.ctx
        g = ctx.ghost
        k = key_of(args[0]).term
        ctx.events.append(("dump_item", args[0], args[1]))
        if ctx.choose(2, "dump:stored") == 0:
            g["HAS"] = Sym(HASK, z3.Store(g["HAS"].term, k, True))
            g["VAL"] = Sym(VALK, z3.Store(g["VAL"].term, k, to_term(args[1])))
        return None  # never raises (dump_item swallows every Exception: proved in the store pack)

    def m_clear_item(interp, recv, args, kwargs):
        g = interp.ctx.ghost
        g["HAS"] = Sym(HASK, z3.Store(g["HAS"].term, key_of(args[0]).term, False))
        return None

    def m_get_metadata(interp, recv, args, kwargs):
        ctx = interp.ctx
        # {} when metadata.json is missing or unreadable (crash between the two renames), else the stored dict
        if ctx.choose(2, "metadata:present") == 0:
            return PyDict({})
        return PyDict({"duration": REAL.fresh(ctx, "duration"), "input_args": Opaque("inputargs", None), "time": REAL.fresh(ctx, "mtime")})

    def m_store_metadata(interp, recv, args, kwargs):
        interp.ctx.events.append(("store_metadata", args[0]))
        return None

    def m_clear_path(interp, recv, args, kwargs):
        """rmtree of the function directory: entries and func_code.py go away (piecewise; crash points in between)."""
        ctx = interp.ctx
        g = ctx.ghost
        # crash in the middle: any subset of the entries is already removed, and func_code.py possibly too - but, by the contract proved
        # for StoreBackendMixin.clear_path[sequential] in the store pack (obligations crash-inside.rmtree.results-never-outlive-their-code-file
        # and the loop invariants of clear_location), the code file only goes once no entry (sub-directory) is left
        if ctx.choose(2, "crash-inside-clear_path?") == 1:
            sub = z3.Const(ctx.fresh_name("HASsub"), z3.ArraySort(Key.sort(), z3.BoolSort()))
            k = z3.Const("k!sub", Key.sort())
            ctx.assume(z3.ForAll([k], z3.Implies(z3.Select(sub, k), z3.Select(g["HAS"].term, k))))
            code_gone = z3.Bool(ctx.fresh_name("code_gone"))
            ctx.assume(z3.Implies(code_gone, z3.ForAll([k], z3.Not(z3.Select(sub, k)))))
            saved = (g["HAS"], g["CODESTATE"])
            g["HAS"] = Sym(HASK, sub)
            g["CODESTATE"] = Sym(INT, z3.If(code_gone, z3.IntVal(0), ops.as_int_term(saved[1])))
            ctx.check("MemorizedFunc.clear/crash-inside-clear_path.SI", si_term(g),
                      detail="store invariant in every state a crash inside rmtree(func_dir) can leave")
            raise_path_end(ctx)
        g["HAS"] = Sym(HASK, z3.K(Key.sort(), z3.BoolVal(False)))
        g["CODESTATE"] = 0
        ctx.events.append(("clear_path",))
        return None

    def raise_path_end(ctx):
        from pyvc.ctx import PathEnd
        raise PathEnd()

    def m_get_code(interp, recv, args, kwargs):
        ctx = interp.ctx
        g = ctx.ghost
        cs = ops.as_int_term(g["CODESTATE"])
        if ctx.branch(cs == 0, "code:absent"):
            interp.raise_("FileNotFoundError")
        if ctx.branch(cs == 1, "code:torn") and ctx.choose(2, "torn-inside-a-multibyte-character") == 1:
            # the file is read as UTF-8 text: a prefix cut inside a multi-byte character does not decode
            interp.raise_("UnicodeDecodeError")
        return Opaque("codetext", None)

    def m_store_code(interp, recv, args, kwargs):
        ctx = interp.ctx
        g = ctx.ghost
        if len(args) < 2 or args[1] is None:
            return None  # only creates the directory
        w = g.get("WRITING")
        if w is None:
            raise Unsupported("store_cached_func_code called outside _write_func_code")
        # in-place write of the final name: a crash leaves it torn
        if ctx.choose(2, "crash-inside-store_cached_func_code?") == 1:
            g["CODESTATE"] = 1
            ctx.check("MemorizedFunc._write_func_code/crash-inside-write.SI", si_term(g),
                      detail="store invariant when func_code.py is left torn by a crash")
            raise_path_end(ctx)
        g["CODESTATE"] = 2
        g["DISKSRC"], g["DISKLINE"] = w
        g["WROTE_CODE"] = g.get("WROTE_CODE", 0) + 1
        return None

    for name, fn in (("contains_item", m_contains), ("load_item", m_load), ("dump_item", m_dump), ("clear_item", m_clear_item),
                     ("get_metadata", m_get_metadata), ("store_metadata", m_store_metadata), ("clear_path", m_clear_path),
                     ("get_cached_func_code", m_get_code), ("store_cached_func_code", m_store_code)):
        p.models["store." + name] = fn
    p.models["store.get_cached_func_info"] = lambda i, r, a, k: PyDict({"location": STR.fresh(i.ctx, "loc")})
    p.assume_note("abstract store: contains_item/load_item/dump_item/clear_item/get_metadata/store_metadata/clear_path/get_cached_func_code/"
                  "store_cached_func_code act on (HAS, VAL, CODESTATE, DISKSRC) as documented in contracts/mem.py; clear_path removes the entries before the code file (proved in the store pack); dump_item and store_metadata never raise, "
                  "load_item of a present entry returns its value or raises an Exception; single process between two store calls (C11 handled in the store pack)")

    # ------------------------------------------------------------------ user function, hashing, introspection (ASSUMED)
    def userfunc_call(interp, fv, args, kwargs):
        g = interp.ctx.ghost
        g["EXECS"] = Sym(INT, ops.as_int_term(g["EXECS"]) + 1)
        return Sym(Val, Eval(g["CURSRC"].term, g["KEY"].term))

    p.models["userfunc.__call__"] = userfunc_call
    p.assume_note("the cached function is pure: calling it returns Eval(CURSRC, KEY) where KEY = hash(filter_args(...)) identifies the bound arguments "
                  "outside the ignore list (C07: filter_args == Python's binding; C08: joblib.hash injective up to md5)")
    p.models["MemorizedFunc._get_args_id"] = lambda i, r, a, k: i.ctx.ghost["KEY"]
    p.models["MemorizedFunc.func_code_info"] = lambda i, r, a, k: (i.ctx.ghost["CURSRC"], i.ctx.ghost.setdefault("SRCFILE", Opt(STR).fresh(i.ctx, "srcfile")), i.ctx.ghost["CURLINE"])
    p.models["MemorizedFunc._hash_func"] = lambda i, r, a, k: i.ctx.ghost.setdefault("CURHASH", HashT.fresh(i.ctx, "curhash"))
    glob = {
        "get_func_name": lambda interp: _Fn(lambda i, a, k: (PyList([]), STR.fresh(i.ctx, "fname"))),
        "format_signature": lambda interp: _Fn(lambda i, a, k: (STR.fresh(i.ctx, "path"), STR.fresh(i.ctx, "sig"))),
        "format_call": lambda interp: _Fn(lambda i, a, k: STR.fresh(i.ctx, "call")),
        "filter_args": lambda interp: _Fn(lambda i, a, k: PyDict({"x": Opaque("userarg", None)})),
        "_FUNCTION_HASHES": lambda interp: Opaque("fhashes", None),
    }
    # C11: _FUNCTION_HASHES is ONE table for the whole process - every cached function of every Memory, every thread.  Rely condition for a
    # thread that does not hold a lock guarding the table: between two of its accesses other threads may insert (first call of another
    # function), remove (the same-identifier sweep of _write_func_code, garbage collection) and clear (Memory.clear of ANY Memory) entries.
    #   - a membership test says nothing about the next subscript: table[f] may raise KeyError
    #   - iterating (WeakKeyDictionary.items() is a Python-level generator over the underlying dict) while another thread inserts or clears
    #     raises RuntimeError('dictionary changed size during iteration'): iteration, insertion and clear must share a lock
    # Single calls (table.get(f), table.pop(f, None)) are atomic.  Module-level locks of memory.py are found by their constructor.
    import ast as _ast_l
    from pyvc.contracts import SourceModule as _SM
    for st in _SM.get(MEM).tree.body:
        if isinstance(st, _ast_l.Assign) and isinstance(st.value, _ast_l.Call) and _ast_l.unparse(st.value.func) in ("threading.Lock", "threading.RLock", "Lock", "RLock"):
            for t in st.targets:
                if isinstance(t, _ast_l.Name):
                    glob[t.id] = lambda interp: Opaque("tablelock", None)

    def tl_enter(interp, cm):
        d = interp.ctx.lock_depth
        d["tablelock"] = d.get("tablelock", 0) + 1
        return cm

    def tl_exit(interp, cm, e):
        interp.ctx.lock_depth["tablelock"] -= 1
        return False

    p.models["enter:tablelock"] = tl_enter
    p.models["exit:tablelock"] = tl_exit

    def table_locked(interp):
        return interp.ctx.lock_depth.get("tablelock", 0) > 0

    def table_guarded(interp, what):
        interp.ctx.check("%s/guarded-by-one-lock.function-table.%s" % (interp.contract.qualname, what), table_locked(interp),
                         detail="the process-wide table _FUNCTION_HASHES is iterated by _write_func_code: iteration, insertion and clear must hold one lock, "
                                "or a concurrent first call / Memory.clear makes the iterating thread raise RuntimeError (dictionary changed size)")

    # (format_signature / format_call: a string, never an exception - proved on the real bodies in contracts/fmt.py, where pprint of a user's
    # argument may raise what its __repr__ raises)
    # repr() of a user's argument runs the user's __repr__: it may raise anything
    orig_repr = p.models.get("builtin:repr")

    def m_repr(interp, args, kwargs):
        if isinstance(args[0], Opaque) and args[0].tag == "userarg":
            if interp.ctx.choose(2, "user-__repr__-raises") == 1:
                interp.raise_("RuntimeError")
            return STR.fresh(interp.ctx, "repr")
        if orig_repr is None:
            raise Unsupported("repr()")
        return orig_repr(interp, args, kwargs)

    p.models["builtin:repr"] = m_repr
    p.models["object.__repr__"] = lambda i, a, k: STR.fresh(i.ctx, "objrepr")  # the default repr of object never raises

    def fh_contains(interp, container, item):
        g = interp.ctx.ghost
        if "IN_TABLE" not in g:
            g["IN_TABLE"] = BOOL.fresh(interp.ctx, "in_table")
            g["TABLEHASH"] = HashT.fresh(interp.ctx, "tablehash")
            cur = g.setdefault("CURHASH", HashT.fresh(interp.ctx, "curhash"))
            # TABLE_HIT is by definition "present and equal"
            interp.ctx.assume(ops.truth(g["TABLE_HIT"]) == z3.And(ops.truth(g["IN_TABLE"]), g["TABLEHASH"].term == cur.term))
        return ops.truth(g["IN_TABLE"])

    p.models["contains:fhashes"] = fh_contains

    def fh_getitem(interp, recv, idx):
        if not table_locked(interp) and interp.ctx.choose(2, "entry-removed-by-another-thread-since-the-membership-test") == 1:
            interp.raise_("KeyError")
        return interp.ctx.ghost["TABLEHASH"]

    p.models["getitem:fhashes"] = fh_getitem

    def fh_get(interp, recv, args, kwargs):
        # one atomic call: the entry or the default
        present = fh_contains(interp, recv, args[0])
        default = args[1] if len(args) > 1 else kwargs.get("default")
        if interp.ctx.branch(present, "in-table"):
            return interp.ctx.ghost["TABLEHASH"]
        return default

    p.models["fhashes.get"] = fh_get

    def fh_set(interp, recv, name, args, kwargs, node):
        raise Unsupported("fhashes." + name)

    # the other entries of the in-process table, as far as this function is concerned: OTHER = another live function object cached under the
    # SAME identifier in the SAME location (ghost OTHER_HIT: its entry is a hit); UNRELATED = a function under another identifier
    OTHERF, UNRELATEDF = Opaque("otherfunc", None), Opaque("unrelatedfunc", None)

    def fh_items(interp, recv, args, kwargs):
        table_guarded(interp, "iteration")
        me = interp.ctx.ghost["SELF_MF"]
        loc, fid = interp.getattr(me.fields["store_backend"], "location", None, default=None), me.fields["func_id"]
        entries = [(UNRELATEDF, (Opaque("x", None), Opaque("y", None), Opaque("z", None), loc, Opaque("another_func_id", None)))]
        if interp.ctx.branch(ops.truth(interp.ctx.ghost["OTHER_HIT"]), "other-function-with-this-id-in-table"):
            entries.append((OTHERF, (Opaque("x", None), Opaque("y", None), Opaque("z", None), loc, fid)))
        return Opaque("fhashes_items", None, entries=entries)

    def fh_pop(interp, recv, args, kwargs):
        g = interp.ctx.ghost
        if args[0] is OTHERF:
            g["OTHER_HIT"] = False
        elif args[0] is UNRELATEDF:
            g["UNRELATED_DROPPED"] = True
        else:
            raise Unsupported("pop of %r from the table" % (args[0],))
        return None

    p.models["fhashes.items"] = fh_items
    p.models["fhashes.pop"] = fh_pop
    p.models["list:fhashes_items"] = lambda interp, v: PyList(v.attrs["entries"])
    p.spec_funcs["unrelated_dropped"] = lambda interp: bool(interp.ctx.ghost.get("UNRELATED_DROPPED"))

    def extract_first_line(interp, args, kwargs):
        ctx = interp.ctx
        g = ctx.ghost
        cs = ops.as_int_term(g["CODESTATE"])
        if ctx.branch(cs == 2, "code:complete"):
            return (g["DISKSRC"], g["DISKLINE"])
        # torn / garbled file: some text that is not the source of the current function
        garb = Src.fresh(ctx, "garbled")
        ctx.assume(garb.term != g["CURSRC"].term)
        return (garb, INT.fresh(ctx, "garbled_line"))

    glob["extract_first_line"] = lambda interp: _Fn(extract_first_line)
    p.assume_note("extract_first_line is used through its summary: on a complete func_code.py it returns the (source, first line) that _write_func_code formatted, "
                  "on a torn file some text different from the current source, and it never raises - the summary is PROVED on the real body in contracts/xfl.py "
                  "(totality for every text, inverse pair for the written format); that a torn file never parses to exactly the current source stays assumed")
    p.models["Src.split"] = lambda i, r, a, k: Opaque("lines", None)
    p.models["len:lines"] = lambda i, v: INT.fresh(i.ctx, "nlines")
    p.models["Src.rstrip"] = lambda i, r, a, k: STR.fresh(i.ctx, "rs")
    p.models["Str.rstrip"] = lambda i, r, a, k: STR.fresh(i.ctx, "rs")
    p.models["os.path.exists"] = lambda i, a, k: BOOL.fresh(i.ctx, "exists")
    p.models["tokenize.open"] = lambda i, a, k: Opaque("srcf", None)
    p.models["srcf.readlines"] = lambda i, r, a, k: Opaque("lines", None)
    p.models["slice:lines"] = lambda i, r, lo, hi: r
    p.models["join"] = lambda i, sep, src: STR.fresh(i.ctx, "joined")
    p.models["warnings.warn"] = lambda i, a, k: None
    def user_callback(i, fv, a, k):
        # doc/memory.rst: the callback receives the metadata of the call - a dict with 'duration', 'time' and 'input_args' - and the documented
        # example indexes it (metadata['duration'] > 1).  On the dict of a readable metadata.json it returns a bool; handed a dict WITHOUT
        # those keys (what get_metadata returns for a missing / torn file) it may raise KeyError.
        md = a[0]
        if isinstance(md, PyDict) and "duration" not in md.d:
            if i.ctx.choose(2, "callback-indexes-a-documented-key") == 1:
                i.raise_("KeyError")
        return BOOL.fresh(i.ctx, "valid")

    p.models["cvc.__call__"] = user_callback
    p.assume_note("a user cache_validation_callback returns a bool on a metadata dict holding the documented keys (duration, time, input_args) and may raise KeyError on a dict without them")

    def mfunc(**over):
        f = dict(func=OpaqueOf("userfunc", __name__=STR), ignore=OpaqueOf("ignorelist"), mmap_mode=None, compress=False, _verbose=INT,
                 timestamp=REAL, cache_validation_callback=Opt(OpaqueOf("cvc")), func_id=STR, store_backend=store(),
                 _func_code_info=None, _func_code_id=None)
        f.update(over)
        return ObjOf("MemorizedFunc", **f)

    PRE = ["SI()", "TI()", "EXECS >= 0"]

    # ------------------------------------------------------------------ _write_func_code
    def wfc_setup(interp, env):
        setup(interp, env)
        interp.ctx.ghost["SELF_MF"] = env.lookup("self")
        interp.ctx.ghost["WRITING"] = (env.lookup("func_code"), env.lookup("first_line"))

    def fh_setitem(pack):
        orig = pack.container_method

        def cm(interp, recv, name, args, kwargs, node):
            if isinstance(recv, Opaque) and recv.tag == "fhashes" and name == "__setitem__":
                table_guarded(interp, "insertion")
                g = interp.ctx.ghost
                g["TABLE_HIT"] = True  # the recorded tuple is _hash_func() of right now
                g["TABLE_WRITTEN"] = True
                return None
            return orig(interp, recv, name, args, kwargs, node)
        pack.container_method = cm

    fh_setitem(p)

    wfc = Contract(
        MEM, "MemorizedFunc._write_func_code", props=["C12", "C02", "C05", "C11"], ghost=GHOST, globals=glob, setup=wfc_setup,
        params=dict(self=mfunc(), func_code=Src, first_line=INT),
        requires=["CODESTATE >= 0 and CODESTATE <= 2", "no_entries()", "func_code is CURSRC and first_line == CURLINE",
                  ],
        modifies=["ghost:CODESTATE", "ghost:DISKSRC", "ghost:DISKLINE", "ghost:TABLE_HIT", "ghost:OTHER_HIT"],
        ensures={
            "functions_under_other_identifiers_keep_their_table_entry": "not unrelated_dropped()",
            "code_on_disk_is_current": "CODESTATE == 2 and DISKSRC is CURSRC and DISKLINE == CURLINE",
            "SI": "SI()", "TI": "TI()",
            "entries_untouched": "(HAS == old(HAS) and VAL == old(VAL))",
            # C12: a still-referenced older definition keeps its own values: the table invariant of every OTHER function must survive
            "TI_of_other_functions_sharing_the_id": "implies(OTHER_HIT, CODESTATE == 2 and DISKSRC is OTHER_SRC)",
            "TI_of_other_functions_outside_K5": "implies(OTHER_HIT and OTHER_SRC is CURSRC, CODESTATE == 2 and DISKSRC is OTHER_SRC)",
        },
    )
    p.add(wfc)

    def wfc_at_call(interp, env, outcome):
        interp.ctx.ghost["WRITING"] = (env.lookup("func_code"), env.lookup("first_line"))
        interp.ctx.ghost["WROTE_CODE"] = interp.ctx.ghost.get("WROTE_CODE", 0) + 1

    wfc.at_exit = wfc_at_call

    # ------------------------------------------------------------------ clear
    clear = Contract(
        MEM, "MemorizedFunc.clear", props=["C12", "C02", "C05"], ghost=GHOST, globals=glob, setup=setup,
        params=dict(self=mfunc(), warn=OneOf(True, False)),
        requires=["SI()"],
        modifies=["ghost:CODESTATE", "ghost:DISKSRC", "ghost:DISKLINE", "ghost:TABLE_HIT", "ghost:HAS", "ghost:VAL"],
        ensures={"wiped": "no_entries()", "code_on_disk_is_current": "CODESTATE == 2 and DISKSRC is CURSRC", "SI": "SI()", "TI": "TI()"},
    )
    p.add(clear)

    # ------------------------------------------------------------------ _check_previous_func_code
    cpfc = Contract(
        MEM, "MemorizedFunc._check_previous_func_code", props=["C12", "C02", "C05", "C06", "C11"], ghost=GHOST, globals=glob, setup=setup,
        params=dict(self=mfunc(), stacklevel=INT),
        requires=PRE,
        modifies=["ghost:CODESTATE", "ghost:DISKSRC", "ghost:DISKLINE", "ghost:TABLE_HIT", "ghost:HAS", "ghost:VAL"],
        returns=BOOL,
        ensures={
            "SI": "SI()", "TI": "TI()",
            # True: whatever is stored was computed by the current code (the code file may have been deleted by another user of the directory
            # since the in-process table entry was made - never replaced by other code), and nothing was touched
            "true_means_every_stored_result_is_of_the_current_code": "implies(result, entries_current() and implies(CODESTATE == 2, DISKSRC is CURSRC) and (HAS == old(HAS) and VAL == old(VAL)))",
            "false_means_wiped_and_current": "implies(not result, no_entries() and CODESTATE == 2 and DISKSRC is CURSRC)",
            "unchanged_code_keeps_its_cache": "implies(old(CODESTATE) == 2 and old(DISKSRC) is CURSRC, result and (HAS == old(HAS) and VAL == old(VAL)))",
            "changed_code_is_detected": "implies(old(CODESTATE) == 2 and not (old(DISKSRC) is CURSRC), not result)",
            "no_execution": "EXECS == old(EXECS)",
            "no_new_entries": "no_new_entries(old(HAS), old(VAL))",
        },
    )
    p.add(cpfc)

    # ------------------------------------------------------------------ _is_in_cache_and_valid / check_call_in_cache
    def callid(interp):
        return (STR.fresh(interp.ctx, "func_id"), interp.ctx.ghost["KEY"])

    iicv = Contract(
        MEM, "MemorizedFunc._is_in_cache_and_valid", props=["C02", "C06", "C05", "C12"], ghost=GHOST, globals=glob, setup=setup,
        params=dict(self=mfunc(), call_id=callid),
        requires=PRE,
        modifies=["ghost:CODESTATE", "ghost:DISKSRC", "ghost:DISKLINE", "ghost:TABLE_HIT", "ghost:HAS", "ghost:VAL"],
        returns=BOOL,
        ensures={
            "SI": "SI()", "TI": "TI()",
            "true_means_valid_entry": "implies(result, has(KEY) and val(KEY) is ev(CURSRC, KEY))",
            "false_means_no_entry_for_key_or_wiped": "implies(not result, entries_current())",
            "every_stored_result_is_of_the_current_code": "entries_current() and implies(CODESTATE == 2, DISKSRC is CURSRC)",
            "hit_without_callback": "implies(self.cache_validation_callback is None and old(CODESTATE) == 2 and old(DISKSRC) is CURSRC and sel(old(HAS), KEY), result)",
            "other_entries_survive_when_code_unchanged": "implies(old(CODESTATE) == 2 and old(DISKSRC) is CURSRC, only_key_changed(old(HAS), old(VAL), KEY))",
            "no_execution": "EXECS == old(EXECS)",
            "no_new_entries": "no_new_entries(old(HAS), old(VAL))",
        },
    )
    p.add(iicv)

    p.add(Contract(
        MEM, "MemorizedFunc.check_call_in_cache", props=["C06"], ghost=GHOST, globals=glob, setup=setup,
        params=dict(self=mfunc(), args=(), kwargs=PyDict({})),
        requires=PRE,
        ensures={
            "same_answer_as_the_call_path": "result == ret__is_in_cache_and_valid",
            "true_means_next_call_is_a_hit": "implies(result, has(KEY) and val(KEY) is ev(CURSRC, KEY))",
            "no_execution": "EXECS == old(EXECS)",
        },
    ))

    # ------------------------------------------------------------------ _call / _after_call / _cached_call / __call__ / call_and_shelve
    p.models["new:MemorizedResult"] = lambda i, a, k: Opaque("memorized_result", None, call_id=a[1], store=a[0])

    def shelved_any(interp, call_id):
        """What a shelving call may return at a call site: a reference into the store, or the value itself (narrowed by the ensures)."""
        if interp.ctx.choose(2, "shelved:kind") == 0:
            return Opaque("memorized_result", None, call_id=call_id)
        return Opaque("not-memorized-result", None, value=Val.fresh(interp.ctx, "kept"))

    def shelved_ok(interp, r):
        g = interp.ctx.ghost
        if isinstance(r, Opaque) and r.tag == "memorized_result":
            cid = r.attrs["call_id"]
            same = ops.identical(cid[1], g["KEY"])
            return ops.mk_bool(z3.And(z3.BoolVal(same) if isinstance(same, bool) else same, z3.Select(g["HAS"].term, g["KEY"].term)))
        if isinstance(r, Opaque) and r.tag == "not-memorized-result":
            return ops.mk_bool(to_term(r.attrs["value"]) == Eval(g["CURSRC"].term, g["KEY"].term))
        return False

    p.spec_funcs["SHELVED_OK"] = shelved_ok
    call_c = Contract(
        MEM, "MemorizedFunc._call", props=["C02", "C06", "C05"], ghost=GHOST, globals=glob, setup=setup,
        inline={"_before_call", "_after_call", "_persist_input", "_get_memorized_result", "_load_item", "_safe_repr"},
        params=dict(self=mfunc(), call_id=callid, args=(), kwargs=PyDict({}), shelving=OneOf(False, True)),
        requires=PRE + ["entries_current()", "implies(CODESTATE == 2, DISKSRC is CURSRC)"],
        modifies=["ghost:HAS", "ghost:VAL", "ghost:EXECS"],
        returns=lambda interp, env: (Val.fresh(interp.ctx, "out") if env.lookup("shelving") is False else shelved_any(interp, env.lookup("call_id")), PyDict({})),
        ensures={
            "SI": "SI()", "TI": "TI()",
            "executes_once": "EXECS == old(EXECS) + 1",
            "returns_the_functions_value": "implies(not shelving, result[0] is ev(CURSRC, KEY))",
            # C02 (shelved references): the reference handed out for a call just computed is BACKED - it points to the entry of this call
            # and that entry was stored, or (the store refused the result: full disk, quota, unpicklable value - dump_item warns and goes
            # on) it carries the computed value itself.  Never a reference to an entry that was not written: its get() raises KeyError
            # and the value just computed is lost
            "shelved_reference_points_to_this_call": "implies(shelving, SHELVED_OK(result[0]))",
            "only_this_key_written": "only_key_changed(old(HAS), old(VAL), KEY)",
            "stored_value_is_correct": "implies(has(KEY), val(KEY) is ev(CURSRC, KEY))",

        },
        ensures_body={"dumped_once_under_this_call_id": "n_events('dump_item') == 1 and dumped_key() is KEY and n_events('store_metadata') == 1"},
    )
    p.add(call_c)
    # mmap_mode: the value is re-loaded from the store right after it was written, to hand out a memmap like later calls do.  The entry
    # may be gone by then (the write failed, or another user of the directory evicted / cleared it): the call still returns the value.
    import copy as _copy
    call_m = _copy.copy(call_c)
    call_m.variant = "mmap_mode"
    call_m.props = ["C02", "C11", "C05"]
    call_m.params = dict(call_c.params, self=mfunc(mmap_mode="r"), shelving=False)
    call_m.ensures = {"SI": "SI()", "executes_once": "EXECS == old(EXECS) + 1", "returns_the_functions_value": "result[0] is ev(CURSRC, KEY)"}
    call_m.ensures_body = {}
    p.add(call_m)

    cached = Contract(
        MEM, "MemorizedFunc._cached_call", props=["C02", "C06", "C05", "C12", "C14", "C11"], ghost=GHOST, globals=glob, setup=setup,
        inline={"_get_memorized_result", "_load_item"},
        params=dict(self=mfunc(), args=(), kwargs=PyDict({}), shelving=OneOf(False, True)),
        requires=PRE,
        modifies=["ghost:CODESTATE", "ghost:DISKSRC", "ghost:DISKLINE", "ghost:TABLE_HIT", "ghost:HAS", "ghost:VAL", "ghost:EXECS"],
        returns=lambda interp, env: (Val.fresh(interp.ctx, "out") if env.lookup("shelving") is False else shelved_any(interp, (None, interp.ctx.ghost["KEY"])), PyDict({})),
        ensures={
            "SI": "SI()", "TI": "TI()",
            # C02 / C12: always the value of the CURRENT code on THESE arguments, whatever was in the store
            "returns_the_functions_value": "implies(not shelving, result[0] is ev(CURSRC, KEY))",
            "shelved_reference_points_to_this_call": "implies(shelving, SHELVED_OK(result[0]) and implies(has(KEY), val(KEY) is ev(CURSRC, KEY)))",
            # C06: a valid entry is served without running the function (unless the load itself fails: then exactly one recomputation)
            "hit_runs_nothing_or_recomputes_once": "EXECS == old(EXECS) or EXECS == old(EXECS) + 1",
            "miss_runs_once": "implies(not sel(old(HAS), KEY), EXECS == old(EXECS) + 1)",
            "every_stored_result_is_of_the_current_code": "entries_current() and implies(CODESTATE == 2, DISKSRC is CURSRC)",
        },
        # C05 / C14: NO exception escapes, from every store state satisfying SI (torn or absent code file, missing metadata, failing loads)
    )
    p.add(cached)

    for q, idx in (("MemorizedFunc.__call__", None), ("MemorizedFunc.call_and_shelve", None)):
        p.add(Contract(
            MEM, q, props=["C02", "C06"], ghost=GHOST, globals=glob, setup=setup,
            params=dict(self=mfunc(), args=(), kwargs=PyDict({})),
            requires=PRE,
            ensures={"value": ("result is ev(CURSRC, KEY)" if q.endswith("__call__") else "SHELVED_OK(result)")},
        ))

    # forced execution: the value written is only meaningful under the code recorded in the store, so call() must leave
    # "code on disk is current" established like every other entry point (else entries of an unrecorded code are served
    # later under different code)
    p.add(Contract(
        MEM, "MemorizedFunc.call", props=["C12", "C02", "C05"], ghost=GHOST, globals=glob, setup=setup,
        params=dict(self=mfunc(), args=(), kwargs=PyDict({})),
        requires=PRE,
        modifies=["ghost:CODESTATE", "ghost:DISKSRC", "ghost:DISKLINE", "ghost:TABLE_HIT", "ghost:HAS", "ghost:VAL", "ghost:EXECS"],
        ensures={"SI": "SI()", "TI": "TI()", "executes_once": "EXECS == old(EXECS) + 1", "returns_the_functions_value": "result[0] is ev(CURSRC, KEY)",
                 "every_stored_result_is_of_the_current_code": "entries_current() and implies(CODESTATE == 2, DISKSRC is CURSRC)"},
    ))

    # ------------------------------------------------------------------ MemorizedResult.get
    p.add(Contract(
        MEM, "MemorizedResult.get", props=["C02"], ghost=GHOST, globals=glob, setup=setup,
        params=dict(self=ObjOf("MemorizedResult", store_backend=store(), _call_id=callid, timestamp=None, metadata=PyDict({}), verbose=INT)),
        requires=["SI()"],
        ensures={"loads_exactly_that_entry": "result is val(KEY) and has(KEY)"},
        exsures={"KeyError": {}, "OSError": {}, "EOFError": {}, "Exception": {}},
    ))

    # ------------------------------------------------------------------ expires_after callback: total on every metadata dict
    p.add(Contract(
        MEM, "expires_after.cache_validation_callback", props=["C05", "C11"],
        params=dict(metadata=lambda interp: m_get_metadata(interp, None, [None], {}),
                    delta=OpaqueOf("timedelta", secs=REAL)),
        ensures={"missing_time_means_invalid": "implies('time' not in metadata, result is False)",
                 "age_test": "implies('time' in metadata, result == (ret_time - metadata['time'] < delta.secs))"},
    ))

    # ------------------------------------------------------------------ func_code_info property (C12.3)
    def fci_setup(interp, env):
        g = interp.ctx.ghost
        g["CODEID"] = INT.fresh(interp.ctx, "codeid")

    fglob = dict(glob)
    fglob["get_func_code"] = lambda interp: _Fn(lambda i, a, k: (i.ctx.events.append(("get_func_code",)), (i.ctx.ghost["CURSRC"], None, i.ctx.ghost["CURLINE"]))[1])
    p.models["builtin:id"] = lambda i, a, k: i.ctx.ghost["CODEID"] if "CODEID" in i.ctx.ghost else INT.fresh(i.ctx, "id")
    p.spec_funcs["n_events"] = lambda interp, name: sum(1 for e in interp.ctx.events if e[0] == name)
    # Representation invariant of the cached source:  _func_code_info, when present, is the source of the code object whose id is
    # _func_code_id (ghost INFO_FOR = the id it was computed for).  Assumption: within one MemorizedFunc the id of the live code
    # object identifies it (CPython may reuse the id of a collected code object).
    def fci_self(interp):
        ctx = interp.ctx
        g = ctx.ghost
        cur = Opaque("code", None)              # the code object the function has now
        other = Opaque("code", None)            # some other code object (possibly collected meanwhile: nothing is assumed about ids)
        g["CURCODE"] = cur
        have = ctx.choose(2, "cached-info-present")
        which = ctx.choose(3, "recorded-code-object")   # none / the current one / another one
        o = mfunc(func=Opaque("userfunc", None, __name__=STR.fresh(ctx, "fname"), __code__=cur), _func_code_id=None, _func_code_info=None).fresh(ctx, "self")
        o.fields["_func_code_id"] = (None, cur, other)[which]
        g["INFO_FOR"] = o.fields["_func_code_id"]
        if have:
            o.fields["_func_code_info"] = (g["CACHEDSRC"], None, g["CURLINE"])
        return o

    p.spec_funcs["recorded_is_current"] = lambda interp, me: me.fields["_func_code_id"] is interp.ctx.ghost["CURCODE"]
    p.spec_funcs["info_was_for_current"] = lambda interp: interp.ctx.ghost["INFO_FOR"] is interp.ctx.ghost["CURCODE"]
    p.add(Contract(
        MEM, "MemorizedFunc.func_code_info", props=["C12"], ghost=dict(CURSRC=Src, CURLINE=INT, CACHEDSRC=Src), globals=fglob,
        params=dict(self=fci_self),
        # representation invariant: a cached source, when present, is the source of the code OBJECT recorded next to it (a reference: the
        # object cannot be collected and its identity re-used while it is recorded)
        requires=["self._func_code_info is None or self._func_code_id is not None",
                  "implies(info_was_for_current() and self._func_code_info is not None, CACHEDSRC is CURSRC)"],
        ensures={
            "always_the_source_of_the_current_code_object": "result[0] is CURSRC",
            "RI_cached_info_belongs_to_the_recorded_code_object": "self._func_code_info is not None and recorded_is_current(self)",
            "remembered": "same(result, self._func_code_info)",
        },
    ))
    # the in-process table of function hashes is consulted before the store: its key must tell stores apart, else a table entry
    # written through one Memory location validates a stale code file in another one
    p.add(Contract(
        MEM, "MemorizedFunc._hash_func", props=["C12"], globals=fglob, setup=fci_setup,
        params=dict(self=mfunc(func=OpaqueOf("userfunc", __name__=STR, __code__=OpaqueOf("code", co_firstlineno=INT, co_name=STR, co_filename=STR)), store_backend=OpaqueOf("storebackend", location=OpaqueOf("location")))),
        ensures={"key_tells_code_objects_apart": "any_is(result, hash_of(self.func.__code__))",
                 "key_tells_stores_apart": "any_is(result, self.store_backend.location)",
                 # the interface _write_func_code relies on when it looks for OTHER live functions filed under the same identifier in the
                 # same location (`other_hash[-2:] == (location, func_id)`): the key ENDS with exactly these two
                 "key_ends_with_location_and_identifier": "result[-2] is self.store_backend.location and result[-1] is self.func_id"},
    ))
    p.models["builtin:hash"] = lambda i, a, k: Opaque("hashof", None, of=a[0]) if not isinstance(a[0], (int, str, bytes, tuple)) else hash(a[0])
    p.spec_funcs["hash_of"] = lambda interp, o: o
    p.spec_funcs["any_is"] = lambda interp, tup, x: isinstance(tup, tuple) and any(e is x or (isinstance(e, Opaque) and e.tag == "hashof" and e.attrs.get("of") is x) for e in tup)
    # ---- structural (C06): "every call that the plain function accepts is accepted by the cached wrapper".  An entry point that forwards
    # *args / **kwargs to the user's function must not steal a keyword: its own named parameters have to be positional-only.
    def wrappers_accept_every_keyword(pack):
        import ast as _ast
        from pyvc.contracts import SourceModule
        mod = SourceModule.get(MEM)
        out = []
        for cls in mod.tree.body:
            if not (isinstance(cls, _ast.ClassDef) and cls.name in ("MemorizedFunc", "NotMemorizedFunc", "AsyncMemorizedFunc", "AsyncNotMemorizedFunc")):
                continue
            for fn in cls.body:
                if not isinstance(fn, (_ast.FunctionDef, _ast.AsyncFunctionDef)) or fn.name.startswith("_") and fn.name != "__call__":
                    continue
                a = fn.args
                if a.vararg is None or a.kwarg is None:
                    continue
                named = [x.arg for x in a.args + a.kwonlyargs]
                out.append(("%s.%s/forwards-every-keyword" % (cls.name, fn.name), not named,
                            "parameters %r of %s.%s(*%s, **%s) can be hit by a keyword meant for the cached function (e.g. f(self=...)): they must be positional-only"
                            % (named, cls.name, fn.name, a.vararg.arg, a.kwarg.arg)))
        # ... and the helpers those entry points hand the user's *args / **kwargs to (format_call -> format_signature with the default
        # verbosity), and Memory.eval
        fi = SourceModule.get("joblib/func_inspect.py")
        for modname, mod_, names in (("func_inspect", fi, ("format_signature",)),):
            for fname in names:
                fn = mod_.funcs.get(fname)
                if fn is None:
                    out.append(("%s.%s/found" % (modname, fname), False, "anchor lost"))
                    continue
                a = fn.args
                if a.vararg is not None and a.kwarg is not None:
                    named = [x.arg for x in a.args + a.kwonlyargs]
                    out.append(("%s.%s/forwards-every-keyword" % (modname, fname), not named,
                                "parameters %r of %s(*%s, **%s) can be hit by a keyword of the cached call (cached(x, func=...) with the default verbosity)" % (named, fname, a.vararg.arg, a.kwarg.arg)))
        ev = mod.funcs.get("Memory.eval")
        if ev is not None and ev.args.vararg is not None and ev.args.kwarg is not None:
            named = [x.arg for x in ev.args.args + ev.args.kwonlyargs]
            out.append(("Memory.eval/forwards-every-keyword", not named, "parameters %r of Memory.eval(*args, **kwargs) can be hit by a keyword meant for the evaluated function" % (named,)))
        if not out:
            out.append(("wrappers/forwarding-entry-points-found", False, "no forwarding entry point found in joblib/memory.py (anchor lost)"))
        return out

    wrappers_accept_every_keyword.props = ["C06"]

    # ---- structural (C02): functools.update_wrapper(self, func) copies func.__dict__ into the wrapper's __dict__; whatever the wrapper
    # relies on (self.func, self.ignore, self.store_backend, ...) has to be assigned AFTER that copy, else an attribute of the user's
    # function with the same name replaces it (f.func = g made the cached f call g)
    def function_attributes_never_override_wrapper_state(pack):
        import ast as _ast
        from pyvc.contracts import SourceModule
        mod = SourceModule.get(MEM)
        out = []
        for cname in ("MemorizedFunc",):
            init = mod.funcs.get(cname + ".__init__")
            if init is None:
                out.append(("%s.__init__/found" % cname, False, "anchor lost"))
                continue
            copy_line = None
            for n in _ast.walk(init):
                if isinstance(n, _ast.Call) and _ast.unparse(n.func) in ("functools.update_wrapper", "update_wrapper") and len(n.args) >= 1 and _ast.unparse(n.args[0]) == "self":
                    copy_line = n.lineno if copy_line is None else min(copy_line, n.lineno)
            early = sorted({t.attr for st in _ast.walk(init) if isinstance(st, _ast.Assign) for t in st.targets
                            if isinstance(t, _ast.Attribute) and _ast.unparse(t.value) == "self" and copy_line is not None and st.lineno < copy_line})
            out.append(("%s.__init__/function-attributes-never-override-wrapper-state" % cname, copy_line is None or not early,
                        "assigned before functools.update_wrapper(self, func) copies func.__dict__ over them: %r" % (early,)))
        return out

    function_attributes_never_override_wrapper_state.props = ["C02"]
    p.structural = [wrappers_accept_every_keyword, function_attributes_never_override_wrapper_state]
    p.spec_funcs["dumped_key"] = lambda interp: key_of([e for e in interp.ctx.events if e[0] == "dump_item"][0][1])
    p.spec_funcs["same"] = lambda interp, a, b: a is b or (isinstance(a, tuple) and isinstance(b, tuple) and all(x is y or ops.identical(x, y) is True for x, y in zip(a, b)))
    # ------------------------------------------------------------------ entry points: pure delegation with the caller's own arguments
    ua, ub = Opaque("userarg", "a"), Opaque("userarg", "b")
    # (MemorizedFunc.__call__ / call_and_shelve are under contract above, through the contract of _cached_call)
    p.spec_funcs["is_tag"] = lambda interp, o, tag: isinstance(o, Opaque) and o.tag == tag
    p.spec_funcs["n_events"] = lambda interp, name: sum(1 for e in interp.ctx.events if e[0] == name)
    p.spec_funcs["ev_named"] = lambda interp, name: PyList([e for e in interp.ctx.events if e[0] == name])
    # the uncached wrapper (Memory(location=None)): the function itself, same arguments, no caching layer
    p.models["plainfunc.__call__"] = lambda i, fv, a, k: (i.ctx.events.append(("plain-call", tuple(a), dict(k))), Opaque("plain-result", None))[1]
    p.models["new:NotMemorizedResult"] = lambda i, a, k: Opaque("not-memorized-result", None, value=a[0])
    p.add(Contract(
        MEM, "NotMemorizedFunc.__call__", props=["C02", "C06"],
        params=dict(self=ObjOf("NotMemorizedFunc", func=OpaqueOf("plainfunc")), args=(ua,), kwargs=PyDict({"k": ub})),
        ensures={"the_functions_own_value": "is_tag(result, 'plain-result')"},
        ensures_body={"called_once_with_the_callers_arguments": "n_events('plain-call') == 1 and ev_named('plain-call')[0][1] == args"},
    ))
    p.add(Contract(
        MEM, "NotMemorizedFunc.call_and_shelve", props=["C02", "C06"],
        params=dict(self=ObjOf("NotMemorizedFunc", func=OpaqueOf("plainfunc")), args=(ua,), kwargs=PyDict({"k": ub})),
        ensures={"wraps_the_functions_own_value": "is_tag(result, 'not-memorized-result') and is_tag(result.value, 'plain-result')"},
        ensures_body={"called_once_with_the_callers_arguments": "n_events('plain-call') == 1 and ev_named('plain-call')[0][1] == args"},
    ))
    # ------------------------------------------------------------------ _get_args_id: the key of a call is the digest of its canonical arguments, computed afresh
    # (the mem pack uses it through the summary KEY = hash(filter_args(...)); this is the real body: one filter_args over the caller's arguments
    # and the wrapper's ignore list, one joblib.hash of exactly that dict, returned unchanged - no memo table between the arguments and their digest)
    def fa_stub(interp, args, kwargs):
        interp.ctx.events.append(("filter_args", args[0], args[1], args[2], args[3]))
        return Opaque("canonical-arguments", None)

    def hash_stub(interp, recv, args, kwargs):
        interp.ctx.events.append(("hashing.hash", args[0], kwargs.get("coerce_mmap", "missing")))
        return Opaque("digest", None)

    p.models["hashingmod.hash"] = hash_stub
    gid_glob = dict(glob)
    gid_glob["filter_args"] = lambda interp: _Fn(fa_stub)
    gid_glob["hashing"] = lambda interp: Opaque("hashingmod", None)
    p.add(Contract(
        MEM, "MemorizedFunc._get_args_id", props=["C02", "C06"], globals=gid_glob,
        params=dict(self=mfunc(mmap_mode=OneOf(None, "r")), args=(Opaque("userarg", "a"),), kwargs=PyDict({"k": Opaque("userarg", "b")})),
        ensures={"the_digest_of_the_canonical_arguments": "is_tag(result, 'digest')"},
        ensures_body={
            "canonical_form_of_exactly_this_call": "n_events('filter_args') == 1 and ev_named('filter_args')[0][1] is self.func and ev_named('filter_args')[0][2] is self.ignore "
                                                   "and ev_named('filter_args')[0][3] == args and ev_named('filter_args')[0][4] is kwargs",
            "hashed_once_and_afresh": "n_events('hashing.hash') == 1 and is_tag(ev_named('hashing.hash')[0][1], 'canonical-arguments') and ev_named('hashing.hash')[0][2] == (self.mmap_mode is not None)",
        },
    ))

    # ------------------------------------------------------------------ MemorizedFunc.__init__: decorating never fails for an ignore list that filter_args accepts
    # (C06: "every call that the plain function accepts is accepted by the wrapper" starts with the wrapper existing; the special entries '*' and
    # '**' and the instance parameter of a bound method are valid ignore items: func_inspect.filter_args documents them)
    def init_setup(interp, env):
        interp.ctx.ghost["INIT_SELF"] = env.lookup("self")

    def sb_factory(interp, args, kwargs):
        interp.ctx.events.append(("store-factory", args[0], args[1], dict(kwargs)))
        if args[1] is None:
            return None
        return Opaque("newstore", None)

    p.models["newstore.store_cached_func_code"] = lambda i, r, a, k: i.ctx.events.append(("store_cached_func_code", a[0]))
    p.models["functools.update_wrapper"] = lambda i, a, k: i.ctx.events.append(("update_wrapper", a[0], a[1]))
    p.models["Logger.__init__"] = lambda i, r, a, k: None
    p.models["inspect.isfunction"] = lambda i, a, k: True
    p.models["inspect.ismethod"] = lambda i, a, k: False
    p.models["pydoc.TextDoc"] = lambda i, a, k: Opaque("textdoc", None)
    p.models["textdoc.document"] = lambda i, r, a, k: STR.fresh(i.ctx, "doc")
    p.models["Str.replace"] = lambda i, r, a, k: STR.fresh(i.ctx, "replaced")
    p.models["re.sub"] = lambda i, a, k: STR.fresh(i.ctx, "subbed")
    # inspect.signature(func).parameters of `def func(x, *args, **kw)`: the names are x, args, kw - never '*' or '**'
    p.models["inspect.signature"] = lambda i, a, k: Opaque("signature", None, parameters=Opaque("sigparams", None))
    p.models["contains:sigparams"] = lambda i, c, item: item in ("x", "args", "kw")
    init_glob = dict(glob)
    init_glob["_build_func_identifier"] = lambda interp: _Fn(lambda i, a, k: STR.fresh(i.ctx, "func_id"))
    init_glob["_store_backend_factory"] = lambda interp: _Fn(sb_factory)
    init_glob["Logger"] = lambda interp: Opaque("LoggerClass", None, __init__=_Fn(lambda i, a, k: None))
    for ig_name, ig in (("none", None), ("star", PyList(["*"])), ("double-star", PyList(["**"])), ("named", PyList(["x"])), ("all-three", PyList(["x", "*", "**"]))):
        p.add(Contract(
            MEM, "MemorizedFunc.__init__", variant="ignore-" + ig_name, props=["C06", "C02"], globals=init_glob, setup=init_setup,
            params=dict(self=lambda i: SObj("MemorizedFunc", {}), func=OpaqueOf("userfunc", __doc__=STR), location=OneOf(None, OpaqueOf("storelocation")), backend="local",
                        ignore=ig, mmap_mode=OneOf(None, "r"), compress=False, verbose=1, timestamp=OneOf(None, REAL), cache_validation_callback=OneOf(None, OpaqueOf("cvc"))),
            ensures={
                "wraps_this_function_with_these_options": "self.func is func and self.mmap_mode is mmap_mode and self.cache_validation_callback is cache_validation_callback",
                "ignore_list_kept_as_given": ("len(self.ignore) == 0" if ig is None else "self.ignore is ignore"),
                "no_code_information_yet": "self._func_code_info is None and self._func_code_id is None",
            },
            ensures_body={"store_built_from_the_given_location": "n_events('store-factory') == 1 and ev_named('store-factory')[0][2] is location",
                          "function_directory_announced_iff_there_is_a_store": "n_events('store_cached_func_code') == (0 if location is None else 1)",
                          "metadata_copied_before_the_wrapper_state_is_set": "n_events('update_wrapper') == 1 and ev_named('update_wrapper')[0][2] is func"},
            # no exsures: decorating a function with a valid ignore list never raises
        ))

    # ------------------------------------------------------------------ Memory.cache: what the wrapper is built from
    def new_wrapper(kind):
        def h(interp, args, kwargs):
            interp.ctx.events.append(("new-" + kind, args[0] if args else None, dict(kwargs)))
            return Opaque(kind, None)
        return h

    for cname in ("MemorizedFunc", "NotMemorizedFunc", "AsyncMemorizedFunc", "AsyncNotMemorizedFunc"):
        p.models["new:" + cname] = new_wrapper(cname)
    p.models["asyncio.iscoroutinefunction"] = lambda i, a, k: False   # plain functions (the async wrappers mirror the plain ones)
    p.models["functools.partial"] = lambda i, a, k: (i.ctx.events.append(("partial", a[0], dict(k))), Opaque("partial", None))[1]
    p.models["builtin:callable"] = lambda i, a, k: not (isinstance(a[0], Opaque) and a[0].tag == "not-callable")
    p.spec_funcs["kw"] = lambda interp, ev_name, key: [e for e in interp.ctx.events if e[0] == ev_name][0][2].get(key, Opaque("missing", None))
    memory_obj = lambda **over: ObjOf("Memory", **dict(dict(store_backend=OneOf(None, OpaqueOf("storebackend")), backend="local", compress=OneOf(False, True, 3), mmap_mode=OneOf(None, "r", "c"),
                                                            _verbose=INT, timestamp=REAL), **over))
    # Memory.clear: wipes the store, then the process-wide table of validated functions (else a function validated before the clear would
    # never write its code file again) - the clear of the table inside the lock shared with the iteration of _write_func_code (C11)
    def fh_clear(interp, recv, args, kwargs):
        table_guarded(interp, "clear")
        interp.ctx.events.append(("table-cleared",))
        return None

    p.models["fhashes.clear"] = fh_clear
    p.models["storebackend.clear"] = lambda i, r, a, k: (i.ctx.events.append(("store-cleared",)), None)[1]
    p.models["Memory.warn"] = lambda i, r, a, k: None
    p.add(Contract(
        MEM, "Memory.clear", props=["C11", "C12"], globals=glob,
        params=dict(self=memory_obj(), warn=OneOf(True, False)),
        ensures={"store_then_table": "implies(self.store_backend is not None, n_events('store-cleared') == 1 and n_events('table-cleared') == 1)",
                 "nothing_without_a_store": "implies(self.store_backend is None, n_events('store-cleared') == 0)"},
    ))
    p.add(Contract(
        MEM, "Memory.cache", variant="function-given", props=["C02", "C06", "C12"],
        params=dict(self=memory_obj(), func=OpaqueOf("userfunc", isinstance=()), ignore=OneOf(None, OpaqueOf("ignorelist")), verbose=OneOf(None, INT), mmap_mode=OneOf(False, None, "r"),
                    cache_validation_callback=OneOf(None, OpaqueOf("cvc"), OpaqueOf("not-callable"))),
        ensures={},
        ensures_body={
            "without_a_store_the_plain_function_is_wrapped_unchanged": "implies(self.store_backend is None and n_events('new-NotMemorizedFunc') == 1, ev_named('new-NotMemorizedFunc')[0][1] is func)",
            "caching_wrapper_iff_there_is_a_store": "(n_events('new-MemorizedFunc') == 1) == (self.store_backend is not None) and n_events('new-MemorizedFunc') + n_events('new-NotMemorizedFunc') == 1",
            "wrapper_built_on_this_memorys_store_with_the_callers_options":
                "implies(n_events('new-MemorizedFunc') == 1, ev_named('new-MemorizedFunc')[0][1] is func and kw('new-MemorizedFunc', 'location') is self.store_backend "
                "and kw('new-MemorizedFunc', 'ignore') is ignore and kw('new-MemorizedFunc', 'cache_validation_callback') is cache_validation_callback "
                "and kw('new-MemorizedFunc', 'compress') is self.compress and kw('new-MemorizedFunc', 'timestamp') is self.timestamp)",
            "explicit_options_win_over_the_memorys_defaults":
                "implies(n_events('new-MemorizedFunc') == 1, (kw('new-MemorizedFunc', 'mmap_mode') is (self.mmap_mode if mmap_mode is False else mmap_mode)) "
                "and (kw('new-MemorizedFunc', 'verbose') is (self._verbose if verbose is None else verbose)))",
        },
        exsures={"ValueError": {"only_for_a_validation_callback_that_is_not_callable": "is_tag(cache_validation_callback, 'not-callable')"}},
    ))
    p.add(Contract(
        MEM, "Memory.cache", variant="decorator-with-options", props=["C02", "C06"],
        params=dict(self=memory_obj(), func=None, ignore=OneOf(None, OpaqueOf("ignorelist")), verbose=OneOf(None, INT), mmap_mode=OneOf(False, None, "r"),
                    cache_validation_callback=OneOf(None, OpaqueOf("cvc"))),
        ensures={"a_partial_application_of_cache": "is_tag(result, 'partial')"},
        ensures_body={"every_option_is_carried_over": "n_events('partial') == 1 and kw('partial', 'ignore') is ignore and kw('partial', 'mmap_mode') is mmap_mode and kw('partial', 'verbose') is verbose "
                                                      "and kw('partial', 'cache_validation_callback') is cache_validation_callback"},
    ))
    return p
