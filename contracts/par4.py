"""Dispatcher pack, part 4 (C04, C16, C01, C09, C15): call set-up and tear-down - Parallel.__call__, _get_outputs
(exception / GeneratorExit / finally paths, tail loop), _get_sequential_output, _terminate_and_reset, __enter__/__exit__,
_raise_error_fast.

Quiescent state Q (C04.1): not _running, _jobs and _jobs_set empty; every exit of _get_outputs re-establishes it and
__call__ starts every call with a fresh call id AND an empty look-ahead queue (the latter was a defect: fix commit).
"""
import z3

from pyvc import ops
from pyvc.contracts import Contract, Loop, SourceModule
from pyvc.interp import BUILTIN_EXC, PyRaise
from pyvc.pack import Pack
from pyvc.values import (
    BOOL, INT, REAL, STR, Atom, ClassRef, Kind, ObjOf, OneOf, Opaque, OpaqueOf, Opt, PyDict, PyList, Rec, SExc, SObj, Sym,
    Unsupported, kind_of, to_term,
)

from .common import install_common
from .par3 import DequeKind, SDeque, TRef, T_LO, T_HI, Res, Run, jtiles

PAR = "joblib/parallel.py"


def _Fn(fn):
    return Opaque("fn", None, fn=fn)


def build():
    p = Pack("PAR4", files=[PAR, "joblib/_parallel_backends.py", "joblib/_utils.py"])
    install_common(p)
    p.models["fn.__call__"] = lambda interp, fv, args, kwargs: fv.attrs["fn"](interp, args, kwargs)
    p.spec_funcs["n_events"] = lambda interp, name: sum(1 for e in interp.ctx.events if e[0] == name)
    p.spec_funcs["ev_named"] = lambda interp, name: PyList([e for e in interp.ctx.events if e[0] == name])
    p.spec_funcs["ev_index"] = lambda interp, name: next((i for i, e in enumerate(interp.ctx.events) if e[0] == name), -1)
    p.log_calls.update({"self._print", "self.print_progress", "warnings.warn", "self._warn_exit_early"})

    def lock_enter(interp, cm):
        d = interp.ctx.lock_depth
        d["plock"] = d.get("plock", 0) + 1
        return cm

    def lock_exit(interp, cm, e):
        interp.ctx.lock_depth["plock"] -= 1
        return False

    p.models["enter:plock"] = lock_enter
    p.models["exit:plock"] = lock_exit
    p.spec_funcs["lock_depth"] = lambda interp: interp.ctx.lock_depth.get("plock", 0)

    def held(interp, what):
        interp.ctx.check("%s/guarded-by._lock.%s" % (interp.contract.qualname, what), interp.ctx.lock_depth.get("plock", 0) > 0, detail="%s only with Parallel._lock held" % what)

    def rec(name, ret=None):
        def h(interp, recv, args, kwargs):
            interp.ctx.events.append((name,) + tuple(args) + tuple(kwargs.get(k) for k in sorted(kwargs)))
            return ret(interp) if callable(ret) else ret
        return h

    # ---- backend (external)
    for m in ("start_call", "stop_call", "terminate"):
        p.models["backend." + m] = rec("backend." + m)
    p.models["backend.retrieval_context"] = lambda i, r, a, k: Opaque("retrctx", None)
    p.models["backend.configure"] = lambda i, r, a, k: (i.ctx.events.append(("backend.configure",)), INT.fresh(i.ctx, "n_jobs_cfg"))[1]
    p.assume_note("backend.start_call / stop_call / terminate / abort_everything / configure return (external backend API)")

    # ---- empty collections created in the tear-down
    def new_deque(interp, args, kwargs):
        interp.ctx.events.append(("new-deque",))
        return SDeque(z3.K(z3.IntSort(), z3.Const("noref", TRef.sort())), z3.IntVal(0), z3.IntVal(0))

    p.models["collections.deque"] = new_deque
    p.models["builtin:set"] = lambda i, a, k: Opaque("emptyset", None, size=0)
    p.spec_funcs["is_empty_deque"] = lambda interp, d: isinstance(d, SDeque) and ops.mk_bool(d.head == d.tail)
    p.spec_funcs["is_empty_set"] = lambda interp, s: isinstance(s, Opaque) and s.tag == "emptyset"

    def parallel(**over):
        f = dict(_lock=OpaqueOf("plock"), _aborting=BOOL, _exception=BOOL, _aborted=BOOL, _jobs=DequeKind(), _jobs_set=OpaqueOf("jobsset"), return_ordered=True,
                 timeout=Opt(REAL), _nb_consumed=INT, n_completed_tasks=INT, n_dispatched_tasks=INT, n_dispatched_batches=INT, _iterating=BOOL,
                 _backend=lambda i: Opaque("backend", None, supports_retrieve_callback=True, hasattr={"stop_call": True, "start_call": True, "abort_everything": True}),
                 _running=True, _managed_backend=BOOL, _calling=BOOL, return_generator=BOOL, verbose=0)
        f.update(over)
        return ObjOf("Parallel", **f)

    # ------------------------------------------------------------------ _terminate_and_reset
    p.add(Contract(
        PAR, "Parallel._terminate_and_reset", props=["C04", "C16"],
        params=dict(self=parallel()),
        modifies=["self._calling"],
        ensures={"call_closed": "self._calling is False"},
        ensures_body={"stop_call_once_per_call": "n_events('backend.stop_call') == (1 if old(self._calling) else 0)",
                      "own_backend_terminated_borrowed_one_kept": "n_events('backend.terminate') == (0 if self._managed_backend else 1)"},
    ))

    # ------------------------------------------------------------------ _raise_error_fast
    def err_job(interp, it, rest):
        ctx = interp.ctx
        held(interp, "_jobs (scan)")
        if ctx.choose(2, "error-job-in-queue") == 0:
            return rest[0] if rest else None
        t = TRef.fresh(ctx, "errjob")
        ctx.ghost["ERRJOB"] = t
        return t

    p.models["next:genexp"] = err_job

    def t_get_result(interp, recv, args, kwargs):
        interp.ctx.events.append(("get_result", recv))
        e = SExc(BUILTIN_EXC["ValueError"], ())
        interp.ctx.ghost["TASK_EXC"] = e
        raise PyRaise(e)

    p.models["TRef.get_result"] = t_get_result
    p.spec_funcs["same_exc"] = lambda interp, e: e is interp.ctx.ghost.get("TASK_EXC")
    p.add(Contract(
        PAR, "Parallel._raise_error_fast", props=["C04"],
        params=dict(self=parallel()),
        ensures={"nothing_to_raise": "n_events('get_result') == 0"},
        exsures={"ValueError": {"the_failed_jobs_own_exception": "same_exc(exc)", "from_the_first_error_job": "ev_named('get_result')[0][1] is ERRJOB"}},
    ))

    # ------------------------------------------------------------------ _get_outputs
    def start_summary(interp, recv, args, kwargs):
        it = args[0]
        if isinstance(it, Opaque) and it.tag == "limited":
            interp.ctx.check("%s/call._start.pre.calling-thread-slice-is-not-empty-by-construction" % interp.contract.qualname,
                             ops.as_int_term(it.attrs["n"]) >= 1, detail="precondition of Parallel._start (part 2): limited_to(iterator) >= 1, else no task would ever be dispatched")
        interp.ctx.events.append(("_start",))
        k = interp.ctx.choose(2, "_start-raises")
        if k == 1:
            interp.raise_("KeyboardInterrupt")
        return None

    def retrieve_summary(interp, recv, args, kwargs):
        """yield from self._retrieve(): some results are yielded; then it returns, a task error surfaces, or the consumer closes the generator."""
        ctx = interp.ctx
        ctx.events.append(("_retrieve",))
        k = ctx.choose(3, "_retrieve-outcome")
        if k == 1:
            e = SExc(BUILTIN_EXC["ValueError"], ())
            ctx.ghost["TASK_EXC"] = e
            raise PyRaise(e)
        # (contract of _retrieve, part 3) on every exit the jobs still queued continue the output where it stopped
        me = ctx.ghost["SELF"]
        me.fields["_jobs"] = DequeKind().fresh(ctx, "jobs")
        ctx.ghost["NY"], ctx.ghost["JHI"] = INT.fresh(ctx, "NY"), INT.fresh(ctx, "JHI")
        ctx.assume(jtiles(me.fields["_jobs"], ctx.ghost["NY"].term, ctx.ghost["JHI"].term))
        if k == 2:
            ctx.ghost["CLOSED"] = True
            raise PyRaise(SExc(BUILTIN_EXC["GeneratorExit"], ()))
        return Opaque("yielded", None, value=None)

    def abort_summary(interp, recv, args, kwargs):
        interp.ctx.events.append(("_abort",))
        recv.fields["_aborting"] = True
        recv.fields["_aborted"] = True

    def tr_summary(interp, recv, args, kwargs):
        interp.ctx.events.append(("_terminate_and_reset",))
        recv.fields["_calling"] = False

    tid = lambda which: (lambda i, a, k: i.ctx.ghost.setdefault("TID_" + which, INT.fresh(i.ctx, "tid_" + which)))
    tid_calls = {"n": 0}

    def get_ident(interp, args, kwargs):
        g = interp.ctx.ghost
        n = g.get("IDENT_CALLS", 0)
        g["IDENT_CALLS"] = n + 1
        return g.setdefault("TID_%d" % min(n, 1), INT.fresh(interp.ctx, "tid%d" % min(n, 1)))

    p.models["threading.get_ident"] = get_ident

    def exit_thread_class(interp, node, env):
        def ctor(i, a, k):
            o = Opaque("exitthread", None)
            return o
        return _Fn(ctor)

    p.models["classdef:_GeneratorExitThread"] = exit_thread_class
    p.models["exitthread.start"] = lambda i, r, a, k: i.ctx.events.append(("detached-exit-thread",))

    def dq_method(interp, recv, name, args, kwargs):
        if name == "popleft":
            if interp.ctx.branch(recv.head == recv.tail, "jobs:empty"):
                interp.raise_("IndexError")
            t = Sym(TRef, z3.Select(recv.arr, recv.head))
            recv.head = recv.head + 1
            interp.ctx.events.append(("popleft", t))
            return t
        raise Unsupported("deque." + name)

    orig_cm = p.container_method

    def cm(interp, recv, name, args, kwargs, node):
        if isinstance(recv, SDeque):
            return dq_method(interp, recv, name, args, kwargs)
        return orig_cm(interp, recv, name, args, kwargs, node)

    p.container_method = cm

    def tail_get_result(interp, recv, args, kwargs):
        ctx = interp.ctx
        ctx.events.append(("get_result", recv))
        is_err = ctx.ghost.get("ERRJOB") is not None and ctx.ghost["ERRJOB"] is recv
        if is_err or ctx.choose(2, "tail-result-error") == 1:
            e = SExc(BUILTIN_EXC["ValueError"], ())
            ctx.ghost["TASK_EXC"] = e
            raise PyRaise(e)
        lo, hi = T_LO(recv.term), T_HI(recv.term)
        return Opaque("results", None, seq=(hi - lo, lambda i: Sym(Res, Run(lo + i))), of=recv)

    def on_yield(interp, v):
        ctx = interp.ctx
        if v is None or not ctx.ghost.get("CHECK_ORDER"):
            return
        ny = ops.as_int_term(ctx.ghost["NY"])
        ctx.check("%s/yield.next-sequential-result" % interp.contract.qualname, to_term(v) == Run(ny), detail="tail loop: results left in _jobs come out in submission order")
        ctx.ghost["NY"] = Sym(INT, ny + 1)

    p.on_yield = on_yield
    p.spec_funcs["jobs_tile"] = lambda interp, d, lo, hi: ops.mk_bool(jtiles(d, ops.as_int_term(lo), ops.as_int_term(hi))) if isinstance(d, SDeque) else True
    p.spec_funcs["popped"] = lambda interp: [e for e in interp.ctx.events if e[0] == "popleft"][-1][1]
    p.spec_funcs["lo_of"] = lambda interp, t: Sym(INT, T_LO(t.term))
    p.spec_funcs["hi_of"] = lambda interp, t: Sym(INT, T_HI(t.term))

    def go_setup(interp, env):
        g = interp.ctx.ghost
        g["CHECK_ORDER"] = True
        g["SELF"] = env.lookup("self")
        interp.ctx.lock_depth["plock"] = 0

    Q = "is_empty_deque(self._jobs) and is_empty_set(self._jobs_set) and self._running is False"
    go = Contract(
        PAR, "Parallel._get_outputs", props=["C04", "C16", "C01"], generator=True, ghost=dict(NY=INT, JHI=INT), setup=go_setup,
        params=dict(self=parallel(), iterator=lambda i: Opaque("limited", None, n=INT.fresh(i.ctx, "limit")), pre_dispatch=OneOf("all", INT)),
        requires=["jobs_tile(self._jobs, NY, JHI)", "limited_to(iterator) >= 1"],
        calls={"self._start": lambda i, a, k: start_summary(i, None, a, k), "self._retrieve": lambda i, a, k: retrieve_summary(i, None, a, k)},
        ensures={"quiescent": Q, "everything_queued_is_delivered": "implies(not self._exception, NY == JHI)"},
        ensures_body={"torn_down_once_or_detached": "n_events('_terminate_and_reset') + n_events('detached-exit-thread') == 1",
                      "detached_only_for_a_foreign_thread_close": "implies(n_events('detached-exit-thread') == 1, self._exception is True)"},
        exsures={
            "ValueError": {"quiescent": Q, "the_tasks_own_exception": "same_exc(exc)",
                           "aborted_or_already_quiescent": "n_events('_abort') == 1 or n_events('_terminate_and_reset') == 1"},
            "KeyboardInterrupt": {"quiescent": Q, "flagged": "self._exception is True", "aborted_then_torn_down": "n_events('_abort') == 1 and n_events('_terminate_and_reset') == 1 "
                                                                                                             "and ev_index('_abort') < ev_index('_terminate_and_reset')"},
            "GeneratorExit": {"quiescent": Q, "flagged": "self._exception is True", "dispatch_stopped_first": "n_events('_abort') == 1 and self._aborting is True",
                              "torn_down": "n_events('_terminate_and_reset') == 1"},
        },
        loops={
            1: Loop("while len(_remaining_outputs) > 0",
                    invariant={"rest_continues_the_output": "jobs_tile(_remaining_outputs, NY, JHI)", "quiescent": Q},
                    kinds={"batched_results": TRef, "_remaining_outputs": DequeKind()},
                    havoc=["ghost:NY"]),
            2: Loop("for result in batched_results",
                    invariant={"yields_in_item_order": "NY == lo_of(popped()) + _i", "rest": "jobs_tile(_remaining_outputs, hi_of(popped()), JHI)", "quiescent": Q},
                    havoc=["ghost:NY"]),
        },
    )
    p.add(go)

    # ------------------------------------------------------------------ __call__
    CallId = Atom("CallId")

    def new_queue(interp, args, kwargs):
        held(interp, "_ready_batches (re-created)")
        interp.ctx.events.append(("new-lookahead-queue",))
        return Opaque("emptyqueue", None)

    p.models["queue.Queue"] = new_queue
    p.models["uuid.uuid4"] = lambda i, a, k: (i.ctx.events.append(("uuid4",)), Opaque("uuid", None, hex=CallId.fresh(i.ctx, "callid")))[1]
    p.write_hooks[("Parallel", "_call_id")] = lambda interp, obj, attr, v: held(interp, "_call_id")
    def reset_run_tracking(interp, recv, args, kwargs):
        # summary of its contract (part 1): raises RuntimeError iff already running, else sets the flag under the lock
        interp.ctx.events.append(("_reset_run_tracking",))
        if interp.ctx.branch(ops.truth(recv.fields["_running"]), "already-running"):
            interp.ctx.ghost["OTHER_RUN"] = True
            interp.raise_("RuntimeError")
        recv.fields["_running"] = True
        return None

    p.models["Parallel._reset_run_tracking"] = reset_run_tracking
    p.spec_funcs["other_run_active"] = lambda interp: bool(interp.ctx.ghost.get("OTHER_RUN"))
    p.models["Parallel._initialize_backend"] = lambda i, r, a, k: (i.ctx.events.append(("_initialize_backend",)), i.ctx.ghost["NJOBS"])[1]
    p.models["Parallel._effective_n_jobs"] = lambda i, r, a, k: (i.ctx.events.append(("_effective_n_jobs",)), i.ctx.ghost["NJOBS"])[1]

    def gen_obj(tag):
        def h(interp, recv, args, kwargs):
            if tag == "_get_outputs" and isinstance(args[0], Opaque) and args[0].tag == "limited":
                interp.ctx.check("%s/call._get_outputs.pre.pre_dispatch-amount-at-least-one" % interp.contract.qualname, ops.as_int_term(args[0].attrs["n"]) >= 1,
                                 detail="precondition of _get_outputs/_start: the pre_dispatch slice handed to the calling thread holds at least one task, "
                                        "else nothing is ever dispatched and the call silently returns no result")
            interp.ctx.events.append((tag,) + tuple(args))
            return Opaque("genobj", None, kind=tag)
        return h

    p.models["Parallel._get_sequential_output"] = gen_obj("_get_sequential_output")
    p.models["Parallel._get_outputs"] = gen_obj("_get_outputs")
    p.models["genobj.__next__"] = lambda i, r, a, k: i.ctx.events.append(("next", r))
    p.models["list:genobj"] = lambda i, v: Opaque("resultlist", None, of=v)
    p.models["weakref.ref"] = lambda i, a, k: Opaque("weakref", None)
    def iterable_iter(i, r, a, k):
        if i.ctx.choose(2, "input-is-iterable") == 1:
            i.ctx.ghost["NOT_ITERABLE"] = True
            i.raise_("TypeError")  # iter(5): the argument of the call is not iterable
        return Opaque("taskiter", None, of=r)

    p.models["iterable.__iter__"] = iterable_iter
    def iterable_len(i, v):
        # an object may have __len__ and still not know its length: tqdm(generator).__len__ raises TypeError - the sequential loop over
        # it works all the same
        if i.ctx.choose(2, "len-of-the-input-raises") == 1:
            i.raise_("TypeError")
        return INT.fresh(i.ctx, "ntasks")

    p.models["len:iterable"] = iterable_len
    def m_islice(interp, args, kwargs):
        if interp.ctx.branch(ops.as_int_term(args[1]) < 0, "islice:negative-stop"):
            interp.raise_("ValueError")  # CPython: "Stop argument for islice() must be None or an integer: 0 <= x <= sys.maxsize"
        return Opaque("limited", None, of=args[0], n=args[1])

    p.models["itertools.islice"] = m_islice

    def eval_expr(interp, args, kwargs):
        interp.ctx.events.append(("eval_expr", args[0]))
        if interp.ctx.choose(2, "pre_dispatch-expression-invalid") == 1:
            interp.ctx.ghost["BAD_EXPR"] = True
            interp.raise_("ValueError")  # e.g. pre_dispatch='2*njobs': not a valid or supported arithmetic expression
        return OneOf(INT, REAL).fresh(interp.ctx, "amount")

    p.models["Str.replace"] = lambda i, r, a, k: STR.fresh(i.ctx, "expr")
    cglob = {"eval_expr": lambda interp: _Fn(eval_expr), "LokyBackend": ClassRef("LokyBackend")}
    p.spec_funcs["not_iterable"] = lambda interp: bool(interp.ctx.ghost.get("NOT_ITERABLE"))
    p.spec_funcs["bad_expr"] = lambda interp: bool(interp.ctx.ghost.get("BAD_EXPR"))
    p.spec_funcs["of"] = lambda interp, o: o.attrs.get("of")
    p.spec_funcs["limited_to"] = lambda interp, o: o.attrs.get("n")
    p.spec_funcs["is_tag"] = lambda interp, o, tag: isinstance(o, Opaque) and o.tag == tag
    LEFTOVER = "implies(n_events('_initialize_backend') + n_events('backend.start_call') > 0, n_events('_terminate_and_reset') == 1 and self._calling is False)"
    p.add(Contract(
        PAR, "Parallel.__call__", props=["C04", "C09", "C16", "C01", "C15"], ghost=dict(NJOBS=INT), globals=cglob, inline={"_call"},
        params=dict(self=parallel(_running=BOOL, pre_dispatch=OneOf("all", "2 * n_jobs", INT), _id=STR, _original_iterator="unset", _pre_dispatch_amount="unset",
                                  _backend=lambda i: Opaque("backend", None, supports_retrieve_callback=True, isinstance=(), hasattr={"stop_call": True, "start_call": True},
                                                            __class__=Opaque("cls", None, __name__="SomeBackend"))),
                    iterable=lambda i: Opaque("iterable", None, hasattr={"__len__": True})),
        ensures={},
        ensures_body={
            "run_tracking_reset_first": "ev_index('_reset_run_tracking') == 0",
            "one_worker_means_calling_thread": "implies(NJOBS == 1, n_events('_get_sequential_output') == 1 and n_events('_get_outputs') == 0 and n_events('backend.start_call') == 0)",
            "fresh_call_id_and_empty_lookahead_queue": "implies(NJOBS != 1, n_events('uuid4') == 1 and n_events('new-lookahead-queue') == 1)",
            "all_takes_everything_up_front": "implies(NJOBS > 1 and self.pre_dispatch == 'all', self._original_iterator is None and self._pre_dispatch_amount == 0 "
                                             "and is_tag(ev_named('_get_outputs')[0][1], 'taskiter'))",
            "lazy_dispatch_is_limited_to_pre_dispatch": "implies(NJOBS > 1 and self.pre_dispatch != 'all', is_tag(self._original_iterator, 'taskiter') and is_tag(ev_named('_get_outputs')[0][1], 'limited') "
                                                        "and of(ev_named('_get_outputs')[0][1]) is self._original_iterator and limited_to(ev_named('_get_outputs')[0][1]) is self._pre_dispatch_amount)",
            "generator_is_primed_once": "n_events('next') == 1",
            "list_or_generator_as_requested": "is_tag(result, 'genobj') == self.return_generator",
        },
        # C04 / C16: whatever makes the call fail before an output generator has taken over, the object stays usable - and a call rejected
        # because another run is active leaves that run's flag alone
        # ... "with nothing left over from the failed call": workers that this call started (a backend initialised for it, start_call of a
        # backend) are released by the clean-up of the output generator - when the call fails before that generator exists (input not
        # iterable, invalid pre_dispatch expression, no worker) nothing else will ever release them
        exsures={"RuntimeError": {"no_worker_or_overlapping_call": "NJOBS == 0 or other_run_active()", "running_flag": "self._running == other_run_active()",
                                  "what_the_call_started_is_released": LEFTOVER},
                 "ValueError": {"invalid_pre_dispatch_expression": "NJOBS != 1 and self.pre_dispatch != 'all' and bad_expr()", "object_stays_usable": "self._running is False",
                                "what_the_call_started_is_released": LEFTOVER},
                 "TypeError": {"object_stays_usable": "self._running is False", "what_the_call_started_is_released": LEFTOVER,
                               "only_for_an_input_that_cannot_be_iterated": "not_iterable()"}},
    ))
    # ------------------------------------------------------------------ _get_sequential_output (n_jobs == 1: calling thread, in order, once each)
    def seq_tasks(interp):
        # shape-bounded: an input of exactly 3 tasks (the for loop over a user iterable is unrolled)
        return PyList([(Opaque("task%d" % k, None), (), PyDict({})) for k in range(3)])

    def user_call(tag):
        def h(interp, fv, args, kwargs):
            interp.ctx.events.append(("task-run", tag))
            if tag == 1 and interp.ctx.choose(2, "task-raises") == 1:
                interp.raise_("ValueError")
            return Sym(Res, Run(z3.IntVal(tag)))
        return h

    for k in range(3):
        p.models["task%d.__call__" % k] = user_call(k)

    def seq_yield_setup(interp, env):
        interp.ctx.ghost["CHECK_ORDER"] = True
        interp.ctx.ghost["NY"] = 0

    p.add(Contract(
        PAR, "Parallel._get_sequential_output", props=["C01", "C04", "C15", "C16"], generator=True, setup=seq_yield_setup, closes=True,
        inline={"_get_batch_size"},
        params=dict(self=parallel(batch_size=1, _original_iterator=None), iterable=seq_tasks),
        ensures={"quiescent": "self._running is False and self._iterating is False and self._original_iterator is None",
                 "counts": "self.n_completed_tasks == old(self.n_completed_tasks) + 3"},
        ensures_body={"each_task_once_in_order": "[e[1] for e in ev_named('task-run')] == [0, 1, 2]"},
        exsures={"ValueError": {"quiescent": "self._running is False and self._iterating is False and self._original_iterator is None",
                                "flagged": "self._exception is True and self._aborting is True and self._aborted is True",
                                "stopped_at_the_failing_task": "[e[1] for e in ev_named('task-run')] == [0, 1]"},
                 "GeneratorExit": {"quiescent": "self._running is False and self._iterating is False and self._original_iterator is None",
                                   "flagged": "self._exception is True and self._aborting is True"}},
        note="shape-bounded: 3 tasks, batch_size == 1 (the loop runs over a user iterable; its body is verified for each of the 3 positions)",
    ))

    # ... and for ANY number of tasks (loop invariant instead of the 3-task unrolling): the k-th iteration runs task k - none skipped, none
    # twice - yields its value as the k-th result, and the counters follow
    def any_tasks(interp):
        ctx = interp.ctx
        n = INT.fresh(ctx, "ntasks")
        ctx.assume(n.term >= 0)
        ctx.ghost["NTASKS"] = n
        return Opaque("tasklist", None, seq=(n.term, lambda i: (Opaque("taskfn", None, idx=Sym(INT, i)), (), PyDict({}))))

    def any_task_call(interp, fv, args, kwargs):
        ctx = interp.ctx
        g = ctx.ghost
        idx = ops.as_int_term(fv.attrs["idx"])
        ctx.check("%s/task-run.next-task-in-submission-order-exactly-once" % interp.contract.qualname, idx == ops.as_int_term(g["RUNS"]),
                  detail="the k-th call made by the sequential loop is task k")
        g["RUNS"] = Sym(INT, ops.as_int_term(g["RUNS"]) + 1)
        if ctx.choose(2, "task-raises") == 1:
            g["FAILED_AT"] = Sym(INT, idx)
            interp.raise_("ValueError")
        return Sym(Res, Run(idx))

    p.models["taskfn.__call__"] = any_task_call

    def seq_any_setup(interp, env):
        g = interp.ctx.ghost
        g["CHECK_ORDER"] = True
        g["NY"] = 0
        g["RUNS"] = 0
        g["FAILED_AT"] = -1

    QS = "self._running is False and self._iterating is False and self._original_iterator is None"
    p.add(Contract(
        PAR, "Parallel._get_sequential_output", variant="any-number-of-tasks", props=["C01", "C04", "C09", "C16"], generator=True, setup=seq_any_setup, closes=True,
        inline={"_get_batch_size"}, ghost=dict(NTASKS=INT),
        params=dict(self=parallel(batch_size=1, _original_iterator=None), iterable=any_tasks),
        ensures={"quiescent": QS,
                 "every_task_ran_once_in_order": "RUNS == NTASKS and NY == NTASKS",
                 "counts": "self.n_completed_tasks == old(self.n_completed_tasks) + NTASKS and self.n_dispatched_tasks == old(self.n_dispatched_tasks) + NTASKS"},
        exsures={"ValueError": {"quiescent": QS, "flagged": "self._exception is True and self._aborting is True and self._aborted is True",
                                "stopped_at_the_failing_task": "RUNS == FAILED_AT + 1 and NY == FAILED_AT"},
                 "GeneratorExit": {"quiescent": QS, "flagged": "self._exception is True and self._aborting is True",
                                   "nothing_ran_after_the_close": "RUNS == NY"}},
        loops={1: Loop("for (func, args, kwargs) in iterable",
                       invariant={"one_task_per_iteration": "RUNS == _i and NY == _i",
                                  "counters_follow": "self.n_completed_tasks == old(self.n_completed_tasks) + _i and self.n_dispatched_tasks == old(self.n_dispatched_tasks) + _i "
                                                     "and self.n_dispatched_batches == old(self.n_dispatched_batches) + _i"},
                       havoc=["ghost:RUNS", "ghost:NY"])},
    ))

    # ------------------------------------------------------------------ __enter__ / __exit__
    p.add(Contract(
        PAR, "Parallel.__enter__", props=["C04", "C16"], ghost=dict(NJOBS=INT),
        params=dict(self=parallel()),
        ensures={"managed": "self._managed_backend is True and self._calling is False and result is self"},
        ensures_body={"backend_initialised_once": "n_events('_initialize_backend') == 1"},
    ))
    p.add(Contract(
        PAR, "Parallel.__exit__", props=["C04", "C16"],
        params=dict(self=parallel(), exc_type=None, exc_value=None, traceback=None),
        ensures={"released": "self._managed_backend is False"},
        ensures_body={"unfinished_generator_is_aborted_first": "n_events('_abort') == (1 if self.return_generator and old(self._calling) else 0)",
                      "torn_down": "n_events('_terminate_and_reset') == 1"},
    ))
    p.models["Parallel._abort"] = abort_summary
    p.models["Parallel._terminate_and_reset"] = tr_summary
    p.models["TRef.get_result"] = tail_get_result
    p.models["enter:retrctx"] = lambda i, cm: cm
    p.models["exit:retrctx"] = lambda i, cm, e: False
    # ---- print_progress: reporting must never turn into the outcome of a call.  It is called from the completion callbacks, from the
    # sequential loop and from its `finally` clause - after a failure, after close(), with any counters.  The contracts that call it treat it
    # as a no-op (log call); this is the real body, for the state of a sequential run (n_jobs=1: Parallel._call returns before the parallel
    # set-up, so only what _reset_run_tracking / _get_sequential_output assign exists) and of a parallel run.
    def progress_self(sequential):
        def mk(interp):
            ctx = interp.ctx
            # what Parallel.__init__ and the head of Parallel._call assign before either kind of run ...
            o = SObj("Parallel", dict(verbose=INT.fresh(ctx, "verbose"), n_tasks=Opt(INT).fresh(ctx, "n_tasks"), _start_time=REAL.fresh(ctx, "t0"), _running=False,
                                      return_generator=BOOL.fresh(ctx, "retgen"), _lock=Opaque("plock", None)))
            # ... then the REAL _reset_run_tracking (the first thing Parallel.__call__ does), so that the attributes of a run are the ones the code sets
            interp.call_method(o, "_reset_run_tracking", [], {})
            # a sequential run (n_jobs == 1: _call returns _get_sequential_output right after that) assigns only _iterating / _original_iterator;
            # a parallel run goes through the set-up of _call, which also assigns _pre_dispatch_amount
            o.fields["_iterating"] = BOOL.fresh(ctx, "iterating")
            o.fields["_original_iterator"] = Opt(OpaqueOf("taskiter")).fresh(ctx, "it")
            if not sequential:
                o.fields["_pre_dispatch_amount"] = INT.fresh(ctx, "pre")
                ctx.assume(ops.as_int_term(o.fields["_pre_dispatch_amount"]) >= 0)
            # progress is reported at any moment of the run: arbitrary counters and flags
            for k in ("n_completed_tasks", "n_dispatched_tasks", "n_dispatched_batches"):
                o.fields[k] = INT.fresh(ctx, k)
            for k in ("_aborting", "_exception", "_aborted"):
                o.fields[k] = BOOL.fresh(ctx, k)
            g = lambda k: ops.as_int_term(o.fields[k])
            # (verbose: any integer - "if non zero, progress messages are printed"; a negative level is accepted by Parallel)
            ctx.assume(z3.And(g("n_completed_tasks") >= 0, g("n_dispatched_tasks") >= g("n_completed_tasks"), g("n_dispatched_batches") >= 0))
            if o.fields["n_tasks"] is not None:
                ctx.assume(ops.as_int_term(o.fields["n_tasks"]) >= 0)
            o.fields["__complete__"] = True   # nothing else has been assigned: reading another attribute is an AttributeError
            return o
        return mk

    p.models["contextlib.nullcontext"] = lambda i, a, k: Opaque("nullctx", None)
    p.models["enter:nullctx"] = lambda i, cm: None
    p.models["exit:nullctx"] = lambda i, cm, e: False
    p.models["time.time"] = lambda i, a, k: REAL.fresh(i.ctx, "now")
    p.models["builtin:floor"] = lambda i, a, k: INT.fresh(i.ctx, "floor")
    pglob = {"floor": lambda interp: _Fn(lambda i, a, k: INT.fresh(i.ctx, "floor")), "log10": lambda interp: _Fn(lambda i, a, k: REAL.fresh(i.ctx, "log10")),
             "short_format_time": lambda interp: _Fn(lambda i, a, k: STR.fresh(i.ctx, "fmt")),
             "_verbosity_filter": lambda interp: _Fn(lambda i, a, k: BOOL.fresh(i.ctx, "filtered"))}
    for sequential in (True, False):
        p.add(Contract(
            PAR, "Parallel.print_progress", variant="sequential-run" if sequential else "parallel-run", props=["C04", "C16", "C01"], globals=pglob,
            inline={"_is_completed", "_reset_run_tracking"},
            params=dict(self=progress_self(sequential)),
            ensures={"only_reports": "self.n_completed_tasks == old(self.n_completed_tasks) and self.n_dispatched_tasks == old(self.n_dispatched_tasks)"},
            # no exsures: whatever the state of the run, reporting progress raises nothing
        ))
    # ---- structural (C04, C16): the tear-down paths (_terminate_and_reset, __exit__, _abort) run after ANY failure of a call - also one that
    # happens before the parallel set-up of Parallel._call has assigned its run-time attributes.  Every attribute of self they read must
    # exist on an object that only went through __init__ (and _reset_run_tracking, the first thing every call does), or the clean-up of an
    # early failure raises AttributeError instead of the failure itself.
    def teardown_reads_only_what_every_object_has(pack):
        import ast as _ast
        mod = SourceModule.get(PAR)
        cls = mod.classes.get("Parallel")
        if cls is None:
            return [("Parallel/found", None, "anchor lost")]
        meth = {n.name: n for n in cls.body if isinstance(n, _ast.FunctionDef)}
        assigned = set()
        for name in ("__init__", "_reset_run_tracking"):
            for n in _ast.walk(meth[name]) if name in meth else ():
                if isinstance(n, _ast.Attribute) and isinstance(n.ctx, _ast.Store) and _ast.unparse(n.value) == "self":
                    assigned.add(n.attr)
        known = assigned | set(meth) | {n.targets[0].id for n in cls.body if isinstance(n, _ast.Assign) and isinstance(n.targets[0], _ast.Name)}
        out = []
        for name in ("_terminate_and_reset", "__exit__"):
            if name not in meth:
                out.append(("Parallel.%s/found" % name, None, "anchor lost"))
                continue
            reads = sorted({n.attr for n in _ast.walk(meth[name]) if isinstance(n, _ast.Attribute) and isinstance(n.ctx, _ast.Load) and _ast.unparse(n.value) == "self"})
            also = set()
            if name == "__exit__" and "__enter__" in meth:  # __exit__ only runs after __enter__
                also = {n.attr for n in _ast.walk(meth["__enter__"]) if isinstance(n, _ast.Attribute) and isinstance(n.ctx, _ast.Store) and _ast.unparse(n.value) == "self"}
            missing = [a for a in reads if a not in known and a not in also]
            out.append(("Parallel.%s/reads-only-attributes-every-object-has" % name, not missing,
                        "attributes read by the tear-down but assigned neither by __init__ nor by _reset_run_tracking: %r" % (missing,)))
        return out

    teardown_reads_only_what_every_object_has.props = ["C04", "C16"]
    p.structural = list(getattr(p, "structural", []) or []) + [teardown_reads_only_what_every_object_has]
    return p
