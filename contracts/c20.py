"""C20 - tracked temporary resources are deleted exactly when their last user is gone.

resource_tracker.main is verified whole: the request loop carries an inductive invariant (every stored count >= 1)
plus a per-request transition clause `step` (what one arbitrary line may do to the registry and which clean-ups it
may trigger); the final clean-up after EOF is verified with loop contracts on the nested _unlink_resources.
"""
import z3

from pyvc import ops
from pyvc.contracts import Contract, Loop
from pyvc.interp import BUILTIN_EXC, PyRaise
from pyvc.pack import Pack
from pyvc.values import (
    BOOL, BYTES, INT, STR, DictOf, Kind, ObjOf, OneOf, Opaque, OpaqueOf, Opt, PyDict, PyList, SDict, SExc, Sym,
    Unsupported, kind_of, to_term,
)

from .common import install_common

RT = "joblib/externals/loky/backend/resource_tracker.py"
MR = "joblib/_memmapping_reducer.py"
TYPES = ("folder", "file", "semlock")


def _Fn(fn):
    return Opaque("fn", None, fn=fn)


class RegistryKind(Kind):
    name = "Registry"

    def fresh(self, ctx, hint="registry"):
        return PyDict({t: DictOf(STR, INT).fresh(ctx, "%s.%s" % (hint, t)) for t in TYPES})


def iter_view(ctx, d):
    """Ghost enumeration of an SDict: (n, key(i)) covering exactly its domain, each key once."""
    gk = "iter:%s" % d.dom
    if gk in ctx.ghost:
        return ctx.ghost[gk]
    base = ctx.fresh_name("it")
    n = z3.Int(base + ".n")
    key = z3.Function(base + ".key", z3.IntSort(), d.k.sort())
    idx = z3.Function(base + ".idx", d.k.sort(), z3.IntSort())
    i = z3.Int("i!it")
    k = z3.Const("k!it", d.k.sort())
    ctx.assume(n >= 0)
    ctx.assume(z3.ForAll([i], z3.Implies(z3.And(0 <= i, i < n), z3.And(z3.Select(d.dom, key(i)), idx(key(i)) == i)), patterns=[key(i)]))
    ctx.assume(z3.ForAll([k], z3.Implies(z3.Select(d.dom, k), z3.And(0 <= idx(k), idx(k) < n, key(idx(k)) == k)), patterns=[idx(k)]))
    ctx.ghost[gk] = (n, key)
    return n, key


GROUP_SIGNALS = ("SIGINT", "SIGTERM", "SIGHUP")


def build():
    p = Pack("C20", files=[RT, MR])
    install_common(p)
    p.models["fn.__call__"] = lambda interp, fv, args, kwargs: fv.attrs["fn"](interp, args, kwargs)
    # the tracker process inherits the warning filters of its parent (python -W error, PYTHONWARNINGS=error): warnings.warn may raise
    p.raising_log_calls = {"warnings.warn"}
    p.log_calls.update({"util.log_to_stderr", "signal.pthread_sigmask", "f.close", "traceback.print_tb"})
    p.models["sys.exc_info"] = lambda i, *a: (None, None, None)

    def excepthook(interp, *a):
        if interp.ctx.choose(2, "excepthook-raises") == 1:
            interp.raise_("RuntimeError")
        return None

    p.models["sys.excepthook"] = excepthook

    # ---- the pipe: readline returns b"" exactly at EOF (all clients gone), else one whole line of arbitrary bytes
    def readline(interp, recv, args, kwargs):
        ctx = interp.ctx
        g = ctx.ghost
        env_reg = g["REG_LIVE"]()
        # snapshot for the per-request transition clause
        g["REG0"] = {t: env_reg.d[t].clone() for t in TYPES} if all(isinstance(env_reg.d[t], SDict) for t in TYPES) else None
        g["EV0"] = len(ctx.events)
        g["PARSED"] = None
        if not g.get("SERVING"):
            # the tracker lives in the process group of its clients: before it serves the first request it must be deaf to every signal
            # that a terminal, a session or a service manager sends to the whole group to end the clients (Ctrl-C, kill, hang-up) -
            # otherwise it dies together with them and what is registered stays behind for good (C20 "... or by being killed")
            g["SERVING"] = True
            ign = g.get("IGNORED", set())
            for sig in GROUP_SIGNALS:
                ctx.check("main/deaf-to-%s-before-serving" % sig, sig in ign)
        if ctx.choose(2, "readline-eof") == 1:
            g["EOF"] = True
            return b""
        line = BYTES.fresh(ctx, "line")
        ctx.assume(z3.Length(line.term) > 0)
        return line

    p.models["pipe.readline"] = readline
    p.models["builtin:open"] = lambda i, a, k: Opaque("pipe", None)
    p.assume_note("the kernel delivers EOF on the tracker pipe exactly when the last client closed it or died; lines arrive whole (PIPE_BUF)")

    # ---- parsing:  line.strip().decode('ascii').split(':')  (string library, abstracted)
    p.models["Bytes.strip"] = lambda i, r, a, k: BYTES.fresh(i.ctx, "stripped")

    def decode(interp, recv, args, kwargs):
        if interp.ctx.choose(2, "decode-fails") == 1:
            raise PyRaise(SExc(BUILTIN_EXC["UnicodeDecodeError"], ()))
        return STR.fresh(interp.ctx, "text")

    p.models["Bytes.decode"] = decode

    def split(interp, recv, args, kwargs):
        ctx = interp.ctx
        if ctx.choose(2, "split-single") == 1:
            cmd = STR.fresh(ctx, "cmd")
            o = Opaque("splitted", None, first=cmd, last=cmd, middle="")
        else:
            o = Opaque("splitted", None, first=STR.fresh(ctx, "cmd"), last=STR.fresh(ctx, "rtype"), middle=STR.fresh(ctx, "name"))
        ctx.ghost["PARSED"] = (o.attrs["first"], o.attrs["middle"], o.attrs["last"])
        return o

    p.models["Str.split"] = split
    p.assume_note("text.split(':') has >= 1 parts; ':'.join(parts[1:-1]) is an arbitrary string (the empty one when there is a single part)")

    def splitted_getitem(interp, recv, idx):
        if idx == 0:
            return recv.attrs["first"]
        if idx == -1:
            return recv.attrs["last"]
        raise Unsupported("splitted[%r]" % (idx,))

    p.models["getitem:splitted"] = splitted_getitem

    def splitted_slice(interp, recv, lo, hi):
        if lo == 1 and hi == -1:
            return Opaque("splitted_mid", None, middle=recv.attrs["middle"])
        raise Unsupported("splitted[%r:%r]" % (lo, hi))

    p.models["slice:splitted"] = splitted_slice

    def join(interp, sep, src):
        if isinstance(src, Opaque) and src.tag == "splitted_mid":
            return src.attrs["middle"]
        raise Unsupported("join %r" % (src,))

    p.models["join"] = join

    # ---- clean-up functions: recorded, may raise any Exception
    def cleanup(rtype):
        def h(interp, args, kwargs):
            ctx = interp.ctx
            g = ctx.ghost
            ctx.events.append(("cleanup", rtype, args[0]))
            if g.get("FINAL"):
                # folders are cleaned after every other resource type
                ctx.check("main/final.folders-last", not (rtype != "folder" and g.get("FOLDER_STARTED", False)))
                if rtype == "folder":
                    g["FOLDER_STARTED"] = True
                g["CALLS"] = Sym(INT, ops.as_int_term(g["CALLS"]) + 1)
                g["LASTN"] = args[0]
                g["LASTT"] = rtype
            if ctx.choose(2, "cleanup-raises") == 1:
                interp.raise_("OSError")
            return None
        return h

    CLEAN = PyDict({t: _Fn(cleanup(t)) for t in TYPES})
    p.assume_note("_CLEANUP_FUNCS = {folder, file, semlock} (posix); each clean-up function is external and may raise any Exception")

    # ---- spec helpers --------------------------------------------------------------------------
    def counts_ok(interp, reg):
        ts = []
        for t in TYPES:
            d = reg.d[t]
            if isinstance(d, PyDict):
                ts.append(all_ge1_concrete(d))
                continue
            k = z3.Const("k!ok", d.k.sort())
            ts.append(z3.ForAll([k], z3.Implies(z3.Select(d.dom, k), z3.Select(d.arr, k) >= 1)))
        return ops.mk_bool(ops.b_and(*ts))

    def all_ge1_concrete(d):
        return ops.b_and(*[ops.compare(__import__("ast").GtE(), v, 1) for v in d.d.values()])

    p.spec_funcs["counts_ok"] = counts_ok

    def step_ok(interp, reg):
        """Transition clause for the request just processed (True before the first request)."""
        ctx = interp.ctx
        g = ctx.ghost
        r0 = g.get("REG0")
        if r0 is None:
            return True
        evs = ctx.events[g["EV0"]:]
        cleanups = [e for e in evs if e[0] == "cleanup"]
        parsed = g.get("PARSED")

        def unchanged(skip=None):
            return ops.b_and(*[z3.And(reg.d[t].dom == r0[t].dom, reg.d[t].arr == r0[t].arr) for t in TYPES if t != skip])

        if parsed is None:
            return ops.mk_bool(ops.b_and(unchanged(), len(cleanups) == 0))
        cmd, name, rtype = (to_term(x) for x in parsed)
        known_type = z3.Or(*[rtype == z3.StringVal(t) for t in TYPES])
        out = []
        # anything that is not one of the three commands on a known type: nothing happens
        inert = z3.Or(cmd == z3.StringVal("PROBE"), z3.Not(known_type),
                      z3.Not(z3.Or(cmd == z3.StringVal("REGISTER"), cmd == z3.StringVal("UNREGISTER"), cmd == z3.StringVal("MAYBE_UNLINK"))))
        out.append(z3.Implies(inert, ops.b_and(unchanged(), len(cleanups) == 0)))
        for t in TYPES:
            here = rtype == z3.StringVal(t)
            d0, d1 = r0[t], reg.d[t]
            present = z3.Select(d0.dom, name)
            c0 = z3.Select(d0.arr, name)
            others = unchanged(skip=t)
            nocl = len(cleanups) == 0
            # REGISTER: count + 1 (or 1), never deletes
            reg_new = z3.And(d1.dom == z3.Store(d0.dom, name, True), d1.arr == z3.Store(d0.arr, name, z3.If(present, c0 + 1, 1)))
            out.append(z3.Implies(z3.And(here, cmd == z3.StringVal("REGISTER")), ops.b_and(reg_new, others, nocl)))
            # UNREGISTER: forget without deleting; unknown name: nothing
            unreg = z3.If(present, z3.And(d1.dom == z3.Store(d0.dom, name, False), d1.arr == d0.arr), z3.And(d1.dom == d0.dom, d1.arr == d0.arr))
            out.append(z3.Implies(z3.And(here, cmd == z3.StringVal("UNREGISTER")), ops.b_and(unreg, others, nocl)))
            # MAYBE_UNLINK: decrement; clean up exactly when the count returns to zero; unknown name: nothing at all
            one_cleanup = len(cleanups) == 1 and cleanups[0][1] == t
            same_name = (to_term(cleanups[0][2]) == name) if len(cleanups) == 1 else True
            last_user = z3.And(present, c0 == 1)
            mu = z3.If(
                z3.Not(present), ops.b_and(d1.dom == d0.dom, d1.arr == d0.arr, nocl),
                z3.If(c0 == 1,
                      ops.b_and(d1.dom == z3.Store(d0.dom, name, False), one_cleanup, same_name),
                      ops.b_and(d1.dom == d0.dom, d1.arr == z3.Store(d0.arr, name, c0 - 1), nocl)))
            out.append(z3.Implies(z3.And(here, cmd == z3.StringVal("MAYBE_UNLINK")), ops.b_and(mu, others)))
        return ops.mk_bool(ops.b_and(*out))

    p.spec_funcs["step_ok"] = step_ok

    def main_setup(interp, env):
        g = interp.ctx.ghost
        g["REG_LIVE"] = lambda: env.lookup("registry") if env.has("registry") else PyDict({})
        g["CALLS"] = 0
        g["LASTN"] = ""
        g["LASTT"] = ""
        g["EOF"] = False

    # final clean-up bookkeeping: entering the `finally` block switches the clean-up model to counting mode
    def unlink_pre(interp, args, kwargs):
        raise Unsupported("not used")

    p.spec_funcs["size_of"] = lambda interp, d: Sym(INT, iter_view(interp.ctx, d)[0]) if isinstance(d, SDict) else len(d.d)
    p.spec_funcs["key_at"] = lambda interp, d, i: Sym(STR, iter_view(interp.ctx, d)[1](ops.as_int_term(i)))

    def for_sdict(interp, it, node):
        n, key = iter_view(interp.ctx, it)
        return n, (lambda i: Sym(it.k, key(i)))

    orig_for_sequence = p.for_sequence

    def for_sequence(interp, it, node):
        if isinstance(it, SDict):
            interp.ctx.ghost["FINAL"] = True
            interp.ctx.ghost["BASE"] = interp.ctx.ghost["CALLS"]
            return for_sdict(interp, it, node)
        return orig_for_sequence(interp, it, node)

    p.for_sequence = for_sequence
    p.models["truth:SDict"] = lambda interp, d: iter_view(interp.ctx, d)[0] > 0

    def signal_signal(interp, args, kwargs):
        sig, handler = args
        if not (isinstance(sig, str) and isinstance(handler, str)):
            raise Unsupported("signal.signal(%r, %r)" % (sig, handler))
        ign = interp.ctx.ghost.setdefault("IGNORED", set())
        (ign.add if handler == "SIG_IGN" else ign.discard)(sig)
        return "SIG_DFL"

    SIGNAL = Opaque("signalmod", None, SIG_IGN="SIG_IGN", SIG_DFL="SIG_DFL", SIG_BLOCK=0, SIG_UNBLOCK=1, hasattr={"SIGHUP": True, "SIGQUIT": True},
                    **{n: n for n in ("SIGINT", "SIGTERM", "SIGHUP", "SIGQUIT", "SIGUSR1", "SIGUSR2", "SIGPIPE", "SIGALRM")})
    p.add(Contract(
        RT, "main", props=["C20"],
        params=dict(fd=INT, verbose=OneOf(0, 1)),
        calls={"signal.signal": signal_signal},
        globals={"signal": SIGNAL, "_CLEANUP_FUNCS": CLEAN, "_HAVE_SIGMASK": True, "sys": lambda i: Opaque("sys", None, platform="linux", stdin=Opaque("stdio", None), stdout=Opaque("stdio", None))},
        setup=main_setup,
        ensures={
            # after EOF every name still registered was handed to its clean-up function exactly once
            "all_leftovers_cleaned_once": "CALLS == size_of(registry['file']) + size_of(registry['semlock']) + size_of(registry['folder'])",
            "reached_eof": "EOF is True",
        },
        loops={
            2: Loop(
                "while True",
                invariant={"counts_at_least_one": "counts_ok(registry)", "step": "step_ok(registry)"},
                kinds={"registry": RegistryKind(), "line": BYTES, "splitted": OpaqueOf("splitted_any"), "cmd": STR, "name": STR, "rtype": STR},
            ),
            "_unlink_resources#1": Loop(
                "for name in rtype_registry",
                invariant={"one_call_per_name": "CALLS == BASE + _i",
                           "right_name": "implies(_i > 0, LASTN == key_at(rtype_registry, _i - 1) and LASTT == rtype)"},
                havoc=["ghost:CALLS", "ghost:LASTN", "ghost:LASTT"],
            ),
        },
    ))
    # ---- client side of the protocol: a request is one line "CMD:name:rtype\n" on the pipe.  The tracker reads LINES: a name holding a
    # newline would arrive as two requests - the registered name is never tracked and the text after the newline is executed as a request
    # of its own (REGISTER:<any path>: that path is deleted when the client exits).  "Malformed requests never make it delete a path that
    # was not registered": what is written to the pipe for one call must be exactly one line.  The writer (_send) is inherited from
    # multiprocessing.resource_tracker unless the class overrides it.
    import ast as _ast
    from pyvc.contracts import SourceModule as _SM
    rt_cls = _SM.get(RT).classes.get("ResourceTracker")
    own_send = rt_cls is not None and any(isinstance(n, _ast.FunctionDef) and n.name == "_send" for n in rt_cls.body)

    def pipe_send(interp, recv, args, kwargs):
        cmd, name, rtype = args
        interp.ctx.check("%s/call._send.requires.one-request-is-one-line" % interp.contract.qualname, z3.Not(z3.Contains(to_term(name), z3.StringVal("\n"))),
                         detail="the name is written verbatim into the line-based request pipe: with a newline in it the tracker reads two requests")
        interp.ctx.events.append(("sent", cmd, name, rtype))
        return None

    p.models["super._send" if own_send else "ResourceTracker._send"] = pipe_send
    p.models["ResourceTracker.ensure_running"] = lambda i, r, a, k: None
    p.spec_funcs["one_line"] = lambda interp, s_: ops.mk_bool(z3.Not(z3.Contains(to_term(s_), z3.StringVal("\n"))))
    p.spec_funcs["sent"] = lambda interp: tuple(e for e in interp.ctx.events if e[0] == "sent")
    p.add(Contract(
        RT, "ResourceTracker.maybe_unlink", props=["C20"], inline=({"_send"} if own_send else set()),
        params=dict(self=ObjOf("ResourceTracker"), name=STR, rtype=OneOf("file", "folder")),
        ensures={},
        ensures_body={"exactly_this_request_is_sent": "len(sent()) == 1 and sent()[0][1] == 'MAYBE_UNLINK' and sent()[0][2] is name and sent()[0][3] is rtype"},
        exsures={"ValueError": {"only_for_a_name_that_does_not_fit_on_one_line": "not one_line(name)", "nothing_was_sent": "len(sent()) == 0"}},
    ))

    # ---- unlink_file: bounded retry loop (range(1, 11) is concrete: the loop is unrolled completely, every outcome sequence)
    def os_unlink(interp, args, kwargs):
        interp.ctx.events.append(("os.unlink", args[0]))
        k = interp.ctx.choose(3, "unlink-outcome")
        if k == 1:
            interp.raise_("PermissionError")
        if k == 2:
            interp.raise_("FileNotFoundError")
        return None

    p.models["os.unlink"] = os_unlink
    p.spec_funcs["n_events"] = lambda interp, name: sum(1 for e in interp.ctx.events if e[0] == name)
    p.add(Contract(
        MR, "unlink_file", props=["C20"],
        params=dict(filename=STR),
        ensures={"at_most_ten_attempts": "1 <= n_events('os.unlink') and n_events('os.unlink') <= 10"},
        exsures={"PermissionError": {"only_after_ten_attempts": "n_events('os.unlink') == 10"}},
    ))
    return p
