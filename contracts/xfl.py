"""memory.extract_first_line under contract (C05, C12, C02): the reader of func_code.py.

The mem pack uses this function through the summary "on a complete file it returns what _write_func_code formatted; on a torn or
garbled file it returns some other text and never raises".  Here the real body is verified against exactly that, for EVERY text:

  totality            no exception escapes, whatever the file contains (a kill can leave any prefix of the file)
  no header           text not starting with FIRST_LINE_TEXT is returned unchanged with line -1
  split at newline 1  with a header, the source is everything after the first newline (nothing when there is none)
  inverse pair        extract_first_line(FIRST_LINE_TEXT + str(n) + "\n" + src) == (src, n)      [the format _write_func_code writes]

String model (z3 sequences, cvc5 as second opinion): s.split("\n") is kept as a view of s - parts[0] is HEAD(s), s up to its first newline (all of s
if there is none), "\n".join(parts[1:]) is TAIL(s), what follows that newline (uninterpreted, with the defining facts S1-S3 given as instances); s.split("\n", 1) unpacked into two names raises ValueError when s
has no newline.  Other uses of the parts are outside the model (Unsupported -> UNDECIDED).  Assumed about Python: int(' ' + str(n)) == n for
n >= 0 (surrounding blanks are ignored), str(n) has no newline, int(s) raises only ValueError (dev/libmodels.py exercises these).
"""
import z3

from pyvc import ops
from pyvc.contracts import Contract
from pyvc.pack import Pack
from pyvc.values import INT, STR, Opaque, PyList, Sym, Unsupported, kind_of

from .common import install_common

MEM = "joblib/memory.py"
NL = z3.StringVal("\n")


def build():
    p = Pack("XFL", files=[MEM])
    install_common(p)

    # HEAD(s) / TAIL(s): s up to its first newline / what follows it.  Specification of str.split("\n") used by instances only:
    #   (S1) "\n" not in s            =>  HEAD(s) == s and TAIL(s) == ""
    #   (S2) "\n" in s                =>  s == HEAD(s) + "\n" + TAIL(s) and "\n" not in HEAD(s)
    #   (S3) s == x + "\n" + y, "\n" not in x   =>  HEAD(s) == x and TAIL(s) == y          (uniqueness of the first newline)
    HEAD = z3.Function("HEAD", z3.StringSort(), z3.StringSort())
    TAIL = z3.Function("TAIL", z3.StringSort(), z3.StringSort())

    def head(t):
        return HEAD(t)

    def tail(t):
        return TAIL(t)

    def has_nl(t):
        return z3.Contains(t, NL)

    def split_axioms(ctx, t):
        ctx.assume(z3.Implies(z3.Not(has_nl(t)), z3.And(HEAD(t) == t, TAIL(t) == z3.StringVal(""))))
        ctx.assume(z3.Implies(has_nl(t), z3.And(t == z3.Concat(HEAD(t), NL, TAIL(t)), z3.Not(has_nl(HEAD(t))))))

    def split(interp, recv, args, kwargs):
        if not (args and isinstance(args[0], str) and args[0] == "\n"):
            raise Unsupported("str.split with a separator other than '\\n'")
        maxsplit = args[1] if len(args) > 1 else kwargs.get("maxsplit", -1)
        if not isinstance(maxsplit, int):
            raise Unsupported("str.split with a symbolic maxsplit")
        split_axioms(interp.ctx, ops.to_term(recv))
        return Opaque("splitparts", None, s=recv, maxsplit=maxsplit)

    p.models["Str.split"] = split

    def parts_getitem(interp, recv, idx):
        if idx == 0:
            return Sym(STR, head(ops.to_term(recv.attrs["s"])))
        raise Unsupported("element %r of the parts of str.split" % (idx,))

    p.models["getitem:splitparts"] = parts_getitem

    def parts_slice(interp, recv, lo, hi):
        if lo == 1 and hi is None:
            return Opaque("splitrest", None, s=recv.attrs["s"])
        raise Unsupported("slice [%r:%r] of the parts of str.split" % (lo, hi))

    p.models["slice:splitparts"] = parts_slice

    def join(interp, sep, src):
        if isinstance(src, Opaque) and src.tag == "splitrest" and sep == "\n":
            return Sym(STR, tail(ops.to_term(src.attrs["s"])))
        raise Unsupported("join over %r" % (src,))

    p.models["join"] = join

    def parts_unpack(interp, v, n):
        t = ops.to_term(v.attrs["s"])
        if v.attrs["maxsplit"] == 1 and n == 2:
            if interp.ctx.branch(z3.Not(has_nl(t)), "split:no-newline"):
                interp.raise_("ValueError")  # not enough values to unpack
            return [Sym(STR, head(t)), Sym(STR, tail(t))]
        raise Unsupported("unpacking the parts of str.split(maxsplit=%r) into %d names" % (v.attrs["maxsplit"], n))

    p.models["unpack:splitparts"] = parts_unpack

    # int(s): the decoded number or ValueError;  str(n) / "%i" % n: DEC(n)
    ISINT = z3.Function("ISINT", z3.StringSort(), z3.BoolSort())
    INTVAL = z3.Function("INTVAL", z3.StringSort(), z3.IntSort())
    DEC = z3.Function("DEC", z3.IntSort(), z3.StringSort())

    def int_of_str(interp, v):
        t = ops.to_term(v)
        if not interp.ctx.branch(ISINT(t), "int-literal"):
            interp.raise_("ValueError")
        return Sym(INT, INTVAL(t))

    p.models["int:str"] = int_of_str
    p.spec_funcs["after_first_newline"] = lambda interp, s: Sym(STR, tail(ops.to_term(s)))
    p.spec_funcs["has_newline"] = lambda interp, s: ops.mk_bool(has_nl(ops.to_term(s)))
    p.spec_funcs["formatted"] = lambda interp, n, src: Sym(STR, z3.Concat(z3.StringVal("# first line: "), DEC(ops.as_int_term(n)), NL, ops.to_term(src)))

    # ---- every text: totality, no header, split at the first newline
    p.add(Contract(
        MEM, "extract_first_line", props=["C05", "C12", "C02"],
        globals={"FIRST_LINE_TEXT": "# first line:"},
        params=dict(func_code=STR),
        ensures={
            "no_header_means_unchanged": "implies(not func_code.startswith('# first line:'), result[0] == func_code and result[1] == -1)",
            "source_is_what_follows_the_first_newline": "implies(func_code.startswith('# first line:'), result[0] == after_first_newline(func_code))",
        },
        # no exsures: a torn file must not make the reader raise
    ))

    # ---- the text _write_func_code writes: "# first line: <digits>\n<source>" - read back exactly (inverse pair)
    def written(interp):
        ctx = interp.ctx
        d, src, n = STR.fresh(ctx, "DIGITS"), STR.fresh(ctx, "SRC"), INT.fresh(ctx, "N")
        sp = z3.Concat(z3.StringVal(" "), d.term)
        # assumed about Python's "%i" / int(): the digits of n >= 0 contain no newline and int(" " + digits) == n (blanks are ignored)
        ctx.assume(z3.And(n.term >= 0, z3.Length(d.term) >= 1, z3.Not(z3.Contains(d.term, NL)), ISINT(sp), INTVAL(sp) == n.term))
        a = z3.Concat(z3.StringVal("# first line: "), d.term)
        text = z3.Concat(a, NL, src.term)
        # instance of (S3) with x = "# first line: <digits>", y = SRC
        ctx.assume(z3.And(HEAD(text) == a, TAIL(text) == src.term))
        ctx.ghost["N"], ctx.ghost["SRC"] = n, src
        return Sym(STR, text)

    p.add(Contract(
        MEM, "extract_first_line", variant="written-format", props=["C05", "C12", "C02"],
        globals={"FIRST_LINE_TEXT": "# first line:"},
        params=dict(func_code=written),
        ensures={"inverse_of_the_written_format_source": "result[0] == SRC", "inverse_of_the_written_format_line": "result[1] == N"},
    ))
    p.assume_note("extract_first_line: str.split('\\n') modelled as a view (first part / the rest); int(str(n)) == n, str(n) without newline, int(s) raises only ValueError (assumed, exercised natively); one instance of the sequence lemma 'the first newline of a + \"\\n\" + b, a without newline, is at len(a)' is given to the solver")
    return p
