"""C20, client side: the request sequences joblib itself sends to the resource tracker (TemporaryResourcesManager).

The tracker's response to ARBITRARY request sequences is proved in contracts/c20.py.  Here: the manager registers the folder of a
context exactly once, asks for every file of a folder exactly once when the context is cleaned (UNREGISTER when forcing, MAYBE_UNLINK
otherwise), and un-registers a folder only after having deleted it.  Balance ACROSS cleanings of one context does not hold: the obligation
`own-reference-given-back-at-most-once` fails (recorded finding K34: a re-used Parallel object cleans the same context after every call).
Shape-bounded: two concrete context ids; the number of files in a folder is unbounded (loop invariant over os.listdir).
"""
import z3

from pyvc import ops
from pyvc.contracts import Contract, Loop
from pyvc.pack import Pack
from pyvc.values import BOOL, INT, STR, ListOf, ObjOf, OneOf, Opaque, OpaqueOf, PyDict, Sym

from .common import install_common

MR = "joblib/_memmapping_reducer.py"


def _Fn(fn):
    return Opaque("fn", None, fn=fn)


def build():
    p = Pack("C20B", files=[MR])
    install_common(p)
    p.models["fn.__call__"] = lambda interp, fv, args, kwargs: fv.attrs["fn"](interp, args, kwargs)
    p.log_calls.update({"warnings.warn"})

    def req(kind):
        def h(interp, recv, args, kwargs):
            ctx = interp.ctx
            ctx.events.append((kind, args[0], args[1]))
            key = "N_%s_%s" % (kind.upper(), args[1])
            if key in ctx.ghost:
                ctx.ghost[key] = Sym(INT, ops.as_int_term(ctx.ghost[key]) + 1)
            return None
        return h

    for kind in ("register", "unregister", "maybe_unlink"):
        p.models["trackermod." + kind] = req(kind)

    # The manager holds ONE reference to each file it created (the REGISTER sent when the array was dumped); a balanced client gives it back
    # once.  RELEASED_BEFORE(name): an earlier cleaning of this context already sent MAYBE_UNLINK for that file - which may still exist,
    # kept alive by the reference of a worker (os.listdir is arbitrary).
    RELEASED = z3.Function("RELEASED_BEFORE", z3.StringSort(), z3.BoolSort())
    plain_maybe_unlink = p.models["trackermod.maybe_unlink"]

    def maybe_unlink(interp, recv, args, kwargs):
        if args[1] == "file" and isinstance(args[0], Opaque) and args[0].tag == "path":
            fname = args[0].attrs["parts"][-1]
            interp.ctx.check("%s/call.maybe_unlink.requires.own-reference-given-back-at-most-once" % interp.contract.qualname,
                             z3.Not(RELEASED(ops.to_term(fname))),
                             detail="the manager decrements a file whose reference it already gave back at the end of an earlier call of the same Parallel object (the file still exists: a worker holds it)")
        return plain_maybe_unlink(interp, recv, args, kwargs)

    p.models["trackermod.maybe_unlink"] = maybe_unlink
    p.models["os.getpid"] = lambda i, a, k: 4242
    p.models["Str.format"] = lambda i, r, a, k: Opaque("foldername", None, parts=tuple(a))
    p.models["os.path.join"] = lambda i, a, k: Opaque("path", None, parts=tuple(a))
    p.models["os.path.exists"] = lambda i, a, k: BOOL.fresh(i.ctx, "exists")
    p.models["os.listdir"] = lambda i, a, k: ListOf(STR).fresh(i.ctx, "files")
    p.models["atexit.register"] = lambda i, a, k: (i.ctx.events.append(("atexit.register", a[0])), Opaque("finalizer", None, of=a[0]))[1]
    p.models["atexit.unregister"] = lambda i, a, k: i.ctx.events.append(("atexit.unregister", a[0]))
    p.models["builtin:list"] = (lambda orig: (lambda i, a, k: orig(i, a, k)))(p.models["builtin:list"])

    def get_temp_dir(interp, args, kwargs):
        return (Opaque("folderpath", None, fname=args[0], root=args[1] if len(args) > 1 else None), BOOL.fresh(interp.ctx, "shared"))

    def delete_folder(interp, args, kwargs):
        interp.ctx.events.append(("delete_folder", args[0], kwargs.get("allow_non_empty")))
        if interp.ctx.choose(2, "delete_folder:fails") == 1:
            interp.raise_("OSError")
        return None

    glob = {
        "resource_tracker": lambda interp: Opaque("trackermod", None),
        "_get_temp_dir": lambda interp: _Fn(get_temp_dir),
        "delete_folder": lambda interp: _Fn(delete_folder),
        "whichmodule": lambda interp: _Fn(lambda i, a, k: "joblib.disk"),
    }
    p.spec_funcs["n_events"] = lambda interp, name: sum(1 for e in interp.ctx.events if e[0] == name)
    p.spec_funcs["ev_named"] = lambda interp, name: __import__("pyvc.values", fromlist=["PyList"]).PyList([e for e in interp.ctx.events if e[0] == name])
    p.spec_funcs["is_tag"] = lambda interp, o, tag: isinstance(o, Opaque) and o.tag == tag
    p.spec_funcs["names_context"] = lambda interp, path, cid: isinstance(path, Opaque) and path.tag == "folderpath" and cid in path.attrs["fname"].attrs["parts"]
    p.spec_funcs["names_manager"] = lambda interp, path, me: isinstance(path, Opaque) and path.tag == "folderpath" and any(x is me.fields["_id"] for x in path.attrs["fname"].attrs["parts"])

    def manager(known):
        def mk(interp):
            cached = {}
            fin = {}
            if known:
                cached["ctxA"] = Opaque("folderpath", None, fname=Opaque("foldername", None, parts=("old",)), root=None)
                fin["ctxA"] = Opaque("finalizer", None, of=None)
            return ObjOf("TemporaryResourcesManager", _cached_temp_folders=PyDict(cached), _finalizers=PyDict(fin), _id=STR, _temp_folder_root=OneOf(None, STR),
                         _current_context_id=STR).fresh(interp.ctx, "self")
        return mk

    for known in (False, True):
        p.add(Contract(
            MR, "TemporaryResourcesManager.register_new_context", variant="known-context" if known else "new-context", props=["C20"], globals=glob,
            inline={"register_folder_finalizer"},
            params=dict(self=manager(known), context_id="ctxA"),
            ensures_body=({"a_known_context_sends_nothing": "n_events('register') == 0 and n_events('atexit.register') == 0"} if known else
                          {"registers_its_folder_exactly_once": "n_events('register') == 1 and ev_named('register')[0][2] == 'folder' and ev_named('register')[0][1] is self._cached_temp_folders['ctxA']",
                           "one_exit_finalizer_per_context": "n_events('atexit.register') == 1 and is_tag(self._finalizers['ctxA'], 'finalizer')",
                           "folder_name_is_specific_to_process_manager_and_context": "names_context(self._cached_temp_folders['ctxA'], 'ctxA') and names_manager(self._cached_temp_folders['ctxA'], self)"}),
            ensures={},
        ))

    # ---- cleaning one context: one request per file, folder un-registered only once it is deleted
    GH = dict(N_UNREGISTER_file=INT, N_MAYBE_UNLINK_file=INT, N_UNREGISTER_folder=INT)

    def clean_setup(interp, env):
        g = interp.ctx.ghost
        interp.ctx.assume(z3.And(*[ops.as_int_term(g[k]) == 0 for k in GH]))

    p.add(Contract(
        MR, "TemporaryResourcesManager._clean_temporary_resources", variant="one-context", props=["C20"], globals=glob, ghost=GH, setup=clean_setup,
        params=dict(self=manager(True), context_id=OneOf("ctxA", "ctxB"), force=OneOf(False, True), allow_non_empty=OneOf(False, True)),
        ensures={
            "unknown_context_or_missing_folder_sends_nothing": "implies(n_events('delete_folder') == 0, N_UNREGISTER_file == 0 and N_MAYBE_UNLINK_file == 0 and N_UNREGISTER_folder == 0)",
            "forced_cleaning_only_unregisters_files": "implies(force, N_MAYBE_UNLINK_file == 0)",
            "normal_cleaning_only_decrements_files": "implies(not force, N_UNREGISTER_file == 0)",
            "folder_unregistered_at_most_once": "N_UNREGISTER_folder <= 1",
        },
        ensures_body={
            "folder_unregistered_iff_deleted": "(N_UNREGISTER_folder == 1) == (n_events('delete_folder') == 1 and 'ctxA' not in self._cached_temp_folders)",
            "deleted_folder_is_forgotten_and_its_finalizer_cancelled": "implies(N_UNREGISTER_folder == 1, 'ctxA' not in self._finalizers and n_events('atexit.unregister') == 1)",
            "undeletable_folder_stays_registered_with_its_finalizer": "implies(n_events('delete_folder') == 1 and N_UNREGISTER_folder == 0, 'ctxA' in self._cached_temp_folders and 'ctxA' in self._finalizers)",
            "forcing_allows_a_non_empty_folder": "implies(n_events('delete_folder') == 1 and force, ev_named('delete_folder')[0][2] is True)",
        },
        loops={2: Loop("for filename in os.listdir(temp_folder)",
                       invariant={"one_request_per_file_so_far": "N_UNREGISTER_file == (_i if force else 0) and N_MAYBE_UNLINK_file == (0 if force else _i)",
                                  "folder_still_registered": "N_UNREGISTER_folder == 0"},
                       havoc=["ghost:N_UNREGISTER_file", "ghost:N_MAYBE_UNLINK_file"])},
    ))
    p.assume_note("client side of C20: os.listdir / os.path.exists / delete_folder are arbitrary (delete_folder may raise OSError); the tracker requests are recorded, "
                  "their effect in the tracker process is the subject of contracts/c20.py; the atexit finalizer body (_cleanup) and the recursion over all contexts are not under contract")
    return p
