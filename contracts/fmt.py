"""func_inspect._format_arg / format_signature / format_call under contract (C06).

The Memory wrapper prints (default verbosity) and records a summary of every call through these helpers, which format the USER's
arguments with pprint - i.e. with the arguments' own __repr__, which may raise anything.  C06 wants every call that the plain function
accepts to be accepted by the wrapper: none of the three may raise, whatever the arguments' __repr__ does.  The mem pack uses
format_signature / format_call through exactly this summary (a string, no exception).

Shape-bounded: format_signature / format_call with two positional and one keyword argument (the loops are over the caller's *args / **kwargs);
_format_arg itself is for every argument.  pformat (joblib.logger -> pprint.pformat) is external: a str, or the exception of a user __repr__.
"""
from pyvc.contracts import Contract
from pyvc.pack import Pack
from pyvc.values import INT, STR, Opaque, PyDict, PyList

from .common import install_common

FI = "joblib/func_inspect.py"


def _Fn(fn):
    return Opaque("fn", None, fn=fn)


def build():
    p = Pack("FMT", files=[FI])
    install_common(p)
    p.models["fn.__call__"] = lambda interp, fv, args, kwargs: fv.attrs["fn"](interp, args, kwargs)

    def pformat(interp, args, kwargs):
        if isinstance(args[0], Opaque) and args[0].tag == "userarg":
            if interp.ctx.choose(2, "user-__repr__-raises") == 1:
                interp.raise_("RuntimeError")
        return text(interp)

    # formatted texts are opaque (their characters do not matter here; a symbolic z3 string of length > 1500 would only cost solver time):
    # len() is some n >= 0, slicing and %-formatting give texts again
    def text(interp):
        return Opaque("text", interp.ctx.fresh_name("text"), isinstance=("str",))

    def text_len(interp, v):
        n = INT.fresh(interp.ctx, "textlen")
        interp.ctx.assume(n.term >= 0)
        return n

    p.models["len:text"] = text_len
    p.models["join"] = lambda i, sep, src: text(i)
    p.models["slice:text"] = lambda i, r, lo, hi: text(i)
    p.models["object.__repr__"] = lambda i, a, k: text(i)  # the default repr of object never raises
    glob = {"pformat": lambda interp: _Fn(pformat),
            "get_func_name": lambda interp: _Fn(lambda i, a, k: (PyList([STR.fresh(i.ctx, "mod")]), STR.fresh(i.ctx, "fname")))}
    userarg = lambda interp: Opaque("userarg", interp.ctx.fresh_name("arg"))

    p.add(Contract(
        FI, "_format_arg", props=["C06"], globals=glob,
        params=dict(arg=userarg),
        returns=lambda interp, env: text(interp),
        ensures={"a_string_whatever_the_arguments_repr_does": "isinstance(result, str)"},
        # no exsures: the __repr__ of a user's argument must not make the cached call fail
    ))
    p.add(Contract(
        FI, "format_signature", variant="two-positional-one-keyword", props=["C06"], globals=glob,
        params=dict(func=lambda i: Opaque("userfunc", None), args=lambda i: (userarg(i), userarg(i)), kwargs=lambda i: PyDict({"kw": userarg(i)})),
        ensures={"two_strings": "isinstance(result[0], str) and isinstance(result[1], str)"},
    ))
    p.add(Contract(
        FI, "format_call", variant="two-positional-one-keyword", props=["C06"], globals=glob,
        inline={"format_signature"},
        params=dict(func=lambda i: Opaque("userfunc", None), args=lambda i: (userarg(i), userarg(i)), kwargs=lambda i: PyDict({"kw": userarg(i)}), object_name="Memory"),
        ensures={"a_string": "isinstance(result, str)"},
    ))
    p.assume_note("pformat (pprint) returns a str or raises what a user's __repr__ raises; object.__repr__ never raises; get_func_name returns (module parts, name)")
    return p
