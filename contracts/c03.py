"""C03 - dump/load round-trip: joblib-owned part = writer/reader FORMAT AGREEMENT.

The table of registered compressors is rebuilt on every run from the real sources (register_compressor calls of
numpy_pickle.py, wrapper classes and prefix / extension constants of compressor.py) by the symbolic interpreter.
Contracts: dump's total decision table (which writer for which compress / target), _write_fileobject,
_detect_compressor (first bytes symbolic), _validate_fileobject_and_memmap, load's dispatch, the wrapper factories.
Structural obligations on the real constants: prefix-freedom and 'no prefix can start a raw pickle'.
Codecs and pickle itself are assumed (their writer output starts with the magic prefix; reader inverts writer).
"""
import ast

import z3

from pyvc import ops
from pyvc.contracts import Contract, Loop, SourceModule
from pyvc.interp import BUILTIN_EXC, PyRaise
from pyvc.pack import Pack
from pyvc.values import (
    BOOL, BYTES, INT, STR, ClassRef, ObjOf, OneOf, Opaque, OpaqueOf, Opt, PyDict, PyList, SExc, SObj, Sym, Unsupported,
    kind_of, to_term,
)

from .common import install_common

NP = "joblib/numpy_pickle.py"
NU = "joblib/numpy_pickle_utils.py"
CP = "joblib/compressor.py"


def _Fn(fn):
    return Opaque("fn", None, fn=fn)


def registrations():
    """(name, wrapper class) pairs read from the register_compressor(...) calls at module level of numpy_pickle.py."""
    mod = SourceModule.get(NP)
    out = []
    for st in mod.tree.body:
        if isinstance(st, ast.Expr) and isinstance(st.value, ast.Call) and ast.unparse(st.value.func) == "register_compressor":
            name = st.value.args[0].value
            cls = st.value.args[1].func.id
            out.append((name, cls))
    return out


def build():
    p = Pack("C03", files=[NP, NU, CP])
    install_common(p)
    p.models["fn.__call__"] = lambda interp, fv, args, kwargs: fv.attrs["fn"](interp, args, kwargs)
    p.models["hasattr:bz2"] = lambda i, n: True
    REG = registrations()
    # adapter classes in front of a caller's file object (plain classes with read() around a `_fileobj`), whatever their name
    ADAPTERS = []
    for mod in (NU, NP):
        for cname, cnode in SourceModule.get(mod).classes.items():
            meths = {n.name for n in cnode.body if isinstance(n, ast.FunctionDef)}
            if {"read", "__init__"} <= meths and not cnode.bases and "_fileobj" in ast.unparse(cnode):
                ADAPTERS.append((mod, cname))

    def factory(kind):
        def h(interp, args, kwargs):
            interp.ctx.events.append(("factory", kind, tuple(args), PyDict(kwargs)))
            return Opaque("codecfile", None, codec=kind, mode=args[1] if len(args) > 1 else None, under=args[0])
        return h

    # codec file classes are externals (or BinaryZlibFile: C13)
    cglob = {
        "bz2": lambda interp: Opaque("mod_bz2", None, BZ2File=_Fn(factory("bz2"))),
        "lzma": lambda interp: Opaque("mod_lzma", None, LZMAFile=_Fn(factory("lzma-module")), FORMAT_ALONE="FORMAT_ALONE", FORMAT_XZ="FORMAT_XZ"),
        "lz4": OneOf(None, OpaqueOf("mod_lz4", __version__="4.0.0")),
        "LZ4FrameFile": lambda interp: _Fn(factory("lz4")),
        "BinaryZlibFile": lambda interp: _Fn(factory("zlib")),
        "BinaryGzipFile": lambda interp: _Fn(factory("gzip")),
        "LooseVersion": lambda interp: _Fn(lambda i, a, k: 19 if a[0] == "0.19" else 400),
    }

    def table(interp):
        d = {}
        saved = interp.contract
        for name, cls in REG:
            obj = SObj(cls, {})
            found = interp.pack.find_attr(cls, "__init__")
            kind, mod, c, n = found
            from pyvc.values import Closure
            from pyvc.interp import Env
            # run the real constructor (inlined) to obtain prefix / extension / factory of the wrapper
            interp.call_closure(Closure(n, Env(mod, owner_cls=c), mod, owner_cls=c), [obj], {})
            obj.fields["_regname"] = name
            d[name] = obj
        return PyDict(d)

    cglob["_COMPRESSORS"] = table
    glob = dict(cglob)
    glob["Path"] = None
    p.assume_note("registered compressors = the register_compressor(...) calls of numpy_pickle.py (plus, variant dump[with-a-user-registered-compressor], one CompressorWrapper(obj, prefix) with the default extension)")
    p.spec_funcs["n_events"] = lambda interp, name: sum(1 for e in interp.ctx.events if e[0] == name)
    p.spec_funcs["ev"] = lambda i, k: i.ctx.events[k] if isinstance(k, int) and 0 <= k < len(i.ctx.events) else ("<none>", None, None, None)
    p.spec_funcs["events_named"] = lambda interp, name: PyList([e for e in interp.ctx.events if e[0] == name])
    p.spec_funcs["is_tag"] = lambda interp, o, tag: isinstance(o, Opaque) and o.tag == tag
    EXT = {".z": "zlib", ".gz": "gzip", ".bz2": "bz2", ".lzma": "lzma", ".xz": "xz", ".lz4": "lz4"}
    p.spec_funcs["ext_method"] = lambda interp, fn: next((m for e, m in EXT.items() if isinstance(fn, str) and fn.endswith(e)), None)

    # ------------------------------------------------------------------ wrapper factories
    for cls, codec in (("CompressorWrapper", "zlib"), ("BZ2CompressorWrapper", "bz2"), ("LZMACompressorWrapper", "lzma-module"), ("LZ4CompressorWrapper", "lz4")):
        fields = dict(fileobj_factory=lambda i, c=codec: _Fn(factory(c)), prefix=BYTES, extension=STR)
        if cls == "LZMACompressorWrapper":
            fields["_lzma_format"] = "FORMAT_ALONE"
        kwname = {"CompressorWrapper": "compresslevel", "BZ2CompressorWrapper": "compresslevel", "LZMACompressorWrapper": "preset", "LZ4CompressorWrapper": "compression_level"}[cls]
        p.add(Contract(
            CP, cls + ".compressor_file", props=["C03"], globals=cglob, inline={"_check_versions"},
            params=dict(self=ObjOf(cls, **fields), fileobj=OpaqueOf("target"), compresslevel=Opt(INT)),
            ensures={"opens_one_writer_on_the_target": "n_events('factory') == 1 and ev(0)[2][0] is fileobj and ev(0)[2][1] == 'wb'",
                     "level_passed_through": "implies(compresslevel is not None, ev(0)[3]['%s'] is compresslevel)" % kwname,
                     "default_level_when_none": "implies(compresslevel is None, '%s' not in ev(0)[3])" % kwname},
            exsures={"ValueError": {"only_lz4_missing": "%s" % ("lz4 is None" if cls == "LZ4CompressorWrapper" else "False")}},
        ))
        p.add(Contract(
            CP, cls + ".decompressor_file", props=["C03"], globals=cglob, inline={"_check_versions"},
            params=dict(self=ObjOf(cls, **fields), fileobj=OpaqueOf("target")),
            ensures={"opens_one_reader_on_the_source": "n_events('factory') == 1 and ev(0)[2][0] is fileobj and ev(0)[2][1] == 'rb'"},
            exsures={"ValueError": {"only_lz4_missing": "%s" % ("lz4 is None" if cls == "LZ4CompressorWrapper" else "False")}},
        ))

    # ------------------------------------------------------------------ _write_fileobject
    def comp_file(interp, recv, args, kwargs):
        interp.ctx.events.append(("compressor_file", recv.fields["_regname"], args[0], kwargs.get("compresslevel", args[1] if len(args) > 1 else None)))
        return Opaque("codecfile", None, codec=recv.fields["_regname"], under=args[0])

    def decomp_file(interp, recv, args, kwargs):
        interp.ctx.events.append(("decompressor_file", recv.fields["_regname"], args[0]))
        return Opaque("codecfile", None, codec=recv.fields["_regname"], under=args[0])

    for cls in {c for _, c in REG} | {"CompressorWrapper"}:
        p.models[cls + ".compressor_file"] = comp_file
        p.models[cls + ".decompressor_file"] = decomp_file
    p.assume_note("each codec's writer output starts with its magic prefix and its reader inverts its writer (zlib/gzip: C13; bz2/lzma/xz/lz4: stdlib / third party)")
    wglob = dict(glob)
    wglob["_buffered_write_file"] = lambda interp: _Fn(lambda i, a, k: Opaque("buffered", None, inner=a[0], isinstance=()))
    wglob["_buffered_read_file"] = lambda interp: _Fn(lambda i, a, k: Opaque("buffered", None, inner=a[0], isinstance=()))
    p.assume_note("io.BufferedReader / io.BufferedWriter are transparent")
    METHODS = [n for n, _ in REG]
    p.add(Contract(
        NU, "_write_fileobject", props=["C03"], globals=wglob,
        params=dict(filename=OpaqueOf("target"), compress=lambda interp: (OneOf(*(METHODS + ["bogus", None])).fresh(interp.ctx, "method"), Opt(INT).fresh(interp.ctx, "level"))),
        ensures={"writer_of_the_requested_method": "n_events('compressor_file') == 1 and ev(0)[1] == (compress[0] if compress[0] != 'bogus' and compress[0] is not None else 'zlib')",
                 "on_the_target_with_the_level": "ev(0)[2] is filename and ev(0)[3] is compress[1]",
                 "buffer_wraps_that_writer": "result.inner.codec == ev(0)[1]"},
    ))

    # ------------------------------------------------------------------ _detect_compressor: first bytes symbolic
    def fobj(interp):
        peek = interp.ctx.choose(2, "peekable")
        o = Opaque("srcfile", None)
        o.attrs["hasattr"] = {"peek": bool(peek), "seekable": True, "tell": True, "seek": True}
        o.attrs["is_seekable"] = bool(interp.ctx.choose(2, "seekable")) if peek else True
        # a peekable source is an io.BufferedReader: read(n) returns n bytes unless the stream ends.  Anything else (raw stream, duck-typed
        # reader) may answer with fewer bytes than asked for
        o.attrs["exact_reads"] = True if peek else not interp.ctx.choose(2, "short-reads")
        return o

    # Stream model.  FIRST = the bytes of the stream from the position at entry (POS0); POS = current position relative to it.
    #   read(n)  returns FIRST[POS : POS+n] (short only at the end of the stream) and advances
    #   peek(n)  io.BufferedReader: "the number of bytes returned may be less or more than requested" - at least one byte unless
    #            at the end of the stream; a short answer happens when the internal buffer is nearly drained (after earlier reads
    #            of the same file, e.g. the second of several objects dumped one after the other)
    #   seek/tell: absolute positions are POS0 + POS with POS0 >= 0 unknown
    # Domain assumption (stated in the evidence): a NON-seekable peekable stream answers peek with at least the bytes asked for
    # when they exist - nothing can be done otherwise without consuming the stream.
    def _rest(interp):
        ctx = interp.ctx
        first = ctx.ghost["FIRST"].term
        pos = ops.as_int_term(ctx.ghost["POS"])
        return z3.SubSeq(first, pos, z3.Length(first) - pos)

    def peek(interp, recv, args, kwargs):
        ctx = interp.ctx
        ctx.events.append(("peek", args[0]))
        rest, nn = _rest(interp), ops.as_int_term(args[0])
        m = z3.Int(ctx.fresh_name("got"))
        full = z3.If(nn < z3.Length(rest), nn, z3.Length(rest))
        ctx.assume(z3.And(m <= z3.Length(rest), m >= z3.If(z3.Length(rest) > 0, 1, 0)))
        if not recv.attrs.get("is_seekable", True):
            ctx.assume(m >= full)
        return Sym(BYTES, z3.SubSeq(rest, 0, m))

    def read(interp, recv, args, kwargs):
        ctx = interp.ctx
        ctx.events.append(("read", args[0]))
        rest, nn = _rest(interp), ops.as_int_term(args[0])
        ctx.check("call.read.requires.non-negative-size", nn >= 0)
        full = z3.If(nn < z3.Length(rest), nn, z3.Length(rest))
        if recv.attrs.get("exact_reads", True):
            m = full
        else:
            # io.RawIOBase.read(n): "fewer than n bytes may be returned"; b"" only at the end of the stream (or n == 0), None = "no data
            # right now" on a non-blocking stream
            m = z3.Int(ctx.fresh_name("got"))
            ctx.assume(z3.And(m >= 0, m <= full, z3.Implies(full > 0, m >= 1)))
            if ctx.branch(z3.And(full == 0, z3.Bool(ctx.fresh_name("answers-None"))), "read-answers-None"):
                return None
        out = Sym(BYTES, z3.SubSeq(rest, 0, m))
        ctx.ghost["POS"] = Sym(INT, ops.as_int_term(ctx.ghost["POS"]) + m)
        return out

    def seek(interp, recv, args, kwargs):
        ctx = interp.ctx
        if not recv.attrs.get("is_seekable", True):
            interp.raise_("OSError")
        whence = args[1] if len(args) > 1 else kwargs.get("whence", 0)
        if whence not in (0, 1):
            raise Unsupported("seek whence %r" % (whence,))
        ctx.events.append(("seek", args[0], whence))
        off = ops.as_int_term(args[0])
        new = off - ops.as_int_term(ctx.ghost["POS0"]) if whence == 0 else ops.as_int_term(ctx.ghost["POS"]) + off
        ctx.ghost["POS"] = Sym(INT, new)
        return Sym(INT, new + ops.as_int_term(ctx.ghost["POS0"]))

    def tell(interp, recv, args, kwargs):
        ctx = interp.ctx
        if not recv.attrs.get("is_seekable", True):
            interp.raise_("OSError")
        return Sym(INT, ops.as_int_term(ctx.ghost["POS0"]) + ops.as_int_term(ctx.ghost["POS"]))

    p.models["srcfile.peek"] = peek
    p.models["srcfile.read"] = read
    p.models["srcfile.seek"] = seek
    p.models["srcfile.tell"] = tell
    p.models["srcfile.seekable"] = lambda i, r, a, k: r.attrs.get("is_seekable", True)

    def stream_setup(interp, env):
        g = interp.ctx.ghost
        interp.ctx.assume(ops.as_int_term(g["POS0"]) >= 0)
        g["POS"] = 0

    def prefix_of(interp, name):
        t = interp.global_lookup("_COMPRESSORS", None)
        return interp.getattr(t.d[name], "prefix") if name in t.d else None

    p.spec_funcs["starts"] = lambda interp, b, pre: ops.mk_bool(z3.PrefixOf(to_term(pre), to_term(b)))
    p.spec_funcs["prefix_of"] = prefix_of
    p.spec_funcs["has_peek"] = lambda interp, o: bool(o.attrs["hasattr"].get("peek"))
    ens_body = {}
    ens = {"position_restored": "POS == 0",
           "legacy": "iff(starts(FIRST, b'ZF'), result == 'compat')",
           "plain_pickle": "implies(starts(FIRST, b'\\x80'), result == 'not-compressed')"}
    for m in METHODS:
        ens["detects_" + m] = "implies(starts(FIRST, prefix_of('%s')), result == '%s')" % (m, m)
    from pyvc.values import Alternatives
    p.add(Contract(
        NU, "_detect_compressor", props=["C03"], globals=glob, ghost=dict(FIRST=BYTES, POS0=INT, POS=INT), setup=stream_setup,
        inline={"_get_prefixes_max_len"} | {c + ".__init__" for _, c in ADAPTERS},
        # streams without peek() (io.BytesIO) are loaded from their start: joblib rewinds them to offset 0 (relied upon by its own
        # tests), so the object has to start there - domain precondition, the property does not speak of objects at an offset of a buffer
        requires=["has_peek(fileobj) or POS0 == 0"],
        params=dict(fileobj=fobj),
        returns=lambda interp, env: Alternatives(["compat", "not-compressed"] + METHODS),
        ensures=ens, ensures_body=ens_body,
    ))

    # reader selection: the reader opened for a stream is the reader of the format its first bytes announce
    vglob = dict(wglob)
    # _is_raw_file(f): f is an unbuffered-or-buffered file ON DISK (io.FileIO / io.BufferedReader over one): decided by the source kind
    vglob["_is_raw_file"] = lambda interp: _Fn(lambda i, a, k: isinstance(a[0], Opaque) and "FileIO" in a[0].attrs.get("isinstance", ()))
    p.spec_funcs["raw_source"] = lambda interp, f: isinstance(f, Opaque) and "FileIO" in f.attrs.get("isinstance", ())
    p.models["isinstance:srcfile"] = lambda *a: False
    rens = {"yields_once": "len(yields) == 1",
            "legacy_returns_the_name": "implies(starts(FIRST, b'ZF'), yields[0][0] is filename and n_events('decompressor_file') == 0)",
            "plain_pickle_is_read_directly": "implies(starts(FIRST, b'\\x80'), yields[0][0] is fileobj and n_events('decompressor_file') == 0)",
            "compressed_files_are_never_memmapped": "implies(n_events('decompressor_file') == 1, yields[0][1] is None)",
            # C19: an uncompressed raw file is mapped in exactly the mode the caller asked for; nothing else ever is
            # (files of joblib < 0.10, prefix ZF, are handed with the caller's mode to the compatibility loader)
            "memmapped_iff_an_uncompressed_raw_file": "implies(not starts(FIRST, b'ZF'), (yields[0][1] is not None) == (mmap_mode is not None and n_events('decompressor_file') == 0 and raw_source(fileobj)))",
            "the_requested_mode_or_none": "yields[0][1] is None or yields[0][1] is mmap_mode"}
    for m in METHODS:
        rens["reader_of_" + m] = ("implies(starts(FIRST, prefix_of('%s')), n_events('decompressor_file') == 1 and ev(0)[1] == '%s' and ev(0)[2] is fileobj "
                                  "and yields[0][0].inner.codec == '%s')" % (m, m, m))
    p.add(Contract(
        NU, "_validate_fileobject_and_memmap", props=["C03"], globals=vglob, ghost=dict(FIRST=BYTES, POS0=INT, POS=INT), setup=stream_setup,
        # the source: a raw file on disk, an in-memory buffer, or some other buffered reader; every mmap mode
        params=dict(fileobj=lambda interp: Opaque("srcfile", None, hasattr={"peek": True},
                                                   isinstance=[(), ("BytesIO",), ("FileIO",)][interp.ctx.choose(3, "source-kind")]),
                    filename=STR, mmap_mode=OneOf(None, "r", "r+", "w+", "c")),
        ensures=rens,
    ))

    # ------------------------------------------------------------------ the byte source of the unpickler: exact reads
    # pickle's Python Unpickler (the one joblib subclasses) takes read(n) at its word: BINBYTES / BINUNICODE / frames build their value from
    # whatever comes back and fetch the next opcode after it.  io.BufferedIOBase.read(n) (BufferedReader, BytesIO, the compressed readers
    # joblib wraps in a BufferedReader) returns n bytes unless the stream ends; io.RawIOBase.read(n) and duck-typed readers may return
    # FEWER (one system call; pipes, sockets, network file systems, FileIO above 2 GiB).  C03 quantifies over "an open file object":
    # whatever reader NumpyUnpickler hands to pickle must return n bytes unless the stream ends.
    EXACT = "all_requested_bytes_unless_the_stream_ends"

    def unpickler_init(interp, args, kwargs):
        ctx = interp.ctx
        me, reader = args[0], args[1]
        fh = ctx.ghost["FILE_HANDLE"]
        if isinstance(reader, Opaque):
            exact = "BufferedIOBase" in reader.attrs.get("isinstance", ())
            same = reader is fh
        elif isinstance(reader, SObj):
            c = interp.pack.contract_for(NU, reader.cls + ".read") or interp.pack.contract_for(NP, reader.cls + ".read")
            exact = c is not None and EXACT in c.ensures
            same = any(v is fh for v in reader.fields.values())
        else:
            raise Unsupported("reader %r" % (reader,))
        ctx.check("NumpyUnpickler.__init__/pickle-reads-from-the-given-file", same)
        ctx.check("NumpyUnpickler.__init__/pickle-reads-through-an-exact-reader", exact)
        ctx.events.append(("Unpickler.__init__",))
        return None

    def exact_reader_over(interp, reader, fh):
        if isinstance(reader, Opaque):
            return reader is fh and "BufferedIOBase" in reader.attrs.get("isinstance", ())
        if isinstance(reader, SObj):
            c = interp.pack.contract_for(NU, reader.cls + ".read") or interp.pack.contract_for(NP, reader.cls + ".read")
            return c is not None and EXACT in c.ensures and any(v is fh for v in reader.fields.values())
        return False

    p.spec_funcs["exact_reader_over"] = exact_reader_over

    def src_kind(interp):
        k = [("IOBase", "BufferedIOBase"), ("IOBase", "RawIOBase"), ()][interp.ctx.choose(3, "reader-kind")]
        o = Opaque("srcfile", None, isinstance=k, readline=Opaque("boundmethod", None))
        interp.ctx.ghost["FILE_HANDLE"] = o
        return o

    p.models["import:numpy"] = lambda interp: Opaque("numpy", None)
    p.add(Contract(
        NP, "NumpyUnpickler.__init__", props=["C03", "C14"], inline={c + ".__init__" for _, c in ADAPTERS},
        params=dict(self=ObjOf("NumpyUnpickler"), filename=STR, file_handle=src_kind, ensure_native_byte_order=BOOL, mmap_mode=OneOf(None, "r", "r+", "w+", "c")),
        calls={"Unpickler.__init__": unpickler_init},
        globals={"os": lambda i: Opaque("osmod", None, path=Opaque("ospath", None))},
        ensures={"pickle_initialised_once": "n_events('Unpickler.__init__') == 1",
                 # the array readers (padding length, padding, array bytes, nested pickles of object arrays) pull from self.file_handle: it has to
                 # be the caller's file, and exact like the reader the unpickler itself uses
                 "arrays_are_read_from_the_given_file_through_an_exact_reader": "exact_reader_over(self.file_handle, file_handle) and self.filename is filename and self.mmap_mode is mmap_mode"},
    ))
    p.models["ospath.dirname"] = lambda i, r, a, k: STR.fresh(i.ctx, "dirname")

    # an adapter class in front of an unbuffered reader (whatever its name): read(size) loops until size bytes or the end of the stream.
    #   stream model as above (FIRST / POS): one underlying read(n) returns between 1 and n of the bytes left (0 only when none is left,
    #   or None - "no data right now" of a non-blocking raw stream, treated as the end)
    p.spec_funcs["stream_slice"] = lambda interp, a, n: Sym(BYTES, z3.SubSeq(interp.ctx.ghost["FIRST"].term, ops.as_int_term(a), ops.as_int_term(n)))
    p.spec_funcs["stream_len"] = lambda interp: Sym(INT, z3.Length(interp.ctx.ghost["FIRST"].term))
    for mod, cname in ADAPTERS:
        p.add(Contract(
            mod, cname + ".read", props=["C03", "C14"],
            params=dict(self=lambda interp, cname=cname: SObj(cname, {"_fileobj": Opaque("srcfile", None, exact_reads=False)}), size=INT),
            requires=["size >= 0", "0 <= POS and POS <= stream_len()"],
            ghost=dict(FIRST=BYTES, POS0=INT, POS=INT), modifies=["ghost:POS"], returns=BYTES,
            ensures={EXACT: "len(result) == min(size, stream_len() - old(POS))",
                     "the_bytes_of_the_stream_in_order": "result == stream_slice(old(POS), len(result))",
                     "nothing_consumed_beyond_the_result": "POS == old(POS) + len(result)"},
            loops={1: Loop("while len(data) < size",
                           invariant={"so_far": "data == stream_slice(old(POS), len(data)) and POS == old(POS) + len(data) and len(data) <= size and POS <= stream_len()"},
                           decreases="size - len(data)",  # C14 'always terminates': an endless stream of empty answers at the end must not spin
                           kinds={"data": BYTES, "more": BYTES})},
        ))

    # ------------------------------------------------------------------ dump: the total decision table
    def np_pickler(interp, args, kwargs):
        interp.ctx.events.append(("NumpyPickler", args[0], kwargs.get("protocol")))
        return Opaque("pickler", None, target=args[0])

    p.models["pickler.dump"] = lambda i, r, a, k: i.ctx.events.append(("pickle.dump", r.attrs["target"], a[0]))

    def wfo(interp, args, kwargs):
        comp = kwargs.get("compress", args[1] if len(args) > 1 else None)
        interp.ctx.events.append(("_write_fileobject", args[0], comp[0], comp[1]))
        return Opaque("writerfile", None, method=comp[0], level=comp[1], under=args[0])

    p.models["builtin:open"] = lambda i, a, k: (i.ctx.events.append(("open", a[0], a[1])), Opaque("rawfile", None, path=a[0]))[1]
    dglob = dict(glob)
    dglob["NumpyPickler"] = lambda interp: _Fn(np_pickler)
    dglob["_write_fileobject"] = lambda interp: _Fn(wfo)

    def compress_arg(interp):
        ctx = interp.ctx
        k = ctx.choose(6, "compress-kind")
        if k == 0:
            return OneOf(False, True).fresh(ctx, "cbool")
        if k == 1:
            return INT.fresh(ctx, "clevel")
        if k == 2:
            return OneOf(*(METHODS + ["bogus"])).fresh(ctx, "cname")
        if k == 3:
            return (OneOf(*(METHODS + ["bogus"])).fresh(ctx, "tname"), OneOf(None, INT).fresh(ctx, "tlevel"))
        if k == 4:
            return ("zlib", 3, 1)
        return None

    def target(interp):
        k = interp.ctx.choose(4, "target-kind")
        if k == 0:
            return OneOf("f.pkl", "f.z", "f.gz", "f.bz2", "f.lzma", "f.xz", "f.lz4", "dir.gz/f").fresh(interp.ctx, "fname")
        if k == 1:
            return Opaque("wfile", None, hasattr={"write": True})
        if k == 2:
            return Opaque("notafile", None, hasattr={"write": False})
        return 5

    # resolved (method, level) per the documented rules; the postconditions are implications, not a re-implementation
    p.spec_funcs["is_tuple2"] = lambda interp, c: isinstance(c, tuple) and len(c) == 2
    p.spec_funcs["wf"] = lambda interp: next((e for e in interp.ctx.events if e[0] == "_write_fileobject"), None)
    VALIDM = "(%s)" % " or ".join("m == '%s'" % m for m in METHODS)
    p.add(Contract(
        NP, "dump", props=["C03"], globals=dglob,
        params=dict(value=OpaqueOf("value"), filename=target, compress=compress_arg, protocol=None),
        requires=["compress is not None"],
        ensures={
            "valid_target": "isinstance(filename, str) or hasattr(filename, 'write')",
            "exactly_one_pickle_written": "n_events('pickle.dump') == 1 and n_events('NumpyPickler') == 1 and events_named('pickle.dump')[0][2] is value",
            "explicit_tuple_wins_over_extension": "implies(is_tuple2(compress) and compress[1] is not None and compress[1] != 0, wf() is not None and wf()[2] == compress[0] and wf()[3] is compress[1])",
            "method_name_selects_compressor": "implies(isinstance(compress, str), wf() is not None and wf()[2] == compress and wf()[3] is None)",
            # which format the extension / a bare level selects is documentation, not part of the round-trip property:
            # what matters is that the chosen writer is one of the registered formats (or raw), so that load recognises it
            "writer_is_a_registered_format_or_raw": "wf() is None or wf()[2] is None or wf()[2] in ('zlib', 'gzip', 'bz2', 'lzma', 'xz', 'lz4')",
            "raw_means_no_compressor_object": "implies(wf() is None, n_events('open') == 1 if isinstance(filename, str) else events_named('NumpyPickler')[0][1] is filename)",
            "pickle_goes_into_the_opened_writer": "implies(wf() is not None, events_named('NumpyPickler')[0][1].under is filename)",
            "returns_filenames_for_paths_only": "(result is None) == (not isinstance(filename, str))",
        },
        exsures={"ValueError": {"nothing_written": "n_events('pickle.dump') == 0 and n_events('open') == 0 and n_events('_write_fileobject') == 0"}},
    ))

    # ---- dump with a USER-registered compressor in the table (register_compressor(name, CompressorWrapper(obj, prefix)) - the documented way,
    # which leaves `extension` at its default ""): registering a format must not change what a plain path without compression request gets.
    # (C19 depends on it: uncompressed files are the ones that can be memory-mapped, also by the workers of Parallel.)
    def table_with_custom(interp):
        t = table(interp)
        cls = "CompressorWrapper"
        obj = SObj(cls, {})
        kind, mod, c, n = interp.pack.find_attr(cls, "__init__")
        from pyvc.values import Closure
        from pyvc.interp import Env
        interp.call_closure(Closure(n, Env(mod, owner_cls=c), mod, owner_cls=c), [obj, Opaque("userfileobj", None)], {"prefix": b"CUSTOM"})
        obj.fields["_regname"] = "custom"
        d = dict(t.d)
        d["custom"] = obj
        return PyDict(d)

    dglob_custom = dict(dglob)
    dglob_custom["_COMPRESSORS"] = table_with_custom
    p.add(Contract(
        NP, "dump", variant="with-a-user-registered-compressor", props=["C03", "C19"], globals=dglob_custom,
        params=dict(value=OpaqueOf("value"), filename=OneOf("f.pkl", "dir.gz/f", "f.gz"), compress=OneOf(False, 0, True, 3), protocol=None),
        ensures={
            "no_compression_request_and_no_compression_extension_means_raw": "implies((compress is False or compress == 0) and not filename.endswith('.gz'), wf() is None)",
            "extension_of_a_builtin_format_still_selects_it": "implies(filename.endswith('.gz'), wf() is not None and wf()[2] == 'gzip')",
        },
    ))

    # ---- _detect_compressor with a USER-registered compressor whose magic number was left at the default b"" (CompressorWrapper(obj) - the
    # documented constructor has prefix=b"" as default): a format without a magic number cannot be recognised from the content, so it must
    # never be "recognised" - every uncompressed file starts with the empty string
    def table_with_prefixless(interp):
        t = table(interp)
        cls = "CompressorWrapper"
        obj = SObj(cls, {})
        kind, mod, c, n = interp.pack.find_attr(cls, "__init__")
        from pyvc.values import Closure
        from pyvc.interp import Env
        interp.call_closure(Closure(n, Env(mod, owner_cls=c), mod, owner_cls=c), [obj, Opaque("userfileobj", None)], {})
        obj.fields["_regname"] = "noprefix"
        d = dict(t.d)
        d["noprefix"] = obj
        return PyDict(d)

    pglob = dict(glob)
    pglob["_COMPRESSORS"] = table_with_prefixless
    p.add(Contract(
        NU, "_detect_compressor", variant="with-a-prefixless-user-compressor", props=["C03"], globals=pglob, ghost=dict(FIRST=BYTES, POS0=INT, POS=INT), setup=stream_setup,
        inline={"_get_prefixes_max_len"} | {c + ".__init__" for _, c in ADAPTERS},
        requires=["has_peek(fileobj) or POS0 == 0"],
        params=dict(fileobj=fobj),
        returns=lambda interp, env: Alternatives(["compat", "not-compressed", "noprefix"] + METHODS),
        # (it may serve as a last resort for content that is neither a recognised format nor a pickle: that is how files written WITH such a
        # compressor stay loadable; what it must never do is take a pickle - every uncompressed file joblib writes - for its own)
        ensures={"a_format_without_magic_number_never_takes_a_pickle": "implies(starts(FIRST, b'\\x80'), result == 'not-compressed')",
                 "nor_a_file_of_a_recognisable_format": "implies(starts(FIRST, prefix_of('gzip')), result == 'gzip') and implies(starts(FIRST, prefix_of('zlib')), result == 'zlib')"},
    ))

    # ------------------------------------------------------------------ load / _unpickle: the read side of the dispatch
    # load(path | pathlib.Path | open file object, mmap_mode, ensure_native_byte_order): the reader is chosen from the CONTENT by
    # _validate_fileobject_and_memmap (contract above) and what it yields - file object and validated mmap mode - is what the unpickler gets;
    # a path is opened 'rb' once and closed again, a caller's file object is used as it is and left open; arrays are coerced to the native
    # byte order exactly when they are not memory-mapped ('auto').
    def validate_cm(interp, args, kwargs):
        ctx = interp.ctx
        ctx.events.append(("validate", args[0], args[1], args[2] if len(args) > 2 else kwargs.get("mmap_mode")))
        k = ctx.choose(3, "validated-as")
        mode = args[2] if len(args) > 2 else kwargs.get("mmap_mode")
        if k == 0:
            y = (args[0], mode if ctx.choose(2, "mode-kept") == 0 else None)           # uncompressed: the file itself
        elif k == 1:
            y = (Opaque("decompressing-reader", None, under=args[0]), None)                # compressed: a reader on top, never memory-mapped
        else:
            y = (args[1], mode)                                                            # file of joblib < 0.10: the NAME is handed back
        ctx.ghost["YIELDED"] = y
        return Opaque("validatecm", None, yields=y)

    p.models["enter:validatecm"] = lambda i, cm: cm.attrs["yields"]
    p.models["exit:validatecm"] = lambda i, cm, e: (i.ctx.events.append(("validate-exit",)), False)[1]
    p.models["enter:rawfile"] = lambda i, cm: cm
    p.models["exit:rawfile"] = lambda i, cm, e: (i.ctx.events.append(("close", cm)), False)[1]

    def unpickle_stub(interp, args, kwargs):
        interp.ctx.events.append(("_unpickle", args[0], kwargs.get("ensure_native_byte_order", args[1] if len(args) > 1 else None), kwargs.get("filename", ""), kwargs.get("mmap_mode")))
        return Opaque("loaded", None)

    def compat_stub(interp, args, kwargs):
        interp.ctx.events.append(("load_compatibility", args[0]))
        return Opaque("loaded-legacy", None)

    def load_source(interp):
        k = interp.ctx.choose(4, "source")
        if k == 0:
            return STR.fresh(interp.ctx, "path")
        if k == 1:
            return Opaque("pathobj", None, isinstance=("Path",), hasattr={"read": False})
        o = Opaque("userfile", None, isinstance=(), hasattr={"read": True, "name": k == 2})
        if k == 2:
            o.attrs["name"] = STR.fresh(interp.ctx, "fname")
        return o

    p.models["str:pathobj"] = lambda i, v: i.ctx.ghost.setdefault("PATHSTR", STR.fresh(i.ctx, "pathstr"))
    lglob = dict(glob)
    lglob.update({"_validate_fileobject_and_memmap": lambda interp: _Fn(validate_cm), "_unpickle": lambda interp: _Fn(unpickle_stub),
                  "load_compatibility": lambda interp: _Fn(compat_stub), "Path": lambda interp: Opaque("pyclass", "Path", classname="Path")})
    p.spec_funcs["yielded"] = lambda interp: interp.ctx.ghost.get("YIELDED")
    p.spec_funcs["is_path"] = lambda interp, f: not (isinstance(f, Opaque) and f.tag == "userfile")
    UNP = "events_named('_unpickle')"
    p.add(Contract(
        NP, "load", props=["C03", "C19"], globals=lglob,
        params=dict(filename=load_source, mmap_mode=OneOf(None, "r", "c"), ensure_native_byte_order=OneOf("auto", True, False)),
        ensures={
            "reader_chosen_from_the_content_once": "n_events('validate') == 1 and events_named('validate')[0][3] is mmap_mode",
            "a_path_is_opened_for_reading_once_and_closed": "implies(is_path(filename), n_events('open') == 1 and events_named('open')[0][2] == 'rb' and n_events('close') == 1 "
                                                            "and events_named('validate')[0][1] is events_named('close')[0][1])",
            "a_callers_file_object_is_used_as_it_is_and_left_open": "implies(not is_path(filename), n_events('open') == 0 and n_events('close') == 0 and events_named('validate')[0][1] is filename)",
            "the_unpickler_reads_what_the_validation_yielded": "implies(n_events('_unpickle') == 1, %s[0][1] is yielded()[0])" % UNP,
            "arrays_of_a_path_are_mapped_in_the_validated_mode": "implies(is_path(filename) and n_events('_unpickle') == 1, %s[0][4] is yielded()[1])" % UNP,
            "native_byte_order_exactly_when_not_memory_mapped_by_default": "implies(n_events('_unpickle') == 1 and ensure_native_byte_order == 'auto', %s[0][2] == (mmap_mode is None))" % UNP,
            "an_explicit_byte_order_request_is_passed_on": "implies(n_events('_unpickle') == 1 and ensure_native_byte_order != 'auto', %s[0][2] is ensure_native_byte_order)" % UNP,
            "exactly_one_loader_runs": "n_events('_unpickle') + n_events('load_compatibility') == 1",
            "legacy_files_go_to_the_compatibility_loader_by_name": "implies(n_events('load_compatibility') == 1, events_named('load_compatibility')[0][1] is yielded()[0])",
        },
        exsures={"ValueError": {"only_native_byte_order_together_with_mmap": "ensure_native_byte_order is True and mmap_mode is not None",
                                "nothing_opened": "n_events('open') == 0 and n_events('validate') == 0"}},
    ))

    def new_unpickler(interp, args, kwargs):
        interp.ctx.events.append(("NumpyUnpickler", args[0], args[1], args[2], kwargs.get("mmap_mode", args[3] if len(args) > 3 else None)))
        return Opaque("unpickler", None, compat_mode=BOOL.fresh(interp.ctx, "compat_mode"))

    def unpickler_load(interp, recv, args, kwargs):
        interp.ctx.events.append(("unpickler.load",))
        k = interp.ctx.choose(3, "unpickler-outcome")
        if k == 1:
            raise PyRaise(SExc(BUILTIN_EXC["UnicodeDecodeError"], ()))
        if k == 2:
            raise PyRaise(SExc(BUILTIN_EXC["EOFError"], ()))
        return Opaque("loaded", None)

    p.models["unpickler.load"] = unpickler_load
    p.log_calls.add("warnings.warn")
    uglob = dict(glob)
    uglob["NumpyUnpickler"] = lambda interp: _Fn(new_unpickler)
    p.add(Contract(
        NP, "_unpickle", props=["C03", "C14"], globals=uglob,
        params=dict(fobj=OpaqueOf("reader"), ensure_native_byte_order=BOOL, filename=STR, mmap_mode=OneOf(None, "r", "c")),
        ensures={"what_the_unpickler_built": "is_tag(result, 'loaded')",
                 "one_unpickler_on_exactly_these_arguments": "n_events('NumpyUnpickler') == 1 and events_named('NumpyUnpickler')[0][1] is filename and events_named('NumpyUnpickler')[0][2] is fobj "
                                                             "and events_named('NumpyUnpickler')[0][3] is ensure_native_byte_order and events_named('NumpyUnpickler')[0][4] is mmap_mode",
                 "loaded_once": "n_events('unpickler.load') == 1"},
        # C14: a damaged file makes load RAISE (whatever the unpickler raises passes through; the python-2 hint keeps it an exception)
        exsures={"ValueError": {}, "EOFError": {}},
    ))

    # ------------------------------------------------------------------ structural: prefix-freedom on the REAL constants
    def prefix_freedom(pack):
        from pyvc.ctx import Ctx
        from pyvc.interp import Interp
        from pyvc.runner import FunctionRun
        run = FunctionRun(pack, Contract("(structural)", "prefix_table"))
        ctx = Ctx(run, [])
        it = Interp(ctx, pack, Contract("(structural)", "prefix_table", globals=cglob))
        ctx.ghost["global:lz4"] = None
        t = table(it)
        pre = {n: it.getattr(o, "prefix") for n, o in t.d.items()}
        ext = {n: it.getattr(o, "extension") for n, o in t.d.items()}
        pre["(legacy ZF)"] = b"ZF"
        out = []
        names = sorted(pre)
        ok = all(isinstance(v, bytes) and len(v) > 0 for v in pre.values())
        out.append(("compressors/prefixes-are-nonempty-constants", ok, repr(pre)))
        clash = [(a, b) for a in names for b in names if a < b and (pre[a].startswith(pre[b]) or pre[b].startswith(pre[a]))] if ok else ["?"]
        out.append(("compressors/prefix-free", not clash, "clashing pairs: %r; table %r" % (clash, pre)))
        raw = [n for n in names if pre[n][:1] in (b"\x80",)] if ok else ["?"]
        out.append(("compressors/no-prefix-starts-a-raw-pickle", not raw, "protocol >= 2 pickles start with 0x80; offending: %r" % (raw,)))
        exts = [v for n, v in ext.items()]
        out.append(("compressors/extensions-distinct-and-dotted", len(set(exts)) == len(exts) and all(isinstance(e, str) and e.startswith(".") for e in exts) and
                    not any(a != b and a.endswith(b) for a in exts for b in exts), repr(ext)))
        out.append(("compressors/extension-table-as-documented", {v: k for k, v in ext.items()} == EXT, repr(ext)))
        return out

    p.structural = [prefix_freedom]
    return p
