"""C08 - joblib.hash is deterministic, order-insensitive, type-discriminating (joblib-owned part).

Relational contracts by self-composition (two runs in one path, see contracts/lemmas/c08_relational.py), the base
pickler / sorted() / md5 are assumed (DESIGN 4.2):
  sorted(xs): if `<` is a strict total order on the elements -> THE ascending sequence of the multiset (same for every
              input order); if a comparison raises -> TypeError; otherwise (partial order: sets, frozensets) -> some
              permutation that depends on the input order.
  joblib's own hash(k) (the module-level function of hashing.py) is a function of the abstract value (induction
              hypothesis on sub-values); the BUILTIN hash() depends on the interpreter's string-hash seed.
"""
import ast
import os

import z3

from pyvc import ops
from pyvc.contracts import Contract, SourceModule
from pyvc.interp import BUILTIN_EXC, PyRaise
from pyvc.pack import Pack
from pyvc.values import (
    BOOL, INT, STR, BYTES, Atom, Builtin, ClassRef, Closure, GenExp, ObjOf, OneOf, Opaque, OpaqueOf, Opt, PyDict, PyList, SExc, SObj, Sym,
    Unsupported,
)

from .common import install_common

H = "joblib/hashing.py"
LEMMA = os.path.join(os.path.dirname(os.path.abspath(__file__)), "lemmas", "c08_relational.py")


def _Fn(fn):
    return Opaque("fn", None, fn=fn)


def build():
    p = Pack("C08", files=[H])
    install_common(p)
    p.models["fn.__call__"] = lambda interp, fv, args, kwargs: fv.attrs["fn"](interp, args, kwargs)

    # ---- sequences of one abstract collection in two arbitrary orders
    # (`one_shot`: the items may come as a one-shot ITERATOR - pickle hands the dictitems of a __reduce__ / OrderedDict that way - which a
    # first, failing, sorted() consumes: what is iterated afterwards is empty)
    def seq(run):
        def mk(interp):
            one_shot = interp.ctx.ghost.setdefault("ONE_SHOT", bool(interp.ctx.choose(2, "items-are-a-one-shot-iterator")))
            return Opaque("seq", "seq_" + run, ms="MS", ident=run, one_shot=one_shot, consumed=False)
        return mk

    def take(src):
        """The multiset a traversal of `src` sees now; a one-shot iterator is empty afterwards."""
        ms = "EMPTY" if src.attrs.get("consumed") else src.attrs["ms"]
        if src.attrs.get("one_shot"):
            src.attrs["consumed"] = True
        return ms

    def m_sorted(interp, args, kwargs):
        ctx = interp.ctx
        src = args[0]
        cls = ctx.ghost["ORDER"]
        if isinstance(src, GenExp):
            node = src.node
            gen = node.generators[0]
            base = interp.eval(gen.iter, src.env)
            if not (isinstance(base, Opaque) and base.tag == "seq"):
                raise Unsupported("sorted over %r" % (base,))
            # element expression: which hash function is applied to the key / element?
            calls = [n for n in ast.walk(node.elt) if isinstance(n, ast.Call) and isinstance(n.func, ast.Name) and n.func.id == "hash"]
            if not calls:
                raise Unsupported("sorted(genexp) without hash(): %s" % ast.unparse(node.elt))
            fn = interp.global_lookup("hash", src.env.module)
            seen = take(base)
            if isinstance(fn, Closure):
                # joblib's own md5-based hash: function of the abstract value -> digests are strings, totally ordered
                return Opaque("sorted", None, ms=("joblib-hashed", seen))
            # the builtin hash(): str/bytes hashes depend on PYTHONHASHSEED -> run-specific order
            return Opaque("sorted", None, ms=("builtin-hashed", base.attrs["ident"] if seen != "EMPTY" else "EMPTY"))
        if isinstance(src, Opaque) and src.tag == "seq":
            seen = take(src)   # sorted() first builds the whole list (the iterator is consumed), then compares
            if cls == "total":
                return Opaque("sorted", None, ms=("natural", seen))
            if cls == "raises":
                raise PyRaise(SExc(BUILTIN_EXC["TypeError"], ()))
            if cls == "raises-decimal":
                raise PyRaise(SExc(p.exc_by_dotted("decimal.InvalidOperation"), ()))
            return Opaque("sorted", None, ms=("some-permutation-of", src.attrs["ident"] if seen != "EMPTY" else "EMPTY"))
        raise Unsupported("sorted(%r)" % (src,))

    def list_of_seq(interp, src):
        # list(items): a re-iterable copy of what the traversal sees now
        seen = take(src)
        return Opaque("seq", src.name + "_list", ms=seen, ident=src.attrs["ident"] if seen != "EMPTY" else "EMPTY", one_shot=False, consumed=False)

    p.models["list:seq"] = list_of_seq
    p.models["builtin:sorted"] = m_sorted
    p.models["builtin:iter"] = lambda i, a, k: a[0]
    p.assume_note("sorted(): canonical on strict total orders, TypeError when a comparison raises, input-order dependent on partial orders (sets / frozensets)")
    p.assume_note("joblib.hashing.hash(k) is a function of the abstract value of k (induction hypothesis on sub-values; md5 collision-free); builtin hash() of str/bytes depends on PYTHONHASHSEED")

    def base_batch(interp, args, kwargs):
        interp.ctx.events.append(("Pickler._batch_setitems", args[1]))
        return None

    def base_save(interp, args, kwargs):
        interp.ctx.events.append(("Pickler.save", args[1]))
        return None

    def base_memoize(interp, args, kwargs):
        interp.ctx.events.append(("Pickler.memoize", args[1]))
        return None

    PICKLER = Opaque("PicklerClass", None)
    p.models["PicklerClass._batch_setitems"] = lambda i, r, a, k: base_batch(i, a, k)
    p.models["PicklerClass.save"] = lambda i, r, a, k: base_save(i, a, k)
    p.models["PicklerClass.memoize"] = lambda i, r, a, k: base_memoize(i, a, k)
    p.assume_note("pickle._Pickler (_batch_setitems, save, memoize, save_dict calling self._batch_setitems, dispatch by exact type): the emitted stream is a function of the token sequence handed over and is injective incl. type tags")
    glob = {"Pickler": PICKLER, "_ConsistentSet": ClassRef("_ConsistentSet")}

    p.spec_funcs["carries_all"] = lambda interp, t: isinstance(t, Opaque) and t.tag == "sorted" and "EMPTY" not in (t.attrs["ms"] if isinstance(t.attrs["ms"], tuple) else (t.attrs["ms"],))

    def same_token(interp, a, b):
        return isinstance(a, Opaque) and isinstance(b, Opaque) and a.tag == b.tag == "sorted" and a.attrs["ms"] == b.attrs["ms"]

    p.spec_funcs["same_token"] = same_token
    p.spec_funcs["is_tag"] = lambda interp, o, tag: isinstance(o, Opaque) and o.tag == tag
    p.spec_funcs["ev"] = lambda i, k: i.ctx.events[k] if isinstance(k, int) and 0 <= k < len(i.ctx.events) else ("<none>", None)
    p.spec_funcs["n_ev"] = lambda i: len(i.ctx.events)
    p.spec_funcs["seq_of"] = lambda i, obj: obj.fields.get("_sequence") if hasattr(obj, "fields") else None
    hasher = lambda: ObjOf("Hasher")

    for order in ("total", "raises", "partial"):
        p.add(Contract(
            LEMMA, "batch_setitems_two_runs", variant="keys-" + order, props=["C08", "C06"], globals=glob, ghost=dict(ORDER=order),
            inline={"_batch_setitems"},
            params=dict(h1=hasher(), h2=hasher(), items_a=seq("A"), items_b=seq("B")),
            ensures={"same_tokens_whatever_the_insertion_order_and_seed":
                     "n_ev() == 2 and same_token(ev(0)[1], ev(1)[1])",
                     # discrimination: what reaches the pickler is made of ALL the items (two mappings with other contents must differ)
                     "every_item_reaches_the_pickler": "n_ev() == 2 and carries_all(ev(0)[1]) and carries_all(ev(1)[1])"},
        ))
        p.add(Contract(
            LEMMA, "consistent_set_two_runs", variant="elements-" + order, props=["C08", "C06"], globals=glob, ghost=dict(ORDER=order),
            inline={"__init__"},
            params=dict(seq_a=seq("A"), seq_b=seq("B")),
            ensures={"same_sequence_whatever_the_iteration_order_and_seed": "same_token(result[0], result[1])"},
        ))
    p.add(Contract(
        LEMMA, "consistent_set_two_runs", variant="elements-raises-decimal", props=["C08", "C06"], globals=glob, ghost=dict(ORDER="raises-decimal"),
        inline={"__init__"},
        params=dict(seq_a=seq("A"), seq_b=seq("B")),
        ensures={"same_sequence_whatever_the_iteration_order_and_seed": "same_token(result[0], result[1])"},
    ))
    p.add(Contract(
        LEMMA, "save_set_two_runs", props=["C08", "C06"], globals=glob, ghost=dict(ORDER="total"),
        inline={"save_set", "__init__"},
        params=dict(h1=hasher(), h2=hasher(), set_a=seq("A"), set_b=seq("B")),
        ensures={"sets_go_through_the_normalising_wrapper":
                 "n_ev() == 2 and ev(0)[0] == 'Pickler.save' and same_token(seq_of(ev(0)[1]), seq_of(ev(1)[1]))"},
    ))

    # ---- Hasher.save: every value reaches the pickler whole - itself, or (bound / builtin methods, which do not pickle) a stand-in made of
    # its identifying parts; the digest object is fed by Hasher.hash only, from the finished stream.  A value, or a part of one, that went
    # into the digest directly from here would lose its boundaries: [a, b] and [a + b[:1], b[1:]] would hash alike (seeded change
    # C08-large-bytes-fed-to-digest).  (NumpyHasher.save does feed array buffers directly, together with a stand-in holding class, dtype,
    # shape and strides: its own contract follows below.)
    def save_value(interp):
        k = interp.ctx.choose(5, "value-kind")
        if k == 0:
            return BYTES.fresh(interp.ctx, "bytes_value")      # of any length
        if k == 1:
            return STR.fresh(interp.ctx, "str_value")
        if k == 2:
            return Opaque("othervalue", None, isinstance=())
        if k == 3:   # a bound method of an instance
            return Opaque("boundmethod", None, isinstance=("MethodType",), __func__=Opaque("function", None, __name__=STR.fresh(interp.ctx, "fname")),
                          __self__=Opaque("instance", None, __class__=Opaque("cls", None), cls=Opaque("instcls", None)))
        # a method of a builtin object (no __func__), e.g. [].append
        return Opaque("builtinmethod", None, isinstance=("builtin_function_or_method",), hasattr={"__func__": False}, __name__=STR.fresh(interp.ctx, "bname"),
                      __self__=Opaque("instance", None, __class__=Opaque("cls", None), cls=Opaque("instcls", None)))

    def type_model(interp, args, kwargs):
        v = args[0]
        from pyvc.values import BoundMethod
        if isinstance(v, BoundMethod):
            return Opaque("pyclass", "builtin_function_or_method", classname="builtin_function_or_method")
        if isinstance(v, Opaque) and "cls" in v.attrs:
            return v.attrs["cls"]
        if isinstance(v, ModuleRef):
            return Opaque("pyclass", "module", classname="module")
        return base_type(interp, args, kwargs)

    from pyvc.values import ModuleRef
    base_type = p.models["builtin:type"]
    p.models["builtin:type"] = type_model
    p.models["new:_MyHash"] = lambda i, a, k: Opaque("myhash", None, parts=tuple(a))
    save_glob = dict(glob)
    save_glob["_MyHash"] = _Fn(lambda i, a, k: Opaque("myhash", None, parts=tuple(a)))
    p.add(Contract(
        H, "Hasher.save", props=["C08", "C06", "C02"], globals=save_glob,
        params=dict(self=ObjOf("Hasher", stream=OpaqueOf("bytesio"), _hash=OpaqueOf("hashobj", algo=STR)), obj=save_value),
        ensures={
            "handed_to_the_pickler_exactly_once": "n_ev() == 1 and ev(0)[0] == 'Pickler.save'",
            "plain_values_reach_the_pickler_themselves": "implies(not is_tag(obj, 'boundmethod') and not is_tag(obj, 'builtinmethod'), ev(0)[1] is obj)",
            "methods_are_replaced_by_their_identifying_parts": "implies(is_tag(obj, 'boundmethod') or is_tag(obj, 'builtinmethod'), is_tag(ev(0)[1], 'myhash') and ev(0)[1].parts[1] is obj.__self__ "
                                                               "and ev(0)[1].parts[0] is (obj.__func__.__name__ if is_tag(obj, 'boundmethod') else obj.__name__) "
                                                               "and len(ev(0)[1].parts) == 3 and ev(0)[1].parts[2] is obj.__self__.__class__)",
            "the_digest_is_fed_from_the_finished_stream_only": "n_events('hash.update') == 0",
        },
    ))

    # ---- NumpyHasher.save: arrays are the commonest arguments of cached functions (C02: "two calls whose bound argument values differ never
    # share a cached result").  An array without Python objects is NOT pickled: its bytes go straight into the digest and a stand-in
    # (class, ("HASHED", dtype, shape, strides)) is pickled in its place.  Everything that tells two arrays apart has to arrive:
    #   the element bytes - all of them, once, through a C-contiguous view (the array itself, its transpose when Fortran-ordered, a flat copy else)
    #   dtype and shape (views of one buffer with other dtypes / shapes), the class (ndarray vs subclass; memmap counts as ndarray on request)
    # Arrays holding Python objects, dtype objects and every other value: see the clauses.  numpy itself is external (attributes / methods
    # of the array are opaque values whose provenance is recorded).
    def np_array(interp):
        ctx = interp.ctx
        k = ctx.choose(3, "array-class")
        classes = [("ndarray",), ("ndarray", "memmap"), ("ndarray", "usersubclass")][k]
        nd = ctx.choose(3, "ndim")
        shape = [(), (INT.fresh(ctx, "n"),), (INT.fresh(ctx, "n"), INT.fresh(ctx, "m"))][nd]
        o = Opaque("nparray", None, isinstance=classes, dtype=Opaque("npdtype", None, hasobject=bool(ctx.choose(2, "dtype-has-python-objects"))), shape=shape,
                   strides=Opaque("strides", None), flags=Opaque("npflags", None, c_contiguous=BOOL.fresh(ctx, "c_contig"), f_contiguous=BOOL.fresh(ctx, "f_contig")))
        o.attrs["__class__"] = Opaque("pyclass", classes[-1], classname=classes[-1])
        o.attrs["T"] = Opaque("nparray-derived", None, how="T", of=o)
        return o

    def np_value(interp):
        k = interp.ctx.choose(3, "value-kind")
        if k == 0:
            return np_array(interp)
        if k == 1:
            return Opaque("npdtype", None, isinstance=("dtype",))
        return Opaque("othervalue", None, isinstance=())

    NPMOD = Opaque("numpy", None, ndarray=Opaque("pyclass", "ndarray", classname="ndarray"), memmap=Opaque("pyclass", "memmap", classname="memmap"),
                   dtype=Opaque("pyclass", "dtype", classname="dtype"), uint8=Opaque("uint8", None))
    p.models["nparray.flatten"] = lambda i, r, a, k: Opaque("nparray-derived", None, how="flatten", of=r)

    def np_view(interp, recv, args, kwargs):
        src, how = (recv.attrs["of"], recv.attrs["how"]) if recv.tag == "nparray-derived" else (recv, "same")
        return Opaque("bytesview", None, of=src, how=how, as_type=args[0])

    p.models["nparray.view"] = np_view
    p.models["nparray-derived.view"] = np_view
    p.models["pickle.dumps"] = lambda i, a, k: Opaque("pickled", None, of=a[0])

    def hasher_base_save(interp, args, kwargs):
        interp.ctx.events.append(("Hasher.save", args[1]))
        return None

    def fed(interp):
        return tuple(e[1] for e in interp.ctx.events if e[0] == "hash.update")

    def whole_array_once(interp, obj):
        f = fed(interp)
        if len(f) != 1 or not (isinstance(f[0], Opaque) and f[0].tag == "npbuffer"):
            return False
        v = f[0].attrs["of"]
        if not (isinstance(v, Opaque) and v.tag == "bytesview" and v.attrs["of"] is obj and v.attrs["as_type"] is NPMOD.attrs["uint8"]):
            return False
        how, fl = v.attrs["how"], obj.attrs["flags"].attrs
        # the view handed to the digest must be C-contiguous: the array itself only when it is, its transpose only when it is Fortran-ordered
        if how == "same":
            return ops.mk_bool(ops.truth(fl["c_contiguous"]))
        if how == "T":
            return ops.mk_bool(ops.truth(fl["f_contiguous"]))
        return how == "flatten"

    p.spec_funcs["whole_array_once"] = whole_array_once
    p.spec_funcs["fed"] = fed
    p.spec_funcs["saved"] = lambda interp: tuple(e[1] for e in interp.ctx.events if e[0] == "Hasher.save")
    p.spec_funcs["is_array"] = lambda interp, o: isinstance(o, Opaque) and o.tag == "nparray"
    p.spec_funcs["mentions_pickle_of"] = lambda interp, v, o: (isinstance(v, Opaque) and v.tag == "pickled" and v.attrs.get("of") is o) or (isinstance(v, tuple) and any(
        isinstance(x, Opaque) and x.tag == "pickled" and x.attrs.get("of") is o for x in v))
    p.spec_funcs["has_class"] = lambda interp, o, c: c in o.attrs.get("isinstance", ())
    p.spec_funcs["NP"] = lambda interp: NPMOD
    BYTES_ARRAY = "is_array(obj) and not obj.dtype.hasobject"
    p.add(Contract(
        H, "NumpyHasher.save", props=["C08", "C02", "C06"], globals=dict(glob, pickle=lambda i: Opaque("picklemod", None)),
        params=dict(self=lambda interp: SObj("NumpyHasher", dict(_hash=Opaque("hashobj", None, algo="md5"), coerce_mmap=bool(interp.ctx.choose(2, "coerce_mmap")), np=NPMOD,
                                                                   _getbuffer=_Fn(lambda i, a, k: Opaque("npbuffer", None, of=a[0])))),
                    obj=np_value),
        calls={"Hasher.save": hasher_base_save, "pickle.dumps": lambda i, a, k: Opaque("pickled", None, of=a[0])},
        ensures={
            "all_the_element_bytes_reach_the_digest_once_through_a_contiguous_view": "implies(%s, whole_array_once(obj))" % BYTES_ARRAY,
            # (the strides the code also puts there are NOT demanded: those of axes of length one are no part of the value - finding K51)
            "the_stand_in_carries_dtype_and_shape": "implies(%s, len(saved()) == 1 and saved()[0][1][0] == 'HASHED' and saved()[0][1][1] is obj.dtype "
                                                    "and saved()[0][1][2] is obj.shape)" % BYTES_ARRAY,
            "the_stand_in_carries_the_class": "implies(%s and not (self.coerce_mmap and has_class(obj, 'memmap')), saved()[0][0] is obj.__class__)" % BYTES_ARRAY,
            "a_memmap_counts_as_a_plain_array_on_request": "implies(%s and self.coerce_mmap and has_class(obj, 'memmap'), saved()[0][0] is NP().ndarray)" % BYTES_ARRAY,
            "object_arrays_and_other_values_are_pickled_whole": "implies(not (%s) and not has_class(obj, 'dtype'), len(saved()) == 1 and saved()[0] is obj and len(fed()) == 0)" % BYTES_ARRAY,
            # a dtype is a leaf like any other: whatever is done to avoid pickle's memo for it, something standing for it has to go into the
            # STREAM at its position - bytes fed straight into the digest have no position, [dtype, 1] and [1, dtype] would hash alike (K50)
            "a_dtype_leaf_keeps_its_position_in_the_stream": "implies(has_class(obj, 'dtype'), len(saved()) == 1)",
            "a_dtype_is_hashed_by_its_own_pickle_not_through_the_memo": "implies(has_class(obj, 'dtype'), any(is_tag(x, 'pickled') and x.of is obj for x in fed()) or "
                                                                        "(len(saved()) == 1 and mentions_pickle_of(saved()[0], obj)))",
        },
    ))

    # ---- memoize: str / bytes are never memoised (equal strings at different addresses hash alike); everything else deferred unchanged
    p.add(Contract(
        H, "Hasher.memoize", props=["C08", "C06"], globals=glob,
        params=dict(self=hasher(), obj=OneOf(STR, BYTES, OpaqueOf("tuple_or_frozenset"), OpaqueOf("otherobj"))),
        ensures={"strings_never_memoised": "implies(isinstance(obj, (bytes, str)), n_ev() == 0)",
                 # a pure function of the value cannot depend on whether two equal immutable values are one object or two (known finding K8)
                 "immutable_containers_never_memoised_by_identity": "implies(is_tag(obj, 'tuple_or_frozenset'), n_ev() == 0)",
                 "others_deferred_unchanged": "implies(not isinstance(obj, (bytes, str)), n_ev() == 1 and ev(0)[0] == 'Pickler.memoize' and ev(0)[1] is obj)"},
    ))

    # ---- Hasher.__init__ / hash / hashing.hash: protocol fixed, digest over exactly the stream, fresh hasher per call
    def pickler_init(interp, recv, args, kwargs):
        interp.ctx.events.append(("Pickler.__init__", kwargs.get("protocol", args[2] if len(args) > 2 else None), args[1]))
        return None

    p.models["PicklerClass.__init__"] = pickler_init
    p.models["io.BytesIO"] = lambda i, a, k: Opaque("bytesio", None)
    p.models["bytesio.getvalue"] = lambda i, r, a, k: i.ctx.ghost.setdefault("STREAM", BYTES.fresh(i.ctx, "stream"))

    def hashlib_new(interp, args, kwargs):
        interp.ctx.events.append(("hashlib.new", args[0], kwargs.get("usedforsecurity")))
        return Opaque("hashobj", None, algo=args[0])

    p.models["hashlib.new"] = hashlib_new

    def h_update(interp, recv, args, kwargs):
        interp.ctx.events.append(("hash.update", args[0]))

    p.models["hashobj.update"] = h_update
    p.models["hashobj.hexdigest"] = lambda i, r, a, k: (i.ctx.events.append(("hexdigest",)), Opaque("digest", None))[1]
    p.spec_funcs["n_events"] = lambda interp, name: sum(1 for e in interp.ctx.events if e[0] == name)
    p.spec_funcs["event_arg"] = lambda interp, name, i: next(e[i + 1] for e in interp.ctx.events if e[0] == name)
    p.add(Contract(
        H, "Hasher.__init__", props=["C08", "C06"], globals=glob,
        params=dict(self=hasher(), hash_name=OneOf("md5", "sha1")),
        ensures={"protocol_fixed_to_3": "n_events('Pickler.__init__') == 1 and event_arg('Pickler.__init__', 0) == 3",
                 "pickles_into_its_own_stream": "event_arg('Pickler.__init__', 1) is self.stream",
                 "requested_algorithm": "event_arg('hashlib.new', 0) == hash_name"},
    ))

    def dump(interp, recv, args, kwargs):
        interp.ctx.events.append(("dump", args[0]))
        if interp.ctx.choose(2, "dump:raises") == 1:
            raise PyRaise(SExc(p.exc_by_dotted("pickle.PicklingError"), ()))
        return None

    p.models["Hasher.dump"] = dump
    p.add(Contract(
        H, "Hasher.hash", props=["C08", "C06"], globals=glob,
        params=dict(self=ObjOf("Hasher", stream=OpaqueOf("bytesio"), _hash=OpaqueOf("hashobj", algo=STR)), obj=OpaqueOf("value"), return_digest=OneOf(True, False)),
        ensures={"digest_over_exactly_the_stream": "n_events('dump') == 1 and event_arg('dump', 0) is obj and n_events('hash.update') == 1 "
                                                   "and event_arg('hash.update', 0) is STREAM",
                 "returns_digest": "implies(return_digest, n_events('hexdigest') == 1 and result is not None)"},
        exsures={"pickle.PicklingError": {}},
    ))

    def new_hasher(interp, args, kwargs):
        interp.ctx.events.append(("new Hasher", kwargs.get("hash_name")))
        return Opaque("hasher", None)

    p.models["hasher.hash"] = lambda i, r, a, k: (i.ctx.events.append(("hasher.hash", a[0])), Opaque("digest", None))[1]
    hglob = dict(glob)
    hglob["Hasher"] = _Fn(new_hasher)
    hglob["NumpyHasher"] = _Fn(new_hasher)
    hglob["sys"] = Opaque("sysmod", None, modules=PyDict({}))
    p.add(Contract(
        H, "hash", props=["C08", "C06"], globals=hglob,
        params=dict(obj=OpaqueOf("value"), hash_name=OneOf("md5", "sha1", "sha256"), coerce_mmap=False),
        ensures={"valid_algorithm": "hash_name == 'md5' or hash_name == 'sha1'",
                 "fresh_hasher_per_call": "n_events('new Hasher') == 1 and event_arg('new Hasher', 0) == hash_name",
                 "hashes_the_object_once": "n_events('hasher.hash') == 1 and event_arg('hasher.hash', 0) is obj"},
        exsures={"ValueError": {"only_invalid_algorithm": "not (hash_name == 'md5' or hash_name == 'sha1')"}},
    ))
    # ---- dispatch-table coverage: the class body of Hasher is read from the real AST and its table reconstructed
    def dispatch_table(pack):
        import pickle
        mod = SourceModule.get(H)
        cls = mod.classes["Hasher"]
        ns = {"type": type, "len": len, "object": object, "set": set, "frozenset": frozenset, "dict": dict, "pickle": pickle,
              "Pickler": pickle._Pickler, "__builtins__": {}}
        table, copied = {}, False
        for st in cls.body:
            if isinstance(st, ast.Assign) and len(st.targets) == 1:
                t = st.targets[0]
                if isinstance(t, ast.Name) and t.id == "dispatch":
                    copied = ast.unparse(st.value) == "Pickler.dispatch.copy()"
                elif isinstance(t, ast.Subscript) and isinstance(t.value, ast.Name) and t.value.id == "dispatch":
                    try:
                        key = eval(compile(ast.Expression(t.slice), "<dispatch-key>", "eval"), ns)
                    except Exception as e:  # noqa
                        return [("Hasher.dispatch/readable", False, "cannot evaluate key %s: %r" % (ast.unparse(t.slice), e))]
                    table[key] = ast.unparse(st.value)
        methods = {n.name for n in cls.body if isinstance(n, ast.FunctionDef)}
        out = [
            ("Hasher.dispatch/base-table-copied-not-shared", copied, "dispatch = Pickler.dispatch.copy()"),
            ("Hasher.dispatch/set-is-order-normalised", table.get(set) == "save_set" and "save_set" in methods, "dispatch[set] -> %s" % table.get(set)),
            ("Hasher.dispatch/dict-is-order-normalised", dict not in table and "_batch_setitems" in methods,
             "dict keeps the base save_dict, which calls the overridden _batch_setitems"),
            ("Hasher.dispatch/frozenset-is-order-normalised", frozenset in table and table.get(frozenset) in methods,
             "dispatch[frozenset] -> %s (absent: falls back to save_reduce with list(obj) in iteration order)" % table.get(frozenset)),
        ]
        # classes are values too (an argument like (int, type(None)), typing.Optional[int], int | None): pickle's own handler for `type`
        # (Pickler.save_type) reduces the three classes that cannot be imported by name - type(None), type(NotImplemented), type(...) - to
        # type(<singleton>) before it falls back to save_global.  A replacement handler must keep that, or such arguments cannot be hashed
        # and the cached wrapper rejects calls the plain function accepts (C06).
        th = table.get(type)
        tnode = next((n for n in cls.body if isinstance(n, ast.FunctionDef) and n.name == th), None)
        keeps = th is None or (tnode is not None and any(isinstance(c, ast.Call) and ast.unparse(c.func) in ("Pickler.save_type", "super().save_type") for c in ast.walk(tnode)))
        out.append(("Hasher.dispatch/classes-without-a-global-name-are-accepted", keeps,
                    "dispatch[type] -> %s: type(None), type(NotImplemented) and type(...) are not reachable as builtins.<name>; the handler must defer to Pickler.save_type for them" % th))
        # (the value types of the property's universe; function-like types legitimately share save_global, which pickles by qualified name)
        vtable = {t: h for t, h in table.items() if t in (set, frozenset, dict, list, tuple, str, bytes, int, float, bool, type(None))}
        out_discr = [
            # type discrimination: a handler replaces the value by a stand-in (e.g. _ConsistentSet(items)) that keeps the members only, so two
            # builtin types served by ONE handler get equal digests for equal members (seeded change: dispatch[frozenset] = save_set)
            ("Hasher.dispatch/one-handler-per-type", len(set(vtable.values())) == len(vtable),
             "handlers shared by several builtin value types: %s" % sorted(h for h in set(vtable.values()) if list(vtable.values()).count(h) > 1)),
        ]
        return out_discr if only_discrimination else out

    only_discrimination = False

    def dispatch_discrimination(pack):
        nonlocal only_discrimination
        only_discrimination = True
        try:
            return dispatch_table(pack)
        finally:
            only_discrimination = False

    dispatch_table.props = ["C08", "C06"]
    dispatch_discrimination.props = ["C08", "C02"]  # C02 relies on "different arguments, different keys"
    p.structural = [dispatch_table, dispatch_discrimination]
    return p
