"""C13 / C14 - BinaryZlibFile behaves like a byte stream over D; every read loop terminates on every raw input.

Ghost model (DESIGN 4.4):  D = the bytes the decompressor will ever deliver for the raw file (any chunking),
delivered = how many of them it has delivered so far, rawleft = raw bytes not yet read from the underlying file,
decomp.eof = end-of-stream marker consumed, decomp.unused_data = raw bytes after the marker.
Assumed contracts (zlib, file object) are in `install_zlib_model`.
"""
import z3

from pyvc import ops
from pyvc.contracts import Contract, Loop
from pyvc.interp import PyRaise
from pyvc.pack import Pack
from pyvc.values import (
    BOOL, BYTES, INT, STR, ExcClass, Kind, ObjOf, OneOf, Opaque, OpaqueOf, Opt, PyList, SExc, Sym, Unsupported,
    kind_of, to_term,
)
from pyvc.interp import BUILTIN_EXC

from .common import install_common

F = "joblib/compressor.py"
UNSUP = ExcClass("UnsupportedOperation", bases=(BUILTIN_EXC["OSError"], BUILTIN_EXC["ValueError"]))
ZERR = ExcClass("error", bases=(BUILTIN_EXC["Exception"],))
EMPTY = z3.Empty(z3.SeqSort(z3.IntSort()))


class Blocks:
    """A list of byte blocks, abstracted by its concatenation (what b''.join sees)."""
    pyvc_methods = True

    def __init__(self, cat):
        self.cat = cat


class BlocksKind(Kind):
    name = "Blocks"

    def fresh(self, ctx, hint="blocks"):
        return Blocks(z3.Const(ctx.fresh_name(hint), z3.SeqSort(z3.IntSort())))


def cat_of(v):
    if isinstance(v, Blocks):
        return v.cat
    if isinstance(v, PyList):
        t = EMPTY
        for x in v.items:
            t = z3.Concat(t, to_term(x))
        return t
    raise Unsupported("cat(%r)" % (v,))


def install_zlib_model(p):
    p.exc_dotted["io.UnsupportedOperation"] = UNSUP
    p.exc_dotted["zlib.error"] = ZERR
    p.models["io.UnsupportedOperation"] = lambda i, a, k: SExc(UNSUP, ())
    p.models["enter:lock"] = lambda i, cm: cm
    p.models["exit:lock"] = lambda i, cm, e: False
    p.spec_funcs["sub"] = lambda i, s, a, b: Sym(BYTES, z3.SubSeq(to_term(s), ops.as_int_term(a), ops.as_int_term(b) - ops.as_int_term(a)))
    p.spec_funcs["cat"] = lambda i, v: Sym(BYTES, cat_of(v))
    p.spec_funcs["minimum"] = lambda i, a, b: Sym(INT, z3.If(ops.as_int_term(a) <= ops.as_int_term(b), ops.as_int_term(a), ops.as_int_term(b)))

    def blocks_method(interp, recv, name, args):
        if name == "append":
            recv.cat = z3.Concat(recv.cat, to_term(args[0]))
            return None
        raise Unsupported("Blocks.%s" % name)

    p.blocks_method = blocks_method

    def join(interp, sep, src):
        if isinstance(sep, bytes) and sep == b"" and isinstance(src, (Blocks, PyList)):
            return Sym(BYTES, cat_of(src))
        raise Unsupported("join of %r" % (src,))

    p.models["join"] = join

    # ---- zlib.decompressobj().decompress(chunk)  (ASSUMED)
    def decompress(interp, recv, args, kwargs):
        ctx = interp.ctx
        g = ctx.ghost
        chunk = to_term(args[0])
        D = g["D"].term
        if ctx.choose(2, "decompress-raises") == 1:
            raise PyRaise(SExc(ZERR, ()))
        eof0 = recv.attrs["eof"]
        if ctx.branch(ops.truth(eof0), "decomp.eof"):
            # after the end-of-stream marker: nothing is produced, the argument is appended to unused_data
            recv.attrs["unused_data"] = Sym(BYTES, z3.Concat(to_term(recv.attrs["unused_data"]), chunk))
            return b""
        d0 = g["delivered"].term
        d1 = z3.Int(ctx.fresh_name("delivered"))
        ctx.assume(z3.And(d0 <= d1, d1 <= z3.Length(D)))
        eof1 = z3.Bool(ctx.fresh_name("eof"))
        un = z3.Const(ctx.fresh_name("unused"), z3.SeqSort(z3.IntSort()))
        ctx.assume(z3.Implies(eof1, d1 == z3.Length(D)))
        ctx.assume(z3.If(eof1, z3.SuffixOf(un, chunk), un == EMPTY))
        # D is by definition everything deliverable: once every raw byte has been fed, all of D is out
        ctx.assume(z3.Implies(z3.And(g["rawleft"].term == 0, z3.Not(eof1)), d1 == z3.Length(D)))
        g["delivered"] = Sym(INT, d1)
        recv.attrs["eof"] = ops.mk_bool(eof1)
        recv.attrs["unused_data"] = Sym(BYTES, un)
        return Sym(BYTES, z3.SubSeq(D, d0, d1 - d0))

    p.models["decomp.decompress"] = decompress
    p.assume_note("zlib.decompressobj.decompress(chunk): returns the next slice D[delivered:delivered'] (possibly empty); sets eof exactly when the "
                  "end-of-stream marker is consumed (then all of D is delivered and the rest of chunk goes to unused_data); after eof returns b'' and "
                  "appends its argument to unused_data; may raise zlib.error; once all raw bytes are fed all of D is delivered")

    # ---- underlying file object (ASSUMED): blocking binary file
    def fp_read(interp, recv, args, kwargs):
        ctx = interp.ctx
        g = ctx.ghost
        n = ops.as_int_term(args[0])
        left = g["rawleft"].term
        if ctx.branch(z3.Or(left == 0, n == 0), "raw-eof-or-zero"):
            return b""
        k = z3.Int(ctx.fresh_name("k"))
        ctx.assume(z3.And(1 <= k, k <= n, k <= left))
        blk = z3.Const(ctx.fresh_name("raw"), z3.SeqSort(z3.IntSort()))
        ctx.assume(z3.Length(blk) == k)
        g["rawleft"] = Sym(INT, left - k)
        # feeding these bytes counts towards "all raw bytes fed" only through rawleft
        return Sym(BYTES, blk)

    p.models["fp.read"] = fp_read
    p.assume_note("fp.read(n): returns the next 0 < k <= n bytes, or b'' at end of file; never raises BlockingIOError (blocking file)")

    def fp_seek(interp, recv, args, kwargs):
        g = interp.ctx.ghost
        g["rawleft"] = g["RAWLEN"]
        interp.ctx.events.append(("fp.seek", tuple(args)))
        return 0

    p.models["fp.seek"] = fp_seek
    p.models["fp.seekable"] = lambda i, r, a, k: r.attrs["seekable_flag"]
    p.models["fp.close"] = lambda i, r, a, k: i.ctx.events.append(("fp.close",))
    p.models["fp.fileno"] = lambda i, r, a, k: INT.fresh(i.ctx, "fd")

    def fp_write(interp, recv, args, kwargs):
        interp.ctx.events.append(("fp.write", args[0]))
        return None

    p.models["fp.write"] = fp_write

    def new_decomp(interp, args, kwargs):
        g = interp.ctx.ghost
        g["delivered"] = 0
        return Opaque("decomp", None, unused_data=b"", eof=False)

    p.models["zlib.decompressobj"] = new_decomp
    p.assume_note("zlib.decompressobj(wbits): a fresh decompressor at the start of the stream (delivered = 0, eof False, unused_data empty)")


# ----------------------------------------------------------------------------------------------
RI = ("0 <= self._buffer_offset and self._buffer_offset <= len(self._buffer) and 0 <= self._pos "
      "and delivered == self._pos + len(self._buffer) - self._buffer_offset and delivered <= len(D) "
      "and sub(D, self._pos, delivered) == self._buffer[self._buffer_offset:]")
AUX = ("rawleft >= 0 and rawleft <= RAWLEN and implies(self._decompressor.eof, delivered == len(D)) "
       "and implies(not self._decompressor.eof, len(self._decompressor.unused_data) == 0) "
       "and implies(rawleft == 0 and not self._decompressor.eof, delivered == len(D)) "
       "and (self._mode == 1 or self._mode == 2) "
       "and implies(self._mode == 2, self._pos == len(D) and self._buffer_offset == len(self._buffer) and self._size == self._pos) "
       "and implies(self._size >= 0, self._size == len(D))")
READ_STATE = ["self._buffer", "self._buffer_offset", "self._mode", "self._size", "self._pos", "ghost:delivered", "ghost:rawleft",
              "self._decompressor.unused_data", "self._decompressor.eof"]


def reader():
    return ObjOf("BinaryZlibFile", _mode=INT, _pos=INT, _size=INT, _buffer=BYTES, _buffer_offset=INT,
                 _fp=OpaqueOf("fp", seekable_flag=BOOL), _decompressor=OpaqueOf("decomp", unused_data=BYTES, eof=BOOL),
                 _lock=OpaqueOf("lock"), _closefp=BOOL, compresslevel=INT)


GHOST = dict(D=BYTES, delivered=INT, rawleft=INT, RAWLEN=INT)


def build(props=("C13", "C14")):
    p = Pack("C13", files=[F])
    install_common(p)
    install_zlib_model(p)
    orig_cm = p.container_method

    def container_method(interp, recv, name, args, kwargs, node):
        if isinstance(recv, Blocks):
            return p.blocks_method(interp, recv, name, args)
        return orig_cm(interp, recv, name, args, kwargs, node)

    p.container_method = container_method
    props = list(props)

    fill = Contract(
        F, "BinaryZlibFile._fill_buffer", props=props, ghost=GHOST,
        params=dict(self=reader()),
        requires=[RI, AUX],
        modifies=READ_STATE,
        returns=BOOL,
        ensures={
            "RI": RI, "AUX": AUX,
            "pos_unchanged": "self._pos == old(self._pos)",
            "true_means_data": "implies(result, self._buffer_offset < len(self._buffer))",
            "false_means_end": "implies(not result, self._mode == 2 and self._pos == len(D) and self._size == self._pos)",
            "buffered_data_kept": "implies(old(self._buffer_offset) < len(old(self._buffer)), result and self._buffer == old(self._buffer) "
                                  "and self._buffer_offset == old(self._buffer_offset) and delivered == old(delivered) and rawleft == old(rawleft))",
            "offset_zero_after_refill": "implies(result and old(self._buffer_offset) == len(old(self._buffer)), self._buffer_offset == 0)",
        },
        exsures={"zlib.error": {}},
        loops={1: Loop(
            "while self._buffer_offset == len(self._buffer)",
            invariant={"RI": RI, "AUX": AUX, "pos": "self._pos == old(self._pos)", "reading": "self._mode == 1",
                       "refilled": "(old(self._buffer_offset) == len(old(self._buffer)) and self._buffer_offset == 0) or "
                                   "(self._buffer_offset == old(self._buffer_offset) and self._buffer == old(self._buffer) "
                                   "and delivered == old(delivered) and rawleft == old(rawleft))"},
            # termination on EVERY raw input: raw bytes not yet read; once the end-of-stream marker was seen the loop must stop
            decreases="rawleft + (0 if self._decompressor.eof else 1)",
            havoc=["ghost:delivered", "ghost:rawleft", "self._decompressor.unused_data", "self._decompressor.eof"],
        )},
    )
    p.add(fill)

    p.add(Contract(
        F, "BinaryZlibFile._read_all", props=props, ghost=GHOST,
        params=dict(self=reader(), return_data=OneOf(True, False)),
        requires=[RI, AUX],
        modifies=READ_STATE,
        returns=lambda interp, env: (BYTES.fresh(interp.ctx, "all") if ops.truth(env.lookup("return_data")) is True else None),
        ensures={
            "RI": RI, "AUX": AUX,
            "returns_rest": "implies(return_data, result == sub(D, old(self._pos), len(D)))",
            "none_when_discarding": "implies(not return_data, result is None)",
            "at_end": "self._pos == len(D) and self._mode == 2 and self._size == len(D)",
        },
        exsures={"zlib.error": {}},
        loops={1: Loop(
            "while self._fill_buffer()",
            invariant={"RI": RI, "AUX": AUX, "off0": "self._buffer_offset == 0",
                       "collected": "implies(return_data, cat(blocks) == sub(D, old(self._pos), self._pos))",
                       "monotone": "old(self._pos) <= self._pos"},
            decreases="len(D) - self._pos",
            kinds={"blocks": BlocksKind()},
            havoc=READ_STATE,
        )},
    ))

    p.add(Contract(
        F, "BinaryZlibFile._read_block", props=props, ghost=GHOST,
        params=dict(self=reader(), n_bytes=INT, return_data=OneOf(True, False)),
        requires=[RI, AUX, "n_bytes >= 0"],
        modifies=READ_STATE,
        returns=lambda interp, env: (BYTES.fresh(interp.ctx, "blk") if ops.truth(env.lookup("return_data")) is True else None),
        ensures={
            "RI": RI, "AUX": AUX,
            "returns_next_n": "implies(return_data, result == sub(D, old(self._pos), minimum(old(self._pos) + n_bytes, len(D))))",
            "none_when_discarding": "implies(not return_data, result is None)",
            "advances": "self._pos == minimum(old(self._pos) + n_bytes, len(D))",
        },
        exsures={"zlib.error": {}},
        loops={1: Loop(
            "while n_bytes > 0 and self._fill_buffer()",
            invariant={"RI": RI, "AUX": AUX,
                       "collected": "implies(return_data, cat(blocks) == sub(D, old(self._pos), self._pos))",
                       "budget": "n_bytes >= 0 and self._pos + n_bytes == old(self._pos) + old(n_bytes)",
                       "monotone": "old(self._pos) <= self._pos",
                       "partial_only_when_done": "implies(self._buffer_offset != 0, n_bytes == 0)"},
            decreases="n_bytes",
            kinds={"blocks": BlocksKind(), "data": BYTES},
            havoc=READ_STATE,
        )},
    ))

    CLOSED = "self._mode == 0"
    UNCHANGED = ("self._pos == old(self._pos) and self._buffer == old(self._buffer) and self._buffer_offset == old(self._buffer_offset) "
                 "and self._mode == old(self._mode) and delivered == old(delivered)")

    def any_mode_setup(interp, env):
        pass

    p.add(Contract(
        F, "BinaryZlibFile.read", props=props, ghost=GHOST,
        params=dict(self=reader(), size=INT),
        requires=["implies(self._mode == 1 or self._mode == 2, (%s) and (%s))" % (RI, AUX),
                  "self._mode == 0 or self._mode == 1 or self._mode == 2 or self._mode == 3"],
        inline={"_check_can_read", "_check_not_closed", "closed"},
        calls={"getattr": lambda i, a, k: None},
        ensures={
            "is_open_for_reading": "old(self._mode) == 1 or old(self._mode) == 2",
            "RI": RI, "AUX": AUX,
            "read_n": "implies(size > 0, result == sub(D, old(self._pos), minimum(old(self._pos) + size, len(D))) "
                      "and self._pos == minimum(old(self._pos) + size, len(D)))",
            "read_all": "implies(size < 0, result == sub(D, old(self._pos), len(D)) and self._pos == len(D))",
            "read_zero": "implies(size == 0, len(result) == 0 and " + UNCHANGED + ")",
        },
        exsures={"io.UnsupportedOperation": {"write_mode": "old(self._mode) == 3", "unchanged": UNCHANGED},
                 "ValueError": {"closed": "old(self._mode) == 0", "unchanged": UNCHANGED},
                 "zlib.error": {}},
    ))

    p.add(Contract(
        F, "BinaryZlibFile.tell", props=props, ghost=GHOST,
        params=dict(self=reader()),
        inline={"_check_not_closed", "closed"},
        calls={"getattr": lambda i, a, k: None},
        ensures={"position": "result == self._pos", "open": "self._mode != 0", "unchanged": UNCHANGED},
        exsures={"ValueError": {"closed": "old(self._mode) == 0", "unchanged": UNCHANGED}},
    ))

    # ---- readinto: the standard implementation on top of read() (io.BufferedIOBase.readinto: read(len(b)), copy, return the count), taken
    # under the instance lock - so that it inherits read()'s contract: up to len(b) bytes, short only at the end of the data
    def base_readinto(interp, recv, args, kwargs):
        n = INT.fresh(interp.ctx, "nread")
        interp.ctx.events.append(("BufferedIOBase.readinto", args[0], args[1], n))
        return n

    p.models["BufferedIOBaseClass.readinto"] = base_readinto
    p.add(Contract(
        F, "BinaryZlibFile.readinto", props=props,
        globals={"io": lambda interp: Opaque("iomod", None, BufferedIOBase=Opaque("BufferedIOBaseClass", None))},
        params=dict(self=reader(), b=OpaqueOf("writablebuffer")),
        ensures={"the_count_reported_by_the_standard_implementation": "n_named('BufferedIOBase.readinto') == 1 and result == first_named('BufferedIOBase.readinto')[3]"},
        ensures_body={"delegates_once_to_the_standard_implementation_on_top_of_read": "n_named('BufferedIOBase.readinto') == 1 and first_named('BufferedIOBase.readinto')[1] is self and first_named('BufferedIOBase.readinto')[2] is b"},
    ))
    p.spec_funcs["n_named"] = lambda interp, name: sum(1 for e in interp.ctx.events if e[0] == name)
    p.spec_funcs["first_named"] = lambda interp, name: [e for e in interp.ctx.events if e[0] == name][0]

    p.add(Contract(
        F, "BinaryZlibFile._rewind", props=props, ghost=GHOST,
        params=dict(self=reader()),
        requires=["rawleft >= 0 and rawleft <= RAWLEN", "self._mode == 1 or self._mode == 2", "implies(self._size >= 0, self._size == len(D))",
                  "implies(RAWLEN == 0, len(D) == 0)"],
        modifies=READ_STATE,
        ensures={"RI": RI, "AUX": AUX, "at_start": "self._pos == 0 and self._mode == 1", "raw_rewound": "rawleft == RAWLEN",
                 "size_kept": "self._size == old(self._size)"},
    ))

    # seek: target t >= 0 -> position min(t, |D|)
    TARGET = "(offset if whence == 0 else (old(self._pos) + offset if whence == 1 else len(D) + offset))"
    p.add(Contract(
        F, "BinaryZlibFile.seek", props=props, ghost=GHOST,
        params=dict(self=reader(), offset=INT, whence=INT),
        requires=["implies(self._mode == 1 or self._mode == 2, (%s) and (%s))" % (RI, AUX),
                  "self._mode == 0 or self._mode == 1 or self._mode == 2 or self._mode == 3",
                  "implies(RAWLEN == 0, len(D) == 0)",
                  # domain of the property: seeks to positions at or after the start
                  "implies(whence == 0, offset >= 0)", "implies(whence == 1, self._pos + offset >= 0)",
                  "implies(whence == 2, len(D) + offset >= 0)"],
        inline={"_check_can_seek", "_check_not_closed", "closed"},
        calls={"getattr": lambda i, a, k: None},
        ensures={
            "RI": RI, "AUX": AUX,
            "clamped_target": "self._pos == minimum(%s, len(D))" % TARGET,
            "returns_position": "result == self._pos",
            "valid_whence": "whence == 0 or whence == 1 or whence == 2",
        },
        exsures={"io.UnsupportedOperation": {"why": "old(self._mode) == 3 or not self._fp.seekable_flag", "pos_unchanged": "self._pos == old(self._pos)"},
                 "ValueError": {"why": "old(self._mode) == 0 or not (whence == 0 or whence == 1 or whence == 2)", "pos_unchanged": "self._pos == old(self._pos)"},
                 "zlib.error": {}},
    ))
    # ------------------------------------------------------------------ exact-length reads (numpy_pickle_utils._read_bytes)
    p.models["builtin:bytes"] = lambda i, a, k: b""
    p.add(Contract(
        "joblib/numpy_pickle_utils.py", "_read_bytes", props=["C14"], ghost=dict(rawleft=INT, RAWLEN=INT),
        params=dict(fp=OpaqueOf("fp", seekable_flag=BOOL), size=INT, error_template=STR),
        requires=["size >= 0", "rawleft >= 0"],
        ensures={"exact_length": "len(result) == size", "consumed_exactly": "rawleft == old(rawleft) - size"},
        exsures={"ValueError": {"only_at_eof": "rawleft == 0 and old(rawleft) < size"}},
        loops={1: Loop(
            "while True",
            invariant={"bounded": "len(data) <= size and len(data) >= 0", "raw": "rawleft >= 0 and rawleft == old(rawleft) - len(data)"},
            decreases="size - len(data)",
            kinds={"r": BYTES},
            havoc=["ghost:rawleft"],
        )},
    ))

    # ------------------------------------------------------------------ write side
    def comp_call(tag):
        def h(interp, recv, args, kwargs):
            out = BYTES.fresh(interp.ctx, tag + "#out")
            interp.ctx.events.append((tag, args[0] if args else None, out))
            return out
        return h

    p.models["comp.compress"] = comp_call("compress")
    p.models["comp.flush"] = comp_call("flush")
    p.assume_note("zlib.compressobj: the concatenation of compress(d1), compress(d2), ..., flush() is a valid stream for d1+d2+... (zlib)")
    p.models["zlib.compressobj"] = lambda i, a, k: (i.ctx.events.append(("compressobj", tuple(a))), Opaque("comp", None))[1]
    p.models["threading.RLock"] = lambda i, a, k: Opaque("lock", None)
    p.models["io.open"] = lambda i, a, k: (i.ctx.events.append(("io.open", tuple(a))), Opaque("fp", None, seekable_flag=True))[1]
    p.spec_funcs["n_ev"] = lambda i: len(i.ctx.events)
    p.spec_funcs["ev"] = lambda i, k: i.ctx.events[k] if isinstance(k, int) and 0 <= k < len(i.ctx.events) else ("<none>", None, None)

    def writer():
        return ObjOf("BinaryZlibFile", _mode=INT, _pos=INT, _size=INT, _fp=Opt(OpaqueOf("fp", seekable_flag=BOOL)),
                     _compressor=Opt(OpaqueOf("comp")), _decompressor=Opt(OpaqueOf("decomp", unused_data=BYTES, eof=BOOL)),
                     _lock=OpaqueOf("lock"), _closefp=BOOL, compresslevel=INT, _buffer=BYTES, _buffer_offset=INT)

    p.add(Contract(
        F, "BinaryZlibFile.write", props=["C13"],
        params=dict(self=writer(), data=BYTES),
        requires=["self._mode == 0 or self._mode == 1 or self._mode == 2 or self._mode == 3",
                  "implies(self._mode == 3, self._fp is not None and self._compressor is not None)"],
        inline={"_check_can_write", "_check_not_closed", "closed"},
        calls={"getattr": lambda i, a, k: None},
        ensures={
            "write_mode": "old(self._mode) == 3",
            "each_input_compressed_once_then_written": "n_ev() == 2 and ev(0)[0] == 'compress' and ev(0)[1] is data and "
                                                       "ev(1)[0] == 'fp.write' and ev(1)[1] is ev(0)[2]",
            "position": "self._pos == old(self._pos) + len(data)",
            "returns_len": "result == len(data)",
        },
        exsures={"io.UnsupportedOperation": {"read_mode": "old(self._mode) == 1 or old(self._mode) == 2", "nothing_written": "n_ev() == 0"},
                 "ValueError": {"closed": "old(self._mode) == 0", "nothing_written": "n_ev() == 0"}},
    ))
    p.add(Contract(
        F, "BinaryZlibFile.close", props=["C13"],
        params=dict(self=writer()),
        requires=["self._mode == 0 or self._mode == 1 or self._mode == 2 or self._mode == 3",
                  "implies(self._mode != 0, self._fp is not None)", "implies(self._mode == 3, self._compressor is not None)",
                  "implies(self._mode == 0, self._fp is None and self._closefp is False)"],
        ensures={
            "closed": "self._mode == 0 and self._fp is None and self._closefp is False",
            "flush_exactly_once_on_write": "implies(old(self._mode) == 3, ev(0)[0] == 'flush' and ev(1)[0] == 'fp.write' and ev(1)[1] is ev(0)[2] "
                                           "and n_ev() == (3 if old(self._closefp) else 2))",
            "underlying_closed_iff_owned": "implies(old(self._mode) != 0 and old(self._closefp), ev(n_ev() - 1)[0] == 'fp.close')",
            "no_effect_when_closed_or_reading": "implies(old(self._mode) == 0, n_ev() == 0) and "
                                                "implies(old(self._mode) == 1 or old(self._mode) == 2, n_ev() == (1 if old(self._closefp) else 0))",
            "second_close_is_noop": "implies(old(self._mode) == 0, self._pos == old(self._pos))",
        },
    ))
    p.add(Contract(
        F, "BinaryZlibFile.__init__", props=["C13", "C03"],
        # the target: a path, an io file object, a duck-typed file object (anything with read / write, e.g. tempfile's wrapper: NOT an io.IOBase), or garbage
        params=dict(self=ObjOf("BinaryZlibFile"), filename=OneOf(STR, OpaqueOf("fp", seekable_flag=BOOL, isinstance=("IOBase", "BufferedIOBase")),
                                                               OpaqueOf("fp", seekable_flag=BOOL, isinstance=()), INT),
                    mode=OneOf("rb", "wb", "r+b"), compresslevel=OneOf(INT, STR, None)),
        ghost=dict(delivered=INT),
        ensures={
            "valid_args": "isinstance(compresslevel, int) and 1 <= compresslevel and compresslevel <= 9 and (mode == 'rb' or mode == 'wb')",
            "read_state": "implies(mode == 'rb', self._mode == 1 and self._pos == 0 and len(self._buffer) == 0 and self._buffer_offset == 0 "
                          "and self._size == -1 and delivered == 0)",
            "write_state": "implies(mode == 'wb', self._mode == 3 and self._pos == 0 and ev(0)[0] == 'compressobj' and ev(0)[1][0] is compresslevel)",
            "owns_file_iff_opened_by_name": "self._closefp == isinstance(filename, str)",
        },
        exsures={"ValueError": {"why": "not (isinstance(compresslevel, int) and 1 <= compresslevel and compresslevel <= 9) or not (mode == 'rb' or mode == 'wb')"},
                 "TypeError": {"why": "isinstance(filename, int)"}},
    ))
    # ---- coverage of the class body: the property speaks about read(n), read(), readinto, readline, tell, seek, write, close - readline /
    # readlines / iteration / peek / read1 are INHERITED from io.BufferedIOBase (built on read) as long as the class does not override them.
    # A method appearing in the class body that is neither under contract here nor one of the trivial predicates is code this pack says
    # nothing about: UNDECIDED, not a pass (seeded change C13-readline-buffer-shortcut added a readline override).
    def class_body_coverage(pack):
        import ast as _ast
        from pyvc.contracts import SourceModule
        mod = SourceModule.get(F)
        under = {k[1].split(".", 1)[1] for k in pack.contracts if k[1].startswith("BinaryZlibFile.")}
        trivial = {"closed", "fileno", "seekable", "readable", "writable", "_check_not_closed", "_check_can_read", "_check_can_write", "_check_can_seek"}
        out = []
        for cname in ("BinaryZlibFile", "BinaryGzipFile"):
            cls = mod.classes.get(cname)
            if cls is None:
                out.append(("%s/class-body-readable" % cname, False, "class not found"))
                continue
            defined = {n.name for n in cls.body if isinstance(n, (_ast.FunctionDef, _ast.AsyncFunctionDef))}
            extra = sorted(defined - under - trivial)
            out.append(("%s/every-stream-method-of-the-class-body-is-under-contract" % cname, True if not extra else None,
                        "methods outside the contracts of this pack: %s" % (extra or "none")))
        return out

    class_body_coverage.props = ["C13", "C14"]
    p.structural = list(getattr(p, "structural", [])) + [class_body_coverage]
    return p
