"""Property -> packs, bounded stand-ins, native replay harness, notes (read by pyvc.check)."""

REGISTRY = {
    "C18": dict(
        packs=["c18"],
        level="proof",
        replay=dict(script="replay/c18.py", args=["search", "3"], timeout=900),
        bounded=[
            dict(name="memstr_to_bytes-exhaustive", script="replay/c18.py", args=["memstr", "3000"],
                 bound="integer literals 0..2999 and 3 large ones x {K,M,G}; 7 malformed; 3 fractional"),
            dict(name="lru-prefix-small-scope", script="replay/c18.py", args=["search", "2"],
                 bound="all inventories of <=2 items (sizes 0..2, 3 access times with ties) x 7 byte limits x 4 item limits x 5 age limits",
                 ),
        ],
        trusted=["list.sort(key=) is a stable ascending permutation (CPython)", "List.Perm.sum_eq (sum invariant under permutation)"],
        assumptions=["get_items() sizes are >= 0", "boundary convention: an item accessed exactly age_limit ago is evicted (as the code does)"],
        undecided_clauses=["'surviving entries stay loadable and evicted ones are recomputed on demand' is carried by C05/C02 contracts, not here"],
    ),
}

NOT_APPLICABLE = {
    "C10": "liveness over OS process faults, pipes and time across processes: no function contract within reach expresses "
           "'every kill instant is noticed within bounded time'; fragments do not carry the property (DESIGN.md section 6)",
}

MANIFEST_TEXT = {
    "C18": dict(
        text="Unbounded proof (inductive loop invariant with prefix sums and a quantified minimality clause) that "
             "_get_items_to_delete returns exactly the shortest prefix of the stable LRU order meeting byte, item and age limits, "
             "for every inventory (any length, ties, zero sizes) and every limit combination; enforce_store_limits clears exactly "
             "those paths and swallows OSError; reduce_size delegates once with the same arguments or does nothing.",
        note="Assumed: list.sort is a stable ascending permutation and sums are permutation-invariant; get_items sizes >= 0; "
             "datetimes/timedeltas as reals; memstr_to_bytes only bounded-checked natively (integer literals exhaustively to 3000); "
             "clear_location (rmtree) external. Native small-scope search is a replay aid, not counted as proof.",
    ),
}
