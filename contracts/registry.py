"""Property -> packs, bounded stand-ins, native replay harness, notes (read by pyvc.check)."""

REGISTRY = {
    "C07": dict(
        packs=["c07"], level="proof",
        replay=dict(script="replay/c07.py", args=["4"], timeout=900),
        bounded=[dict(name="audit-scenarios", script="replay/found.py", args=["C07", "{tier}"], timeout=1500, bound="scenarios contributed by audit sub-agents (replay/found/MANIFEST.json): repaired defects must stay repaired, recorded findings are probed"), dict(name="filter_args-vs-interpreter", script="replay/c07.py", args=["4"],
                      bound="every signature with <= 4 parameters (5 kinds x default/no default, Python's well-formedness), as plain function, as bound method and as method without a parameter for the instance (def m(*args, ...)), x every call shape "
                            "(48157 calls, 5476 accepted by the interpreter itself); also validates the pybind / accepts specification against real calls")],
        trusted=["inspect.signature returns a well-formed parameter list matching the function (kinds ordered, one */** at most, distinct identifiers): block axioms of contracts/c07.py",
                 "sorted(kwargs.items()) enumerates each keyword once"],
        assumptions=["unbounded proof for plain functions and for bound methods (first parameter positional, or *args receiving the instance); functools.partial objects (K22) and functools.wraps wrappers (K15) only through the bounded oracle",
                     "ignore list: distinct names that are keys of the full result"],
        undecided_clauses=[],
    ),
    "C19": dict(
        packs=["c19"], level="proof",
        replay=dict(script="replay/c19.py", args=["small"], timeout=900, python="/verif/.venv_np/bin/python"),
        bounded=[dict(name="audit-scenarios", script="replay/found.py", args=["C19", "{tier}"], timeout=1500, bound="scenarios contributed by audit sub-agents (replay/found/MANIFEST.json): repaired defects must stay repaired, recorded findings are probed"), dict(name="numpy-round-trip-grid", script="replay/c19.py", args=["{tier}"], timeout=1500, python="/verif/.venv_np/bin/python",
                      bound="12 dtypes (both endiannesses, structured, object, datetime, str/bytes) x 7 shapes (0-d, empty, n-d) x C/Fortran/non-contiguous layouts, alone and nested, x 3 (quick) or 6 "
                            "(thorough) compressors; 4 mmap modes with alignment and file-unchanged checks (numpy from the offline wheelhouse in an overlay venv built by setup.sh)")],
        trusted=["numpy: nditer yields every element once in the requested order; frombuffer(tobytes) is the identity; make_memmap maps nbytes at offset; multiply.reduce(shape) is the element count",
                 "file handle position model (tell/read/write/seek)"],
        assumptions=["item sizes of the chunked read loop: {0, 1, 2, 4, 8, 16, 2**18 - 1, 2**18, 2**18 + 1, 300000} (a finite set keeps the arithmetic linear; sizes around the 256 KiB read buffer included)", "_read_bytes consumes exactly n bytes (C14)",
                     "worker-side memmapping under contract: _reduce_memmap_backed (2-d views, symbolic strides: aligned / unaligned / negative), ArrayMemmapForwardReducer.__call__ (threshold, mmap_mode None, unnamed backing file, tracker registrations), "
                     "reduce_array_memmap_backward, load_temporary_memmap, add_maybe_unlink_finalizer, _log_and_unlink; loky's own reducers and the pickling of the reduction tuples are external",
                     "numpy array class set: the pickler wraps exactly ndarray, memmap and matrix (NumpyPickler.save contract: classes whose whole state is dtype, shape and bytes)"],
        undecided_clauses=["dtype / endianness semantics, object arrays, subclasses and worker-side memmapping end to end are numpy's / loky's; only covered by the bounded native grid"],
    ),
    "C16": dict(
        packs=["par1", "par2", "par3", "par4"], level="proof", lemmas=["c16_abandon"],
        replay=dict(script="replay/par.py", args=["C16", "{seed}", "small"], timeout=1500),
        bounded=[dict(name="audit-scenarios", script="replay/found.py", args=["C16", "{tier}"], timeout=1500, bound="scenarios contributed by audit sub-agents (replay/found/MANIFEST.json): repaired defects must stay repaired, recorded findings are probed"), dict(name="parallel-configurations", script="replay/par.py", args=["C16", "{seed}", "small"], timeout=1500,
                      bound="real joblib.Parallel on threading/sequential (and a sample of loky) over n_jobs x batch_size x pre_dispatch x return_as grids, failing tasks/inputs, "
                            "timeouts, instrumented input iterators, generator abandon/overlap scenarios")],
        trusted=["backend contract (public extension API): every submitted batch runs at most once, its callback is invoked at most once with the results in item order or an error",
                 "monitor rule: state written only under Parallel._lock with the lock invariant re-established before each release satisfies it in every interleaving (meta-theorem)",
                 "queue.Queue FIFO, collections.deque, itertools.islice semantics", "function summaries used between the four parts of the pack mirror contracts proved in another part (link by inspection)"],
        assumptions=["ordered mode for the in-order claims", "batch_size='auto' (variant dispatch_one_batch[auto-batch-size]): the look-ahead bound is stated with the largest batch size any thread has computed so far (ghost BSMAX, compute_batch_size >= 1 from its part-1 contract)", "_get_sequential_output: 3-task unrolling plus the variant any-number-of-tasks (loop invariant: the k-th iteration runs task k, yields it as the k-th result, counters follow); BatchedCalls.__call__ is shape-bounded (3 items: the list comprehension is Python's)"],
        undecided_clauses=["'as soon as' in wall-clock terms (10 ms polling) and garbage-collection timing"],
    ),
    "C09": dict(
        packs=["par1", "par2", "par3", "par4"], level="proof",
        replay=dict(script="replay/par.py", args=["C09", "{seed}", "small"], timeout=1500),
        bounded=[dict(name="audit-scenarios", script="replay/found.py", args=["C09", "{tier}"], timeout=1500, bound="scenarios contributed by audit sub-agents (replay/found/MANIFEST.json): repaired defects must stay repaired, recorded findings are probed"), dict(name="parallel-configurations", script="replay/par.py", args=["C09", "{seed}", "small"], timeout=1500,
                      bound="real joblib.Parallel on threading/sequential (and a sample of loky) over n_jobs x batch_size x pre_dispatch x return_as grids, failing tasks/inputs, "
                            "timeouts, instrumented input iterators, generator abandon/overlap scenarios")],
        trusted=["backend contract (public extension API): every submitted batch runs at most once, its callback is invoked at most once with the results in item order or an error",
                 "monitor rule: state written only under Parallel._lock with the lock invariant re-established before each release satisfies it in every interleaving (meta-theorem)",
                 "queue.Queue FIFO, collections.deque, itertools.islice semantics", "function summaries used between the four parts of the pack mirror contracts proved in another part (link by inspection)"],
        assumptions=["ordered mode for the in-order claims", "batch_size='auto' (variant dispatch_one_batch[auto-batch-size]): the look-ahead bound is stated with the largest batch size any thread has computed so far (ghost BSMAX, compute_batch_size >= 1 from its part-1 contract)", "_get_sequential_output: 3-task unrolling plus the variant any-number-of-tasks (loop invariant: the k-th iteration runs task k, yields it as the k-th result, counters follow); BatchedCalls.__call__ is shape-bounded (3 items: the list comprehension is Python's)"],
        undecided_clauses=[],
    ),
    "C04": dict(
        packs=["par1", "par2", "par3", "par4"], level="proof", lemmas=["c04_error_delivery"],
        replay=dict(script="replay/par.py", args=["C04", "{seed}", "small"], timeout=1500),
        bounded=[dict(name="audit-scenarios", script="replay/found.py", args=["C04", "{tier}"], timeout=1500, bound="scenarios contributed by audit sub-agents (replay/found/MANIFEST.json): repaired defects must stay repaired, recorded findings are probed"), dict(name="parallel-configurations", script="replay/par.py", args=["C04", "{seed}", "small"], timeout=1500,
                      bound="real joblib.Parallel on threading/sequential (and a sample of loky) over n_jobs x batch_size x pre_dispatch x return_as grids, failing tasks/inputs, "
                            "timeouts, instrumented input iterators, generator abandon/overlap scenarios")],
        trusted=["backend contract (public extension API): every submitted batch runs at most once, its callback is invoked at most once with the results in item order or an error",
                 "monitor rule: state written only under Parallel._lock with the lock invariant re-established before each release satisfies it in every interleaving (meta-theorem)",
                 "queue.Queue FIFO, collections.deque, itertools.islice semantics", "function summaries used between the four parts of the pack mirror contracts proved in another part (link by inspection)"],
        assumptions=["ordered mode for the in-order claims", "batch_size='auto' (variant dispatch_one_batch[auto-batch-size]): the look-ahead bound is stated with the largest batch size any thread has computed so far (ghost BSMAX, compute_batch_size >= 1 from its part-1 contract)", "_get_sequential_output: 3-task unrolling plus the variant any-number-of-tasks (loop invariant: the k-th iteration runs task k, yields it as the k-th result, counters follow); BatchedCalls.__call__ is shape-bounded (3 items: the list comprehension is Python's)"],
        undecided_clauses=["the call always terminates (liveness over threads/processes) is not decided"],
    ),
    "C01": dict(
        packs=["par1", "par2", "par3", "par4"], level="proof", lemmas=["c01_composition"],
        replay=dict(script="replay/par.py", args=["C01", "{seed}", "small"], timeout=1500),
        bounded=[dict(name="audit-scenarios", script="replay/found.py", args=["C01", "{tier}"], timeout=1500, bound="scenarios contributed by audit sub-agents (replay/found/MANIFEST.json): repaired defects must stay repaired, recorded findings are probed"), dict(name="parallel-configurations", script="replay/par.py", args=["C01", "{seed}", "small"], timeout=1500,
                      bound="real joblib.Parallel on threading/sequential (and a sample of loky) over n_jobs x batch_size x pre_dispatch x return_as grids, failing tasks/inputs, "
                            "timeouts, instrumented input iterators, generator abandon/overlap scenarios")],
        trusted=["backend contract (public extension API): every submitted batch runs at most once, its callback is invoked at most once with the results in item order or an error",
                 "monitor rule: state written only under Parallel._lock with the lock invariant re-established before each release satisfies it in every interleaving (meta-theorem)",
                 "queue.Queue FIFO, collections.deque, itertools.islice semantics", "function summaries used between the four parts of the pack mirror contracts proved in another part (link by inspection)"],
        assumptions=["ordered mode for the in-order claims", "batch_size='auto' (variant dispatch_one_batch[auto-batch-size]): the look-ahead bound is stated with the largest batch size any thread has computed so far (ghost BSMAX, compute_batch_size >= 1 from its part-1 contract)", "_get_sequential_output: 3-task unrolling plus the variant any-number-of-tasks (loop invariant: the k-th iteration runs task k, yields it as the k-th result, counters follow); BatchedCalls.__call__ is shape-bounded (3 items: the list comprehension is Python's)"],
        undecided_clauses=["fairness / termination of the retrieval loop; behaviour of third-party backends", "generator_unordered: _retrieve[unordered] proves that each finished batch is delivered exactly once, in queue order; that the queue order IS the completion order rests on _register_outcome's enqueue under the lock (part 1)"],
    ),
    "C03": dict(
        packs=["c03", "c13"], level="proof",
        replay=dict(script="replay/c03.py", args=[], timeout=900),
        bounded=[dict(name="audit-scenarios", script="replay/found.py", args=["C03", "{tier}"], timeout=1500, bound="scenarios contributed by audit sub-agents (replay/found/MANIFEST.json): repaired defects must stay repaired, recorded findings are probed"), dict(name="round-trip-battery", script="replay/c03.py", args=[],
                      bound="15 objects x 16 compress forms x 7 file names (+ renamed copy, open file, BytesIO); shared/recursive references under every protocol >= 2; 5 invalid requests")],
        trusted=["each codec's writer output starts with its magic prefix and its reader inverts its writer (zlib/gzip via C13's contracts; bz2/lzma/xz/lz4 external)",
                 "pickle._Pickler/_Unpickler round-trip values with shared and recursive references", "io.BufferedReader/Writer are transparent"],
        assumptions=["only the compressors registered by numpy_pickle.py", "protocol >= 2 pickles start with byte 0x80", "NumpyPickler.save of a non-array object is Pickler.save (array branch: C19)"],
        undecided_clauses=["equality of reconstructed user objects is a property of pickle (assumed); the joblib-owned part is format agreement: writer chosen by dump == reader chosen by load"],
    ),
    "C08": dict(
        packs=["c08"], level="proof",
        replay=dict(script="replay/c08.py", args=["3"], timeout=600),
        bounded=[dict(name="audit-scenarios", script="replay/found.py", args=["C08", "{tier}"], timeout=1500, bound="scenarios contributed by audit sub-agents (replay/found/MANIFEST.json): repaired defects must stay repaired, recorded findings are probed"), dict(name="cross-process-seed-and-order", script="replay/c08.py", args=["3"],
                      bound="25 values (nested dicts/sets, mixed keys, decimals, equal distinct strings) hashed in 6 fresh interpreters (3 PYTHONHASHSEEDs x 2 construction orders) "
                            "against a reference process; 5 discrimination groups; all pairs of a recursive universe of ~1000 builtin values (equal digests <=> equal type-aware canonical form)"),
                 dict(name="numpy-hash-discrimination", script="replay/c08.py", args=["numpy"], timeout=900, python="/verif/.venv_np/bin/python",
                      bound="~120 numpy values (10 dtypes x shapes / orders / views / 0-d / empty, empty shapes sharing bytes and strides, arrays of 5 KB - 1 MB differing in one late byte, object arrays, dtype objects, scalars, np.matrix, memmap with and without coerce_mmap): all pairs get different digests, equal copies and pickle round trips the same, 3 interpreter processes with different hash seeds agree")],
        trusted=["pickle._Pickler emits a stream that is a function of the tokens it is handed, injective incl. type tags", "md5 / sha1 collision-freeness",
                 "sorted(): canonical on strict total orders, TypeError when a comparison raises, input-order dependent on partial orders"],
        assumptions=["induction hypothesis: joblib's own hash of a sub-value is a function of its abstract value", "NumpyHasher.save is under contract at the level of what reaches the digest (all element bytes once through a contiguous view; dtype, shape, strides, class in the pickled stand-in); numpy's own view / flatten / transpose are external, and state an ndarray SUBCLASS keeps next to its buffer (a mask) is outside C08's universe"],
        undecided_clauses=["type discrimination of leaves is the base pickler's (assumed); the joblib-owned part is that no override maps two abstract values to one token sequence"],
    ),
    "C05": dict(
        packs=["store", "mem", "xfl"], level="proof",
        replay=dict(script="replay/mem.py", args=["C05"], timeout=600),
        bounded=[dict(name="audit-scenarios", script="replay/found.py", args=["C05", "{tier}"], timeout=1500, bound="scenarios contributed by audit sub-agents (replay/found/MANIFEST.json): repaired defects must stay repaired, recorded findings are probed"), dict(name="crash-state-recovery", script="replay/mem.py", args=["C05"],
                      bound="fresh-process call from every crash state of one entry: missing/torn metadata, missing/torn output, empty entry dir, leftover temporary, "
                            "removed function dir, func_code.py truncated at EVERY length; with and without expires_after")],
        trusted=["POSIX model of contracts/store.py: atomic rename, a crash leaves a prefix of the issued effects, no reordering by the disk (fsync out of scope)",
                 "abstract store contracts of contracts/mem.py (they are the summaries of the store pack's contracts; the link is by inspection, not mechanised)"],
        assumptions=["directory components (function id, argument hash) are never named output.pkl / metadata.json", "OS errors other than EEXIST/ENOENT (permissions, full disk) are out of scope",
                     "a write error swallowed inside the with-block of a writer leaves the file torn (never 'complete'); shutil.rmtree that returns has removed the whole subtree"],
        undecided_clauses=["reduce_size crash points: eviction only removes (every rmtree prefix state satisfies CI); Memory.clear / invalidation: results never outlive their code file (proved for clear_path[sequential])"],
    ),
    "C11": dict(
        packs=["store", "mem", "c18"], level="proof",
        replay=dict(script="replay/c11.py", args=["{seed}", "3", "3", "200"], timeout=900),
        bounded=[dict(name="audit-scenarios", script="replay/found.py", args=["C11", "{tier}"], timeout=1500, bound="scenarios contributed by audit sub-agents (replay/found/MANIFEST.json): repaired defects must stay repaired, recorded findings are probed"), dict(name="threads-and-processes-stress", script="replay/c11.py", args=["{seed}", "3", "3", "200"],
                      bound="3 threads + 3 processes x 200 operations on one cache directory (calls with 7 argument values, 8% reduce_size, 3% clear); "
                            "all values checked, every output.pkl left behind loaded")],
        trusted=["interference model: between two file-system primitives of one user the whole file system may change arbitrarily except that this user's own temporaries "
                 "(its thread id and pid) are never created or rewritten by others - they may vanish, removed with their entry by a concurrent clear()/reduce_size() - and every visible result file is complete (the guarantee proved for every writer in this pack); os.makedirs is not atomic across levels",
                 "an open file descriptor keeps reading the old file after replace/unlink (POSIX)"],
        assumptions=["atomic steps are the file-system primitives; rmtree and in-place rewriting are sequences of steps", "mmap_mode: only the re-load in MemorizedFunc._call is covered (variant mmap_mode)",
                     "get_items is under contract in pack c18 (no exception escapes whichever getatime/getsize fails; shape-bounded to <= 2 listed files per entry); enforce_store_limits swallows OSError of each removal (pack c18)"],
        undecided_clauses=["no schedule is enumerated: the adversary is the rely relation (any number of other users)",
                           "two racing clearers may see FileNotFoundError from rm_subdirs (outside the property: it is about calls of cached functions)"],
    ),
    "C02": dict(
        packs=["mem", "c07", "c08", "xfl"], level="proof",
        replay=dict(script="replay/mem.py", args=["C02"], timeout=600),
        bounded=[dict(name="numpy-hash-discrimination", script="replay/c08.py", args=["numpy"], timeout=900, python="/verif/.venv_np/bin/python",
                      bound="~120 numpy values (10 dtypes x shapes / orders / views / 0-d / empty, empty shapes sharing bytes and strides, arrays of 5 KB - 1 MB differing in one late byte, object arrays, dtype objects, scalars, np.matrix, memmap with and without coerce_mmap): all pairs get different digests, equal copies and pickle round trips the same, 3 interpreter processes with different hash seeds agree"), dict(name="hash-discrimination-all-pairs", script="replay/c08.py", args=["pairs"], timeout=600, bound="joblib.hash over a recursive universe of ~1000 builtin scalars / containers (depth 2): equal digests <=> equal type-aware canonical form, all pairs, md5 and sha1"), dict(name="audit-scenarios", script="replay/found.py", args=["C02", "{tier}"], timeout=1500, bound="scenarios contributed by audit sub-agents (replay/found/MANIFEST.json): repaired defects must stay repaired, recorded findings are probed"), dict(name="memory-scenarios", script="replay/mem.py", args=["C02"],
                      bound="call-form equivalence / redefinition / crash-state scenarios on a real cache directory (every truncation length of func_code.py, "
                            "missing or torn metadata and output, leftover temporaries, with and without expires_after); extract_first_line on every prefix"), dict(name="filter_args-vs-interpreter", script="replay/c07.py", args=["4"],
                          bound="every signature with <= 4 parameters x every call shape (31441 calls, 3591 accepted by Python)")],
        trusted=["abstract store contracts (contracts/mem.py docstring)", "KEY = hash(filter_args(...)) identifies the bound arguments outside the ignore list (filter_args: C07 contract; hashing: C08)",
                 "the cached function is pure and get_func_code returns its current source"],
        assumptions=["mmap_mode is None except for MemorizedFunc._call[mmap_mode]", "single process between two store calls (concurrency: C11)"],
        undecided_clauses=["compression settings do not enter the logic under contract (they are passed through to numpy_pickle.dump, C03)"],
    ),
    "C06": dict(
        packs=["mem", "c07", "c08", "fmt", "loc", "gfn"], level="proof",
        replay=dict(script="replay/mem.py", args=["C06"], timeout=600),
        bounded=[dict(name="audit-scenarios", script="replay/found.py", args=["C06", "{tier}"], timeout=1500, bound="scenarios contributed by audit sub-agents (replay/found/MANIFEST.json): repaired defects must stay repaired, recorded findings are probed"), dict(name="memory-scenarios", script="replay/mem.py", args=["C06"],
                      bound="call-form equivalence / redefinition / crash-state scenarios on a real cache directory (every truncation length of func_code.py, "
                            "missing or torn metadata and output, leftover temporaries, with and without expires_after); extract_first_line on every prefix"), dict(name="filter_args-vs-interpreter", script="replay/c07.py", args=["4"],
                          bound="every signature with <= 4 parameters x every call shape: acceptance and equal canonical form of equivalent calls")],
        trusted=["abstract store contracts", "equal bound arguments give equal KEY (C07 bounded oracle, C08)"],
        assumptions=["'every call that the plain function accepts is accepted by the wrapper': filter_args accepts every call Python accepts (unbounded proof, plain functions and bound methods) and the forwarding entry points declare self positional-only (structural obligations); functools.partial objects and functools.wraps wrappers (K15): bounded oracle / recorded finding"],
        undecided_clauses=[],
    ),
    "C12": dict(
        packs=["mem", "xfl", "loc", "gfc"], level="proof",
        replay=dict(script="replay/mem.py", args=["C12"], timeout=600),
        bounded=[dict(name="audit-scenarios", script="replay/found.py", args=["C12", "{tier}"], timeout=1500, bound="scenarios contributed by audit sub-agents (replay/found/MANIFEST.json): repaired defects must stay repaired, recorded findings are probed"), dict(name="memory-scenarios", script="replay/mem.py", args=["C12"],
                      bound="call-form equivalence / redefinition / crash-state scenarios on a real cache directory (every truncation length of func_code.py, "
                            "missing or torn metadata and output, leftover temporaries, with and without expires_after); extract_first_line on every prefix")],
        trusted=["abstract store contracts", "get_func_code (under contract in the gfc pack: the block at co_firstlineno of the file as read at this call, never an exception) rests on tokenize.open / itertools.islice / inspect.getblock as assumed in contracts/gfc.py; the link between its contract and the `current source` summary of the mem pack is by inspection; hash()/id() of live function objects are stable"],
        assumptions=["a torn func_code.py never parses to exactly the current source"],
        undecided_clauses=[],
    ),
    "C20": dict(
        packs=["c20", "c20b", "c19"],
        level="proof",
        replay=dict(script="replay/c20.py", args=["{seed}", "25"], timeout=900),
        bounded=[dict(name="audit-scenarios", script="replay/found.py", args=["C20", "{tier}"], timeout=1500, bound="scenarios contributed by audit sub-agents (replay/found/MANIFEST.json): repaired defects must stay repaired, recorded findings are probed"), dict(name="tracker-process-histories", script="replay/c20.py", args=["{seed}", "25"],
                      bound="25 random request histories (<= 25 lines; balanced, unbalanced, malformed, unknown types, names with ':' and raising clean-ups) "
                            "fed to the real main() in a child process; unlink_file under 4 fault patterns")],
        trusted=["the kernel delivers EOF on the pipe exactly when the last client closed or died; lines are delivered whole (PIPE_BUF)",
                 "str.split(':') / bytes.decode('ascii') abstracted (>= 1 parts; decode may raise)"],
        assumptions=["_CLEANUP_FUNCS = {folder, file, semlock} on posix", "clean-up functions may raise any Exception, not BaseException",
                     "client side: TemporaryResourcesManager.register_new_context and _clean_temporary_resources (one context) are under contract (shape-bounded to two "
                     "concrete context ids, unbounded number of files); the atexit finalizer body, the recursion over all contexts, the reducers' per-file REGISTER "
                     "requests and the executor shutdown sequence are not", "the tracker process may run with warnings turned into errors (inherited -W flags): warnings.warn may raise"],
        undecided_clauses=["multi-process timing; Windows handles"],
    ),
    "C13": dict(
        packs=["c13"],
        level="proof",
        replay=dict(script="replay/c13.py", args=["stream", "{seed}", "8"], timeout=600),
        bounded=[dict(name="stream-vs-BytesIO", script="replay/c13.py", args=["stream", "{seed}", "8"],
                      bound="8 random payloads (sizes around the 8 KiB buffer) x {zlib, gzip} x 30 random read/seek/tell/readinto/readline operations; "
                            "write side in random chunkings and levels decoded by the standard zlib/gzip decoders")],
        trusted=["zlib.decompressobj / compressobj streaming contracts (DESIGN 4.4)", "underlying blocking file object: read(n) returns 0<k<=n bytes or b'' at EOF",
                 "io.BufferedIOBase.readinto/readline are implemented on top of read() (CPython)"],
        assumptions=["seek targets are >= 0 (domain of the property)", "fp.write does not raise"],
        undecided_clauses=["readline is inherited from io.BufferedIOBase (external): covered only by the bounded native comparison; readinto has a delegation contract (BinaryZlibFile.readinto)"],
    ),
    "C14": dict(
        packs=["c13", "mem", "c19", "c03"],
        level="proof",
        replay=dict(script="replay/c13.py", args=["damaged", "{seed}", "3"], timeout=900, python="/verif/.venv_np/bin/python"),
        bounded=[dict(name="audit-scenarios", script="replay/found.py", args=["C14", "{tier}"], timeout=1500, bound="scenarios contributed by audit sub-agents (replay/found/MANIFEST.json): repaired defects must stay repaired, recorded findings are probed"), dict(name="truncation-and-trailing-bytes", script="replay/c13.py", args=["damaged", "{seed}", "3"], python="/verif/.venv_np/bin/python",
                      bound="3 small objects + 2 numpy payloads (array alone, arrays in a dict: joblib's own chunked array reader) x 6 compressors x every truncation point + 4 over-long variants, 15 s watchdog per load")],
        trusted=["pickle._Unpickler.load on a strict prefix of a valid stream raises (it can only return at STOP)",
                 "zlib / file-object contracts as in C13"],
        assumptions=["bz2 / lzma / gzip module readers are externals: their termination is only exercised by the bounded native check"],
        undecided_clauses=["'a damaged cache entry makes Memory recompute' is the except-Exception path of MemorizedFunc._cached_call: its contract (no exception escapes whatever the load raises, exactly one recomputation) is part of this check (pack mem); call_and_shelve on a damaged entry is finding K36"],
    ),
    "C17": dict(
        packs=["c17", "exe"],
        level="proof",
        replay=dict(script="replay/c17.py", args=[], timeout=600),
        bounded=[dict(name="audit-scenarios", script="replay/found.py", args=["C17", "{tier}"], timeout=1500, bound="scenarios contributed by audit sub-agents (replay/found/MANIFEST.json): repaired defects must stay repaired, recorded findings are probed"), dict(name="config-scoping-small-scope", script="replay/c17.py", args=[],
                      bound="36 pairs of nested settings x {normal, exception} + failed constructor + one foreign thread; 66 context x explicit combinations")],
        trusted=["threading.local attributes are per-thread; the with statement calls __exit__ (CPython)"],
        assumptions=["BACKENDS holds the four built-in backends; register_parallel_backend / dask registration not modelled",
                     "parallel_config.__init__ sees _check_backend through its contract (returns a value or raises ValueError/AssertionError; unset stays unset)",
                     "LIFO: two-level instance proved as a lemma over the contracts; depth n follows by induction from the same two facts"],
        undecided_clauses=["thread-locality is a frame condition (only attribute `config` of the module's threading.local is written) plus the CPython assumption; no schedule is explored"],
    ),
    "C15": dict(
        packs=["c15", "par4"],
        level="proof",
        replay=dict(script="replay/c15.py", args=["search", "12"], timeout=600),
        bounded=[dict(name="audit-scenarios", script="replay/found.py", args=["C15", "{tier}"], timeout=1500, bound="scenarios contributed by audit sub-agents (replay/found/MANIFEST.json): repaired defects must stay repaired, recorded findings are probed; includes the reuse history n_jobs=4 then n_jobs=2 on one loky executor (the resize of the vendored reusable executor is NOT under contract: bounded only)"),
                 dict(name="n_jobs-small-scope", script="replay/c15.py", args=["search", "12"],
                      bound="n_jobs in -12..12 x cpus in {1,2,3,8} x 4 backends x nesting level {0,1,None}; nested backends to depth 4; "
                            "loky cpu_count on 192 environment combinations")],
        trusted=["a pool / executor created with size k runs at most k tasks at once (ThreadPool, multiprocessing, loky)",
                 "joblib/externals/loky (vendored): get_reusable_executor / _ReusablePoolExecutor._resize bring a REUSED executor to exactly the requested size - not under contract (waiting loops over state changed by worker processes); one native reuse history stands in (bounded)"],
        assumptions=["Parallel.__call__'s n_jobs == 1 branch and _get_sequential_output (calling thread, in order) come from the dispatcher pack (par4)",
                     "os.sched_getaffinity / cgroup readers / physical-core probes are externals (arbitrary integers)"],
        undecided_clauses=["'never executes more tasks simultaneously' is reduced to 'every pool is created with exactly the resolved n_jobs'; the pools' own concurrency bound is assumed"],
    ),
    "C18": dict(
        packs=["c18"],
        level="proof",
        replay=dict(script="replay/c18.py", args=["search", "3"], timeout=900),
        bounded=[dict(name="audit-scenarios", script="replay/found.py", args=["C18", "{tier}"], timeout=1500, bound="scenarios contributed by audit sub-agents (replay/found/MANIFEST.json): repaired defects must stay repaired, recorded findings are probed"), 
            dict(name="real-store-time-zones", script="replay/c18.py", args=["e2e"], timeout=900,
                 bound="real cache directory, 6 entries with access times set 10 min .. 26 h back, 5 limit combinations (age / items), in fresh processes under TZ = UTC, EST5, JST-9, Europe/Paris: the survivors are exactly those the limits keep"),
            dict(name="memstr_to_bytes-exhaustive", script="replay/c18.py", args=["memstr", "3000"],
                 bound="integer literals 0..2999 and 3 large ones x {K,M,G}; 7 malformed; 3 fractional"),
            dict(name="lru-prefix-small-scope", script="replay/c18.py", args=["search", "2"],
                 bound="all inventories of <=2 items (sizes 0..2, 3 access times with ties) x 7 byte limits x 4 item limits x 5 age limits",
                 ),
        ],
        trusted=["list.sort(key=) is a stable ascending permutation (CPython)", "List.Perm.sum_eq (sum invariant under permutation)"],
        assumptions=["boundary convention: an item accessed exactly age_limit ago is evicted (as the code does)"],
        undecided_clauses=["'surviving entries stay loadable and evicted ones are recomputed on demand' is carried by C05/C02 contracts, not here"],
    ),
}

NOT_APPLICABLE = {
    "C10": "liveness over OS process faults, pipes and time across processes: no function contract within reach expresses "
           "'every kill instant is noticed within bounded time'; fragments do not carry the property (DESIGN.md section 6)",
}

MANIFEST_TEXT = {
    "C07": dict(
        text="Unbounded proof over signatures of arbitrary length: four inductive loop invariants (ArrList / map encodings with a ghost inverse of the name list) show that filter_args, "
             "for every call Python accepts (`accepts`, DESIGN Appendix D), raises nothing and returns exactly pybind(sig, args, kwargs) minus the ignore list - each named parameter mapped to the "
             "positional / keyword / default value Python binds, surplus positionals under '*' as args[np:], surplus keywords (incl. names of positional-only parameters) under '**'.",
        note="Assumed: inspect.signature well-formedness (block axioms), plain functions. The repaired filter_args (fix commit) is what is proved; reverting any part of the fix leaves "
             "obligations undischarged and the bounded interpreter oracle replays a concrete signature and call.",
    ),
    "C19": dict(
        text="Payload framing arithmetic proved for all positions and sizes: write_array stores pad = 16 - ((pos + 1) mod 16) in one byte (1 <= pad <= 16) followed by pad filler bytes so "
             "that the data starts 16-byte aligned, then exactly nbytes of data (loop invariant over the chunks); read_array consumes exactly 1 + pad + count*itemsize bytes (chunk loop invariant), "
             "transposes back exactly for Fortran order; read_mmap maps at exactly that offset, forwards the order, downgrades 'w+' and leaves the handle after the payload; a lemma shows writer and "
             "reader offsets coincide and are aligned; _create_array_wrapper: 'F' iff purely Fortran-contiguous, memmap allowed iff raw file and no object dtype; read dispatch and "
             "restoration of the dumped array class with or without __array_prepare__; byte-order conversion only for arrays with no native-order field; _reduce_memmap_backed: every element "
             "(i, j) of a 2-d view on a memmap is re-read in the worker from the same file position and never outside the mapped buffer (symbolic shape, strides of either sign, item size, offsets; "
             "nonlinear arithmetic through checked stepping-stone lemmas).",
        note="Partial decision (framing only): numpy is assumed and exercised by a bounded native grid in an overlay venv. Known findings K7 (default load converts non-native endianness), K9 (item size 0), K10 (copy-on-write memmaps re-opened from the file).",
    ),
    "C16": dict(text='_retrieve: when the head job is finished its results are yielded with no blocking call on that path and without looking at later jobs; results in item order; _register_outcome enqueues an unordered tracker exactly once on the pending->final transition under the lock; GeneratorExit at any yield sets the flags, aborts before tearing down and re-establishes the quiescent state; _reset_run_tracking raises RuntimeError iff already running, tested and set under the lock before any counter is touched; stale callbacks are ignored.', note='Wall-clock promptness and GC timing are not decided.'),
    "C09": dict(text="dispatch_one_batch pulls from the input only with the lock held, only when the look-ahead queue is empty, at most batch_size*n_jobs items per call, and nothing once it has seen the abort flag; the lock invariant bounds the look-ahead by batch_size*n_jobs; a completion callback dispatches at most one further batch; pre_dispatch='all' clears the lazy iterator; eval_ applies only whitelisted operators to constants (structural recursion with its own contract as induction hypothesis).", note="The clause 'no further items after a failure' is undecided across threads (flag read outside the lock)."),
    "C04": dict(text="Quiescent state (not running, no jobs) proved at every exit of _get_outputs and _get_sequential_output (normal, task error, BaseException, GeneratorExit, foreign-thread close); __call__ starts every call with a fresh call id and an empty look-ahead queue under the lock; the task's own exception object is what _return_or_raise / _raise_error_fast raise; a failing input iterator is registered as a failed job and never swallowed; timeout arithmetic of get_status; _abort calls abort_everything at most once with ensure_ready = managed.", note='One fix commit (stale look-ahead batches after an aborted call). Liveness not decided.'),
    "C01": dict(text='Per-function contracts of the whole dispatcher with a lock invariant over a segment model of the input: dispatch_one_batch partitions each slice into consecutive non-empty batches (inductive invariant: the look-ahead queue tiles exactly the taken-but-undispatched tasks), hands the head of the tiling to _dispatch under the lock; _dispatch registers the tracker before submit; _register_outcome registers once; _retrieve pops exactly the head job under the lock and every yielded value is proved to be the next result of the sequential loop; the tail loop of _get_outputs continues that order; sequential path and BatchedCalls in item order.', note='Cross-thread composition by the monitor rule (not re-proved); backend behaviour assumed; summaries between parts linked by inspection.'),
    "C03": dict(
        text="Format agreement between writer and reader, proved on the real code with the compressor table rebuilt from the sources on every run: dump's total decision "
             "table over every compress form x target kind (explicit (method, level) wins over the extension; an extension selects its compressor; level 0 without "
             "extension is raw; invalid level/method/target raise ValueError and write nothing; exactly one pickle goes into exactly the opened writer), "
             "_write_fileobject (requested method, zlib fallback), _detect_compressor on symbolic first bytes (returns the compressor whose prefix they start with, restores "
             "the position), _validate_fileobject_and_memmap (opens that compressor's reader on that stream, never memmaps compressed data), all wrapper factories; "
             "structural obligations on the real constants: prefixes non-empty, prefix-free, none can start a raw pickle, extensions distinct.",
        note="Assumed: codecs and pickle. The round trip of values themselves is the codecs' and pickle's; zlib/gzip file objects are under contract in C13.",
    ),
    "C08": dict(
        text="Relational contracts by self-composition on the real methods: two runs of Hasher._batch_setitems / _ConsistentSet.__init__ / save_set on arbitrary "
             "re-orderings of one abstract collection, in interpreters with different string-hash seeds, hand identical token sequences to the base pickler - on the "
             "sorted() path and on the TypeError path (keys replaced by joblib's own md5 digest, resolved from the module AST, not the builtin hash). Dispatch table "
             "reconstructed from the real class body: set -> normalising handler, dict -> overridden _batch_setitems, table copied not shared. memoize never memoises "
             "str/bytes; Hasher.__init__ fixes protocol 3; hash() validates the algorithm, uses a fresh hasher per call and digests exactly the stream.",
        note="Assumed: base pickler, sorted(), md5. Known findings K1 (frozenset not normalised) and K2 (partially ordered elements) are reported on every run.",
    ),
    "C05": dict(
        text="Crash invariant 'a result file (output.pkl, metadata.json) is never visible under its final name unless complete' asserted and discharged after EVERY "
             "file-system effect (mkdir, open-for-writing, write, close, atomic replace, any prefix of rmtree) of dump_item, store_metadata, store_cached_func_code, "
             "clear_item, clear_path, mkdirp, over an algebraic path model with injective temporaries; the only write that reaches a final name is one atomic replace of a "
             "closed temporary. Recovery: _cached_call returns the correct value and raises nothing from every store state satisfying the store invariant "
             "(absent or torn code file, missing metadata, failing loads), incl. expires_after on missing metadata.",
        note="Assumed: POSIX model, abstract store summaries. Known finding K3 (crash inside clear removing func_code.py first). One fix commit (KeyError in expires_after, "
             "ValueError in extract_first_line on torn files).",
    ),
    "C11": dict(
        text="Rely/guarantee at file-system-primitive granularity: every writer contract is re-proved with the whole file system havocked before each primitive (other users "
             "may create, replace, remove anything but this user's own temporaries, and keep result files complete): dump_item, store_metadata, get_metadata, contains_item, "
             "clear_item, clear_path, mkdirp raise nothing and preserve the guarantee; temporaries embed (thread id, pid) injectively, so two writers of one entry never share a "
             "temporary and the final name only changes by atomic replacement of a complete file.",
        note="Known finding K4 (FileNotFoundError from store_cached_func_code when the directory is removed between mkdir and open). No schedules are enumerated; thread/process "
             "stress is a bounded native aid.",
    ),
    "C02": dict(
        text="Contracts on the real MemorizedFunc methods against an abstract store with store invariant SI and table invariant TI: _cached_call / __call__ "
             "return Eval(current source, KEY) on every path (hit, miss, failed load, invalidated entry, changed code), call_and_shelve returns a reference "
             "to exactly this call whose stored value is that value, _call dumps once under exactly this call id and writes no other key, "
             "_check_previous_func_code / clear / _write_func_code preserve SI and TI, MemorizedResult.get loads exactly its entry.",
        note="Assumed: abstract store contracts, purity of the user function, KEY identifies bound arguments (filter_args: bounded interpreter oracle after a fix "
             "commit; hashing: C08). Known findings K3 (crash inside clear) and K5 (two live definitions with one id) are reported on every run.",
    ),
    "C06": dict(
        text="_cached_call: a valid entry under unchanged code is served with the execution counter unchanged (or exactly one recomputation when the load itself "
             "fails); a miss executes exactly once; check_call_in_cache returns the same answer as the call path's own test and True implies a valid entry for "
             "this key; _is_in_cache_and_valid leaves other entries untouched when the code is unchanged.",
        note="Form-independence of the key rests on the bounded filter_args oracle and on C08. Same abstract store assumptions as C02.",
    ),
    "C12": dict(
        text="_check_previous_func_code returns True only if the code on disk is the current source, detects every changed complete code file, wipes before "
             "writing new code, keeps the cache of unchanged code (fresh process, empty table); func_code_info is refreshed when the code object is swapped; "
             "SI and TI are preserved by every writer.",
        note="Known findings: K5 (older still-referenced definition served the newer one's values: TI of OTHER functions is not preserved by _write_func_code) "
             "and K3. get_func_code and hash()/id() are externals.",
    ),
    "C20": dict(
        text="resource_tracker.main verified whole for an arbitrary (unbounded) request history: inductive loop invariant 'every stored count >= 1' "
             "plus a per-request transition clause proved for every line of arbitrary bytes - REGISTER increments and never deletes; MAYBE_UNLINK on a "
             "registered name decrements and calls the clean-up exactly when the count returns to zero; on an unregistered name, unknown type, malformed "
             "line or unknown command nothing is deleted, the registry is unchanged and the loop continues; UNREGISTER forgets without deleting. After EOF "
             "every name still registered is cleaned exactly once, folders after all other types, and a failing clean-up does not stop the others. "
             "unlink_file: all 3^10 outcome sequences of the retry loop (complete unrolling of a constant range).",
        note="Assumed: EOF-on-last-client (kernel), string-library parsing abstracted, clean-up callables external. 'Exactly when the count returns to zero "
             "over a history' follows by induction from the per-request clause (the induction is the loop invariant rule). Client side: the manager registers a context's "
             "folder exactly once, sends exactly one request per file when a context is cleaned (UNREGISTER when forcing, MAYBE_UNLINK otherwise) and un-registers a folder only "
             "after deleting it (loop invariant with ghost request counters).",
    ),
    "C13": dict(
        text="Representation invariant of BinaryZlibFile/BinaryGzipFile (buffer, offset, position against the ghost decompressed stream D) proved "
             "to be preserved by _fill_buffer, _read_all, _read_block, read, seek, _rewind, tell with inductive loop invariants over sequences; "
             "read(n)/read()/read(0)/seek(all whence, clamped)/tell return exactly the reference bytes and positions for every D, every chunking by "
             "the decompressor and every raw block size; closed / wrong-mode calls raise and change nothing; write passes each input once, in order, "
             "to the compressor and writes its output, close flushes exactly once and closes the file only when it opened it; constructor validation.",
        note="Assumed: zlib streaming contracts, blocking file object, BufferedIOBase.readinto/readline built on read(). One fix commit (hang on "
             "trailing bytes, found as a failing termination measure). Native comparison with BytesIO is bounded and not counted.",
    ),
    "C14": dict(
        text="Termination measures (loop variants) discharged for every read loop of BinaryZlibFile on EVERY raw input - valid, truncated at any "
             "point, or followed by arbitrary bytes - plus 'no fabricated bytes' (whatever is returned is a slice of D) and exact-length reads in "
             "_read_bytes (returns exactly `size` bytes or raises ValueError at EOF).",
        note="Assumed: the unpickler raises on a strict prefix; bz2/lzma/gzip-module readers are externals (bounded native truncation sweep only). "
             "The fix for the trailing-bytes hang is a 'fix:' commit; reverting it fails loop1/decreases of _fill_buffer.",
    ),
    "C17": dict(
        text="Proof over the finite decision space the code distinguishes plus symbolic setting values: _get_config_param implements "
             "explicit > context > default for every key; parallel_config.__init__ installs given-or-enclosing value per key, saves the previous "
             "config, writes only the thread-local `config`, and leaves it untouched when it raises; unregister/__exit__ restore exactly the saved "
             "config and do not swallow exceptions; a LIFO lemma over those contracts; _get_active_backend and Parallel.__init__ (all prefer/require/"
             "backend combinations incl. third-party backends with missing attributes): resolved require='sharedmem' always yields a shared-memory "
             "backend or ValueError, prefer never overrides an explicit backend, n_jobs/verbose/max_nbytes/mmap_mode/temp_folder obey the priority.",
        note="Assumed: threading.local semantics; BACKENDS = built-ins. One fix commit (context require ignored with explicit backend). Known finding K6 "
             "(context n_jobs replaced by 1 on thread fallback) is reported on every run. Native enumeration is bounded and not counted.",
    ),
    "C15": dict(
        text="Loop-free integer contracts proved for all integers n_jobs and all cpu counts >= 1: every effective_n_jobs "
             "(PoolManagerMixin, Sequential, Multiprocessing, Loky) returns n_jobs when positive, max(cpus+1+n_jobs, 1) when negative, "
             "raises ValueError exactly for 0, is >= 1 and is 1 in daemon / below-loky / non-main-thread nesting; each configure creates its "
             "pool or executor with exactly that number or raises FallbackToBackend(SequentialBackend) when it is 1; the executor factory passes "
             "n_jobs through unchanged; get_nested_backend gives threads at level 0 and sequential deeper, never processes; loky cpu_count >= 1 and "
             "bounded by affinity and LOKY_MAX_CPU_COUNT.",
        note="Assumed: pools honour their size; environment probes (affinity, cgroup, daemon flag, thread identity) are arbitrary symbols; "
             "int() of LOKY_MAX_CPU_COUNT parses. Native enumeration is a replay aid (bounded), not counted as proof.",
    ),
    "C18": dict(
        text="Unbounded proof (inductive loop invariant with prefix sums and a quantified minimality clause) that "
             "_get_items_to_delete returns exactly the shortest prefix of the stable LRU order meeting byte, item and age limits, "
             "for every inventory (any length, ties, zero sizes) and every limit combination; enforce_store_limits clears exactly "
             "those paths and swallows OSError; reduce_size delegates once with the same arguments or does nothing.",
        note="Assumed: list.sort is a stable ascending permutation and sums are permutation-invariant; get_items sizes >= 0 is proved (FileSystemStoreBackend.get_items, os.path.getsize >= 0 assumed); "
             "datetimes/timedeltas as reals; memstr_to_bytes proved against 'number x binary unit, truncated' with float(s) assumed = NUM(s) or ValueError (no float rounding; integer literals also checked natively to 3000); "
             "clear_location (rmtree) external. Native small-scope search is a replay aid, not counted as proof.",
    ),
}
