"""Dispatcher pack, part 1 (C01, C04, C09, C16): per-function contracts of the completion tracker and of the small
Parallel methods; lock discipline (guarded-by obligations emitted at every write of a protected field).

Protected by Parallel._lock: tracker.status transitions, Parallel._jobs / _jobs_set (structure), n_completed_tasks
(writes), n_dispatched_*, _call_id, _running.  A write with lock depth 0 is a failed `guarded-by` obligation.
"""
import z3

from pyvc import ops
from pyvc.contracts import Contract, Loop, SourceModule
from pyvc.interp import BUILTIN_EXC, PyRaise
from pyvc.pack import Pack
from pyvc.values import (
    BOOL, INT, REAL, STR, Atom, ClassRef, ObjOf, OneOf, Opaque, OpaqueOf, Opt, PyDict, PyList, SExc, SObj, Sym,
    Unsupported, kind_of, to_term,
)

from .common import install_common

PAR = "joblib/parallel.py"
CallId = Atom("CallId")
Res = Atom("Result")
PENDING, DONE, ERROR = "Pending", "Done", "Error"


def _Fn(fn):
    return Opaque("fn", None, fn=fn)


def install_lock(p):
    """`with lock:` bookkeeping and guarded-by obligations."""
    def enter(interp, cm):
        d = interp.ctx.lock_depth
        d["plock"] = d.get("plock", 0) + 1
        interp.ctx.events.append(("lock+",))
        return cm

    def exit_(interp, cm, e):
        interp.ctx.lock_depth["plock"] -= 1
        interp.ctx.events.append(("lock-",))
        return False

    p.models["enter:plock"] = enter
    p.models["exit:plock"] = exit_
    p.spec_funcs["lock_depth"] = lambda interp: interp.ctx.lock_depth.get("plock", 0)

    def guarded(what):
        def hook(interp, obj, attr, v):
            if interp.contract.qualname.endswith("_reset_run_tracking") and what != "_running":
                return  # counters are re-initialised at the start of a call, before anything of this call is dispatched
            interp.ctx.check("%s/guarded-by._lock.%s" % (interp.contract.qualname, what), interp.ctx.lock_depth.get("plock", 0) > 0,
                             detail="%s is written only with Parallel._lock held" % what)
        return hook

    p.guarded = guarded
    p.assume_note("monitor rule: state written only under Parallel._lock, with the lock invariant re-established before every release, satisfies the invariant "
                  "in every interleaving (meta-theorem, not re-proved); reads of unprotected flags are arbitrary within their stable predicate")


def setattr_backend(tracker_obj, supports_callback):
    """Fix `supports_retrieve_callback` of the backend of the Parallel object a tracker belongs to."""
    tracker_obj.fields["parallel"].fields["_backend"].attrs["supports_retrieve_callback"] = supports_callback


def build():
    p = Pack("PAR1", files=[PAR, "joblib/_parallel_backends.py", "joblib/_utils.py"])
    install_common(p)
    install_lock(p)
    p.models["fn.__call__"] = lambda interp, fv, args, kwargs: fv.attrs["fn"](interp, args, kwargs)
    p.write_hooks[("BatchCompletionCallBack", "status")] = p.guarded("tracker.status")
    p.write_hooks[("Parallel", "n_completed_tasks")] = p.guarded("n_completed_tasks")
    p.write_hooks[("Parallel", "_running")] = p.guarded("_running")
    p.log_calls.update({"self.parallel.print_progress", "self.print_progress", "self._print"})
    p.field_kinds[("BatchCompletionCallBack", "_result")] = Res
    p.models["contextlib.nullcontext"] = lambda i, a, k: Opaque("nullctx", None)
    p.spec_funcs["n_events"] = lambda interp, name: sum(1 for e in interp.ctx.events if e[0] == name)
    p.spec_funcs["ev_named"] = lambda interp, name: PyList([e for e in interp.ctx.events if e[0] == name])

    # ---- objects
    def jobs(interp):
        return Opaque("jobsdeque", None)

    def jobs_append(interp, recv, args, kwargs):
        interp.ctx.check("%s/guarded-by._lock._jobs" % interp.contract.qualname, interp.ctx.lock_depth.get("plock", 0) > 0, detail="_jobs is mutated only with the lock held")
        interp.ctx.events.append(("jobs.append", args[0]))

    p.models["jobsdeque.append"] = jobs_append

    def backend(**kw):
        d = dict(supports_retrieve_callback=BOOL, supports_timeout=BOOL)
        d.update(kw)
        return OpaqueOf("backend", **d)

    def parallel(**over):
        f = dict(_lock=OpaqueOf("plock"), _call_id=CallId, _aborting=BOOL, _exception=BOOL, _aborted=BOOL, _iterating=BOOL, return_ordered=BOOL,
                 _jobs=jobs, n_completed_tasks=INT, n_dispatched_tasks=INT, n_dispatched_batches=INT, _original_iterator=Opt(OpaqueOf("taskiter")),
                 _backend=backend(), timeout=Opt(REAL), verbose=0, _managed_backend=BOOL, _running=BOOL, return_generator=BOOL, _calling=BOOL)
        f.update(over)
        return ObjOf("Parallel", **f)

    def tracker(**over):
        f = dict(status=OneOf(None, PENDING, DONE, ERROR), batch_size=INT, parallel=parallel(), parallel_call_id=CallId,
                 _completion_timeout_counter=Opt(REAL), job=OpaqueOf("future"), dispatch_timestamp=REAL)
        f.update(over)
        return ObjOf("BatchCompletionCallBack", **f)

    # ---- _register_outcome: the outcome is registered exactly once, under the lock
    def outcome(interp):
        k = interp.ctx.choose(2, "outcome-kind")
        if k == 0:
            return PyDict({"status": DONE, "result": Res.fresh(interp.ctx, "res")})
        return PyDict({"status": ERROR, "result": SExc(BUILTIN_EXC["ValueError"], ())})

    ro = Contract(
        PAR, "BatchCompletionCallBack._register_outcome", props=["C01", "C04", "C09", "C16"],  # C09: "once a task has failed no further items are taken" rests on error_raises_the_abort_flags (in every mode: dispatch_one_batch only looks at _aborting)
        params=dict(self=tracker(), outcome=outcome),
        requires=["lock_depth() == 0 or lock_depth() == 1"],
        modifies=["self.status", "self._result", "self.job", "self.parallel._exception", "self.parallel._aborting"],
        ensures={
            "first_registration_wins": "implies(old(self.status) is not None and old(self.status) != 'Pending', self.status == old(self.status) and n_events('jobs.append') == 0)",
            "registers_status_and_result": "implies(old(self.status) is None or old(self.status) == 'Pending', self.status == outcome['status'] and same(self._result, outcome['result']))",
            "error_raises_the_abort_flags": "implies((old(self.status) is None or old(self.status) == 'Pending') and outcome['status'] == 'Error', self.parallel._exception is True and self.parallel._aborting is True)",
            "success_leaves_the_flags": "implies(outcome['status'] == 'Done', self.parallel._aborting == old(self.parallel._aborting) and self.parallel._exception == old(self.parallel._exception))",
            "lock_released": "lock_depth() == old_depth()",
        },
        ensures_body={
            # generator_unordered: trackers enter _jobs in completion order, exactly once, on the PENDING -> final transition
            "unordered_enqueued_exactly_once": "n_events('jobs.append') == (1 if (old(self.status) is None or old(self.status) == 'Pending') and not self.parallel.return_ordered else 0)",
            "enqueues_itself": "implies(n_events('jobs.append') == 1, same(ev_named('jobs.append')[0][1], self))",
        },
    )
    p.add(ro)
    p.spec_funcs["same"] = lambda interp, a, b: ops.identical(a, b) if not (isinstance(a, SExc) or isinstance(b, SExc)) else a is b

    def depth_setup(interp, env):
        d = interp.ctx.ghost.get("DEPTH0", 0)
        interp.ctx.lock_depth["plock"] = d

    p.spec_funcs["old_depth"] = lambda interp: interp.ctx.ghost.get("DEPTH0", 0)
    ro.setup = depth_setup

    # ---- get_status: TimeoutError registered iff pending and waited longer than timeout since the first poll
    p.add(Contract(
        PAR, "BatchCompletionCallBack.get_status", props=["C04", "C16"],
        params=dict(self=tracker(), timeout=Opt(REAL)),
        inline={"_register_outcome"},
        ensures={
            "returns_current_status": "result == self.status",
            "no_timeout_without_limit": "implies(timeout is None or old(self.status) != 'Pending', self.status == old(self.status))",
            "first_poll_starts_the_clock": "implies(timeout is not None and old(self.status) == 'Pending' and old(self._completion_timeout_counter) is None, self._completion_timeout_counter == ret_time)",
            "timeout_is_registered_as_error": "implies(timeout is not None and old(self.status) == 'Pending' and old(self._completion_timeout_counter) is not None, "
                                              "(self.status == 'Error') == (ret_time - old(self._completion_timeout_counter) > timeout))",
            "timeout_error_type": "implies(self.status == 'Error' and old(self.status) == 'Pending', isinstance(self._result, TimeoutError))",
        },
    ))

    # ---- _return_or_raise / get_result: the registered exception object itself is raised
    def with_result(kind):
        def mk(interp):
            o = tracker(status=DONE if kind == "ok" else ERROR).fresh(interp.ctx, "self")
            o.fields["_result"] = Res.fresh(interp.ctx, "res") if kind == "ok" else SExc(BUILTIN_EXC["KeyError"], ())
            interp.ctx.ghost["RESULT0"] = o.fields["_result"]
            return o
        return mk

    for kind in ("ok", "err"):
        p.add(Contract(
            PAR, "BatchCompletionCallBack._return_or_raise", variant=kind, props=["C01", "C04"],
            params=dict(self=with_result(kind)),
            ensures={"returns_registered_result": "same(result, RESULT0)", "was_done": "self.status == 'Done'", "result_released": "not hasattr(self, '_result')"},
            exsures={"KeyError": {"the_registered_exception_itself": "same(exc, RESULT0)", "was_error": "self.status == 'Error'", "result_released": "not hasattr(self, '_result')"}},
        ))

    # ---- get_result: the result registered by the callback thread, or (backends without a retrieval callback) a synchronous retrieval that
    # waits at most `timeout` - whatever the retrieval raises (the task's exception, TimeoutError) becomes the registered error and is raised
    def retrieve_sync(interp, recv, args, kwargs):
        interp.ctx.events.append(("retrieve_result", args[0], kwargs.get("timeout", "missing")))
        k = interp.ctx.choose(3, "sync-retrieval")
        if k == 1:
            interp.raise_("ValueError")      # the task's own exception
        if k == 2:
            interp.raise_("KeyError")        # stands for the backend's timeout error (multiprocessing / concurrent.futures TimeoutError): the wait exceeded `timeout`
        r = Res.fresh(interp.ctx, "res")
        interp.ctx.ghost["SYNC_RESULT"] = r
        return r

    p.models["backend.retrieve_result"] = retrieve_sync

    def reg_outcome_summary(interp, recv, args, kwargs):
        # summary of _register_outcome (contract above) for a pending tracker: status and result registered
        out = args[0]
        recv.fields["status"] = out.d["status"]
        recv.fields["_result"] = out.d["result"]
        interp.ctx.events.append(("register_outcome", out.d["status"], out.d["result"]))

    for cb in (True, False):
        p.add(Contract(
            PAR, "BatchCompletionCallBack.get_result", variant="callback-backend" if cb else "synchronous-backend", props=["C01", "C04"],
            params=dict(self=(with_result("ok") if cb else tracker(status=OneOf(PENDING))), timeout=Opt(REAL)),
            setup=(lambda interp, env: setattr_backend(env.lookup("self"), True)) if cb else (lambda interp, env: setattr_backend(env.lookup("self"), False)),
            inline={"_return_or_raise"},
            ensures=({"returns_registered_result": "same(result, RESULT0)"} if cb else {"returns_what_the_backend_retrieved": "same(result, SYNC_RESULT)"}),
            ensures_body=({"no_synchronous_retrieval": "n_events('retrieve_result') == 0"} if cb else
                          {"waits_at_most_the_callers_timeout": "n_events('retrieve_result') == 1 and ev_named('retrieve_result')[0][2] is timeout and ev_named('retrieve_result')[0][1] is self.job",
                           "outcome_registered_once": "n_events('register_outcome') == 1"}),
            exsures=({} if cb else {"ValueError": {"registered_as_error": "n_events('register_outcome') == 1 and ev_named('register_outcome')[0][1] == 'Error'"},
                                     "KeyError": {"registered_as_error": "n_events('register_outcome') == 1 and ev_named('register_outcome')[0][1] == 'Error'",
                                                      "only_with_a_timeout_request": "n_events('retrieve_result') == 1"}}),
        ))
    p.models["BatchCompletionCallBack._register_outcome"] = reg_outcome_summary

    # ---- _register_new_job: ordered mode queues in submission order, completion-order mode only records the dispatched job
    def holding_the_lock(interp, env):
        interp.ctx.lock_depth["plock"] = 1   # called from _dispatch / dispatch_one_batch inside `with self._lock` (obligations guarded-by._lock there)

    p.add(Contract(
        PAR, "Parallel._register_new_job", props=["C01", "C16"], setup=holding_the_lock,
        params=dict(self=parallel(_jobs_set=OpaqueOf("jobsset")), batch_tracker=tracker()),
        ensures={},
        ensures_body={"ordered_mode_queues_the_job": "n_events('jobs.append') == (1 if self.return_ordered else 0) and all(e[1] is batch_tracker for e in ev_named('jobs.append'))",
                      "completion_order_mode_records_it_as_dispatched": "n_events('jobs_set.add') == (0 if self.return_ordered else 1) and all(e[1] is batch_tracker for e in ev_named('jobs_set.add'))"},
    ))

    # ---- __call__ (completion callback): stale or aborting callbacks do nothing; otherwise retrieve, register, then dispatch one more
    def retrieve_cb(interp, recv, args, kwargs):
        interp.ctx.events.append(("retrieve_result_callback", args[0]))
        if interp.ctx.choose(2, "task-failed") == 1:
            interp.raise_("ValueError")
        return Res.fresh(interp.ctx, "res")

    p.models["backend.retrieve_result_callback"] = retrieve_cb
    p.models["backend.batch_completed"] = lambda i, r, a, k: i.ctx.events.append(("batch_completed", a[0]))
    p.assume_note("backend contract (public extension API): each submitted batch is run at most once and its callback invoked at most once, with the list of results in item order or with an error")

    def dispatch_next(interp, recv, args, kwargs):
        interp.ctx.check("%s/guarded-by._lock.dispatch_next" % interp.contract.qualname, interp.ctx.lock_depth.get("plock", 0) > 0, detail="dispatch_next runs with the lock held")
        interp.ctx.events.append(("dispatch_next",))

    p.models["Parallel.dispatch_next"] = dispatch_next

    dn = Contract(
        PAR, "BatchCompletionCallBack._dispatch_new", props=["C01", "C09"],
        params=dict(self=tracker()),
        requires=["lock_depth() == 0"],
        modifies=["self.parallel.n_completed_tasks"],
        ensures={"counts_this_batch_once": "self.parallel.n_completed_tasks == old(self.parallel.n_completed_tasks) + self.batch_size",
                 "lock_released": "lock_depth() == 0"},
        ensures_body={"at_most_one_more_batch": "n_events('dispatch_next') == (1 if self.parallel._original_iterator is not None else 0)",
                      "reports_duration": "n_events('batch_completed') == 1"},
    )
    p.add(dn)

    rr = Contract(
        PAR, "BatchCompletionCallBack._retrieve_result", props=["C01", "C04"],
        params=dict(self=tracker(status=OneOf(PENDING)), out=OpaqueOf("future")),
        inline={"_register_outcome"},
        requires=["lock_depth() == 1"],
        modifies=["self.status", "self._result", "self.job", "self.parallel._exception", "self.parallel._aborting"],
        returns=BOOL,
        ensures={"true_iff_task_succeeded": "result == (self.status == 'Done')", "final_status": "self.status == 'Done' or self.status == 'Error'",
                 "error_raises_the_abort_flags": "implies(self.status == 'Error', self.parallel._aborting is True and self.parallel._exception is True)",
                 "lock_still_held": "lock_depth() == 1"},
    )
    rr.setup = lambda interp, env: interp.ctx.lock_depth.__setitem__("plock", 1)
    p.add(rr)

    p.add(Contract(
        PAR, "BatchCompletionCallBack.__call__", props=["C01", "C04", "C16"],
        params=dict(self=tracker(status=OneOf(None, PENDING)), args=lambda i: (Opaque("future", None),), kwargs=PyDict({})),
        requires=["lock_depth() == 0", "implies(self.parallel._backend.supports_retrieve_callback, self.status == 'Pending')"],
        ensures={
            "stale_callback_of_an_earlier_call_does_nothing": "implies(self.parallel._backend.supports_retrieve_callback and not (self.parallel._call_id is self.parallel_call_id), "
                                                              "self.status == old(self.status) and self.parallel.n_completed_tasks == old(self.parallel.n_completed_tasks))",
            "nothing_retrieved_while_aborting": "implies(self.parallel._backend.supports_retrieve_callback and (self.parallel._call_id is self.parallel_call_id) and old(self.parallel._aborting), "
                                                "self.status == old(self.status) and self.parallel.n_completed_tasks == old(self.parallel.n_completed_tasks))",
            "completed_counted_only_after_success": "implies(self.parallel._backend.supports_retrieve_callback and self.parallel.n_completed_tasks != old(self.parallel.n_completed_tasks), self.status == 'Done')",
            "lock_released": "lock_depth() == 0",
        },
    ))

    # ---- Parallel._reset_run_tracking: overlap guard, tested and set under the lock, before any counter is touched
    p.models["builtin:getattr"] = p.models["builtin:getattr"]
    p.add(Contract(
        PAR, "Parallel._reset_run_tracking", props=["C16", "C04"],
        params=dict(self=parallel()),
        ensures={"marks_running": "self._running is True and old(self._running) is False",
                 "fresh_counters": "self.n_dispatched_batches == 0 and self.n_dispatched_tasks == 0 and self.n_completed_tasks == 0 and self._nb_consumed == 0",
                 "flags_cleared": "self._exception is False and self._aborting is False and self._aborted is False"},
        exsures={"RuntimeError": {"only_when_already_running": "old(self._running) is True",
                                  "nothing_touched": "self.n_dispatched_tasks == old(self.n_dispatched_tasks) and self.n_completed_tasks == old(self.n_completed_tasks) "
                                                     "and self._aborting == old(self._aborting) and self._running is True"}},
    ))

    # ---- Parallel._abort
    def abort_everything(interp, recv, args, kwargs):
        interp.ctx.events.append(("abort_everything", kwargs.get("ensure_ready")))

    p.models["backend.abort_everything"] = abort_everything
    p.add(Contract(
        PAR, "Parallel._abort", props=["C04", "C16", "C09"],
        params=dict(self=parallel(_backend=lambda i: Opaque("backend", None, hasattr={"abort_everything": True}))),
        modifies=["self._aborting", "self._aborted"],
        ensures={"stops_dispatch_first": "self._aborting is True and self._aborted is True"},
        ensures_body={"backend_aborted_at_most_once": "n_events('abort_everything') == (0 if old(self._aborted) else 1)",
                      "ready_for_reuse_when_managed": "implies(n_events('abort_everything') == 1, ev_named('abort_everything')[0][1] == self._managed_backend)"},
    ))

    # ---- Parallel._wait_retrieval
    p.models["len:jobsdeque"] = lambda i, v: i.ctx.ghost.setdefault("NJOBS", INT.fresh(i.ctx, "njobs"))
    p.add(Contract(
        PAR, "Parallel._wait_retrieval", props=["C01", "C16"],
        params=dict(self=parallel()),
        setup=lambda interp, env: interp.ctx.assume(ops.as_int_term(interp.ctx.ghost.setdefault("NJOBS", INT.fresh(interp.ctx, "njobs"))) >= 0),
        returns=BOOL,
        ensures={"stops_only_when_everything_dispatched_is_complete": "implies(not result, not self._iterating and self.n_completed_tasks >= self.n_dispatched_tasks "
                                                                      "and (self._backend.supports_retrieve_callback or NJOBS == 0))",
                 "keeps_going_otherwise": "implies(self._iterating or self.n_completed_tasks < self.n_dispatched_tasks, result)",
                 "pure": "self.n_completed_tasks == old(self.n_completed_tasks)"},
    ))

    # ---- Parallel._dispatch: nothing while aborting; tracker registered BEFORE the backend gets the batch
    def new_tracker(interp, args, kwargs):
        t = SObj("BatchCompletionCallBack", dict(batch_size=args[1], parallel=args[2], status=PENDING, dispatch_timestamp=args[0]))
        interp.ctx.events.append(("new-tracker", t))
        return t

    p.models["new:BatchCompletionCallBack"] = new_tracker

    def set_add(interp, recv, args, kwargs):
        interp.ctx.check("%s/guarded-by._lock._jobs_set" % interp.contract.qualname, interp.ctx.lock_depth.get("plock", 0) > 0, detail="_jobs_set is mutated only with the lock held")
        interp.ctx.events.append(("jobs_set.add", args[0]))

    p.models["jobsset.add"] = set_add

    def submit(interp, recv, args, kwargs):
        ctx = interp.ctx
        cb = kwargs.get("callback")
        registered = any(e[0] in ("jobs.append", "jobs_set.add") and e[1] is cb for e in ctx.events)
        ctx.check("%s/call.submit.requires.tracker-registered-before-submit" % interp.contract.qualname, registered,
                  detail="the completion callback may fire before submit returns: its tracker must already be in _jobs / _jobs_set")
        ctx.events.append(("submit", args[0], cb))
        return Opaque("future", None)

    p.models["backend.submit"] = submit
    p.models["len:batch"] = lambda i, v: v.attrs["size"]
    p.write_hooks[("Parallel", "n_dispatched_tasks")] = p.guarded("n_dispatched_tasks")
    p.write_hooks[("Parallel", "n_dispatched_batches")] = p.guarded("n_dispatched_batches")
    disp = Contract(
        PAR, "Parallel._dispatch", props=["C01", "C09", "C04", "C16"],
        inline={"_register_new_job", "register_job"},
        params=dict(self=parallel(_jobs_set=lambda i: Opaque("jobsset", None)), batch=OpaqueOf("batch", size=INT)),
        requires=["lock_depth() == 1", "batch.size >= 1"],
        ensures={"counts": "implies(not old(self._aborting), self.n_dispatched_tasks == old(self.n_dispatched_tasks) + batch.size and self.n_dispatched_batches == old(self.n_dispatched_batches) + 1)",
                 "nothing_while_aborting": "implies(old(self._aborting), self.n_dispatched_tasks == old(self.n_dispatched_tasks) and self.n_dispatched_batches == old(self.n_dispatched_batches))"},
        ensures_body={"submits_exactly_this_batch_once": "n_events('submit') == (0 if old(self._aborting) else 1) and implies(n_events('submit') == 1, same(ev_named('submit')[0][1], batch))",
                      "ordered_mode_queues_in_submission_order": "implies(not old(self._aborting), (n_events('jobs.append') == 1) == self.return_ordered and (n_events('jobs_set.add') == 1) == (not self.return_ordered))",
                      "tracker_sized_like_the_batch": "n_events('new-tracker') == 0 or ev_named('new-tracker')[0][1].batch_size is batch.size"},
    )
    disp.setup = lambda interp, env: interp.ctx.lock_depth.__setitem__("plock", 1)
    p.add(disp)

    # ---- BatchedCalls.__call__: results in item order, each item called exactly once, under the nested backend config
    def pc(interp, args, kwargs):
        interp.ctx.events.append(("parallel_config", kwargs.get("backend"), kwargs.get("n_jobs")))
        return Opaque("cfgctx", None)

    def user_call(tag):
        def h(interp, fv, args, kwargs):
            interp.ctx.events.append(("task-run", tag))
            return Res.fresh(interp.ctx, "r%s" % tag)
        return h

    p.models["task0.__call__"] = user_call(0)
    p.models["task1.__call__"] = user_call(1)
    p.models["task2.__call__"] = user_call(2)
    p.add(Contract(
        PAR, "BatchedCalls.__call__", props=["C01"],
        globals={"parallel_config": lambda interp: _Fn(pc)},
        params=dict(self=ObjOf("BatchedCalls", _backend=OpaqueOf("nested"), _n_jobs=Opt(INT),
                               items=lambda i: PyList([(Opaque("task%d" % k, None), (), PyDict({})) for k in range(3)]))),
        ensures={"one_result_per_item_in_order": "len(result) == 3",
                 "nested_backend_scoped": "n_events('parallel_config') == 1 and ev_named('parallel_config')[0][1] is self._backend and ev_named('parallel_config')[0][2] is self._n_jobs"},
        ensures_body={"each_item_called_once_in_order": "[e[1] for e in ev_named('task-run')] == [0, 1, 2]"},
        note="shape-bounded: a batch of exactly 3 items (list comprehension unrolled); the comprehension itself is Python's",
    ))

    # ---- delayed: the task triple is exactly (function, positional arguments, keyword arguments)
    p.models["functools.wraps"] = lambda i, a, k: _Fn(lambda i2, a2, k2: a2[0])   # keeps the wrapper function (metadata copying is not modelled)
    p.add(Contract(
        PAR, "delayed", props=["C01"],
        params=dict(function=OpaqueOf("userfn")),
        ensures={"captures_the_call_unchanged": "result(7, 'x', key=8)[0] is function and result(7, 'x', key=8)[1] == (7, 'x') and result(7, 'x', key=8)[2]['key'] == 8 and len(result(7, 'x', key=8)[2]) == 1",
                 "no_arguments_is_an_empty_call": "result()[1] == () and len(result()[2]) == 0"},
        note="the returned closure is exercised on two concrete call shapes",
    ))

    # ---- BatchedCalls: construction, length, and the form in which a batch travels to a worker process
    three_items = lambda i: PyList([(Opaque("task%d" % k, None), (), PyDict({})) for k in range(3)])
    for as_tuple in (True, False):
        p.add(Contract(
            PAR, "BatchedCalls.__init__", variant="backend-with-n_jobs" if as_tuple else "bare-backend", props=["C01", "C15"],
            params=dict(self=lambda i: SObj("BatchedCalls", {}), iterator_slice=three_items,
                        backend_and_jobs=(lambda i: (Opaque("nested", None), Opt(INT).fresh(i.ctx, "nj"))) if as_tuple else (lambda i: Opaque("nested", None, isinstance=())),
                        reducer_callback=Opt(OpaqueOf("reducercb")), pickle_cache=OneOf(None, PyDict({}))),
            ensures={"holds_exactly_the_slice_in_order": "len(self.items) == 3 and all(self.items[k][0] is iterator_slice[k][0] for k in (0, 1, 2))",
                     "size_is_the_number_of_tasks": "self._size == 3",
                     "nested_backend_and_its_n_jobs": ("self._backend is backend_and_jobs[0] and self._n_jobs is backend_and_jobs[1]" if as_tuple
                                                       else "self._backend is backend_and_jobs and self._n_jobs is None")},
            note="shape-bounded: a slice of exactly 3 tasks",
        ))
    p.add(Contract(
        PAR, "BatchedCalls.__len__", props=["C01", "C09"],
        params=dict(self=ObjOf("BatchedCalls", _size=INT)),
        ensures={"the_size_recorded_at_construction": "result == self._size"},
    ))
    p.models["reducercb.__call__"] = lambda i, fv, a, k: i.ctx.events.append(("reducer_callback",))
    p.add(Contract(
        PAR, "BatchedCalls.__reduce__", props=["C01"],
        globals={"BatchedCalls": lambda interp: Opaque("BatchedCallsClass", None)},
        params=dict(self=ObjOf("BatchedCalls", items=three_items, _size=3, _backend=OpaqueOf("nested"), _n_jobs=Opt(INT), _reducer_callback=Opt(OpaqueOf("reducercb")),
                               _pickle_cache=PyDict({}))),
        ensures={"rebuilt_in_the_worker_with_the_same_tasks_and_nested_backend":
                 "is_tag(result[0], 'BatchedCallsClass') and result[1][0] is self.items and result[1][1][0] is self._backend and result[1][1][1] is self._n_jobs and result[1][2] is None"},
        ensures_body={"reducers_installed_before_pickling": "n_events('reducer_callback') == (0 if self._reducer_callback is None else 1)"},
    ))
    p.spec_funcs["is_tag"] = lambda interp, o, tag: isinstance(o, Opaque) and o.tag == tag

    # ---- eval_expr / eval_: arithmetic only (structural recursion on the ast node datatype; own contract = induction hypothesis)
    def node_kind(interp):
        k = interp.ctx.choose(5, "node-kind")
        tag = ["Constant", "BinOp", "UnaryOp", "Name", "Call"][k]
        n = Opaque("astnode", None, isinstance=(tag,), value=Opaque("constval", None), op=Opaque("astop", None), left=Opaque("astnode_child", None, isinstance=("Constant",)),
                   right=Opaque("astnode_child", None, isinstance=("Constant",)), operand=Opaque("astnode_child", None, isinstance=("Constant",)))
        return n

    UT = "joblib/_utils.py"

    def operators_getitem(interp, recv, idx):
        if interp.ctx.choose(2, "operator-whitelisted") == 1:
            interp.raise_("KeyError")
        return _Fn(lambda i, a, k: (i.ctx.events.append(("arith-op", len(a))), Opaque("number", None))[1])

    p.models["getitem:optable"] = operators_getitem
    ev_ = Contract(
        UT, "eval_", props=["C09"],
        globals={"operators": Opaque("optable", None), "ast": Opaque("astmod", None, Constant=ClassRef("Constant"), BinOp=ClassRef("BinOp"), UnaryOp=ClassRef("UnaryOp"))},
        params=dict(node=node_kind),
        returns=OpaqueOf("number"),
        ensures={},
        exsures={"TypeError": {"not_an_arithmetic_node": "not isinstance(node, (ast.Constant, ast.BinOp, ast.UnaryOp))"}, "KeyError": {}},
        ensures_body={"only_whitelisted_operators_are_applied": "n_events('arith-op') <= 1"},
        note="any node that is not a constant, a binary or a unary operation raises; operators come only from the whitelist table",
    )
    p.add(ev_)

    # ---- _utils: the task's exception travels back unchanged (type and args) through the traceback-capturing wrapper
    def ewt(interp, args, kwargs):
        return Opaque("ewt", None, exc=args[0], isinstance=("_ExceptionWithTraceback",))

    def func_call(interp, fv, args, kwargs):
        interp.ctx.events.append(("func-called", PyDict(kwargs)))
        if interp.ctx.choose(2, "func-raises") == 1:
            e = SExc(BUILTIN_EXC["KeyError"], ())
            interp.ctx.ghost["RAISED"] = e
            raise PyRaise(e)
        return Res.fresh(interp.ctx, "fres")

    p.models["wrappedfunc.__call__"] = func_call
    p.spec_funcs["raised"] = lambda interp: interp.ctx.ghost.get("RAISED")
    p.add(Contract(
        UT, "_TracebackCapturingWrapper.__call__", props=["C04", "C01"],
        globals={"_ExceptionWithTraceback": lambda interp: _Fn(ewt)},
        params=dict(self=ObjOf("_TracebackCapturingWrapper", func=OpaqueOf("wrappedfunc")), kwargs=PyDict({})),
        ensures={"never_raises_in_the_worker": "True",
                 "error_is_returned_wrapped": "implies(raised() is not None, result.exc is raised())"},
        ensures_body={"called_exactly_once": "n_events('func-called') == 1"},
    ))

    def reduce_model(interp, recv, args, kwargs):
        # _ExceptionWithTraceback.__reduce__ (loky, external): rebuilds an exception of the same type and args
        return (_Fn(lambda i, a, k: recv.attrs["exc"]), ())

    p.models["ewt.__reduce__"] = reduce_model
    p.assume_note("loky's _ExceptionWithTraceback.__reduce__ rebuilds an exception with the same type and args (external)")

    def out_kind(interp):
        k = interp.ctx.choose(3, "out-kind")
        if k == 0:
            return Res.fresh(interp.ctx, "plain")
        e = SExc(BUILTIN_EXC["KeyError"], ())
        interp.ctx.ghost["ORIG"] = e
        if k == 1:
            return Opaque("ewt", None, exc=e, isinstance=("_ExceptionWithTraceback",))
        return e

    p.spec_funcs["orig"] = lambda interp: interp.ctx.ghost.get("ORIG")
    p.add(Contract(
        UT, "_retrieve_traceback_capturing_wrapped_call", props=["C04", "C01"],
        globals={"_ExceptionWithTraceback": ClassRef("_ExceptionWithTraceback")},
        params=dict(out=out_kind),
        ensures={"plain_results_pass_through": "same(result, out) and orig() is None"},
        exsures={"KeyError": {"the_tasks_exception_is_re_raised": "exc is orig()"}},
    ))

    # ---- AutoBatchingMixin.compute_batch_size: whatever the timing statistics, the batch size handed to dispatch_one_batch is >= 1
    # (a batch size of 0 slices nothing from the input, which dispatch_one_batch takes for exhaustion: the remaining tasks are dropped)
    p.add(Contract(
        "joblib/_parallel_backends.py", "AutoBatchingMixin.compute_batch_size", props=["C01", "C09"],
        params=dict(self=ObjOf("LokyBackend", _effective_batch_size=INT, _smoothed_batch_duration=REAL, MIN_IDEAL_BATCH_DURATION=0.2, MAX_IDEAL_BATCH_DURATION=2,
                               _DEFAULT_SMOOTHED_BATCH_DURATION=0.0, parallel=OpaqueOf("par", verbose=INT))),
        requires=["self._effective_batch_size >= 1", "self._smoothed_batch_duration >= 0"],
        returns=INT,
        ensures={"at_least_one_task_per_batch": "result >= 1",
                 "representation_invariant_kept": "self._effective_batch_size >= 1 and self._effective_batch_size == result",
                 "never_more_than_doubles": "result <= 2 * old(self._effective_batch_size)"},
    ))
    p.log_calls.update({"self.parallel._print"})

    # ---- backends: abort_everything restarts only when asked to stay ready
    PB = "joblib/_parallel_backends.py"
    p.models["pool.close"] = lambda i, r, a, k: i.ctx.events.append(("pool.close",))
    p.models["pool.terminate"] = lambda i, r, a, k: i.ctx.events.append(("pool.terminate",))
    def configure_model(i, r, a, k):
        i.ctx.events.append(("configure", k.get("n_jobs"), dict(k)))

    for bcls in ("ThreadingBackend", "MultiprocessingBackend", "LokyBackend"):
        p.models[bcls + ".configure"] = configure_model
    p.models["MultiprocessingBackend.reset_batch_stats"] = lambda i, r, a, k: None
    p.models["executor.terminate"] = lambda i, r, a, k: i.ctx.events.append(("executor.terminate", k.get("kill_workers")))
    MISSING = Opaque("not-passed", None)
    p.spec_funcs["configured_with"] = lambda interp, key: [e for e in interp.ctx.events if e[0] == "configure"][0][2].get(key, MISSING)
    # the settings the Parallel object was configured with at the start of the call (Parallel._initialize_backend passes **self._backend_kwargs):
    # two representative entries, arbitrary values
    par_obj = lambda i: Opaque("par", None, n_jobs=INT.fresh(i.ctx, "n_jobs"),
                               _backend_kwargs=PyDict({"mmap_mode": OneOf(None, STR).fresh(i.ctx, "mmap_mode"), "initializer": Opaque("userfn", None)}))
    SAME_SETTINGS = "implies(ensure_ready, all(configured_with(k) is self.parallel._backend_kwargs[k] for k in ('mmap_mode', 'initializer')) and configured_with('parallel') is self.parallel)"
    # stated for the concrete backends and resolved through the class hierarchy on every run: an override appearing in a subclass is
    # then the code that is verified
    for bcls in ("ThreadingBackend", "MultiprocessingBackend"):
        p.add(Contract(
            PB, bcls + ".abort_everything", props=["C04"],
            inline={"terminate"},
            params=dict(self=ObjOf(bcls, _pool=Opt(OpaqueOf("pool")), parallel=par_obj), ensure_ready=OneOf(True, False)),
            ensures={"pool_gone_or_replaced": "self._pool is None or self._pool is not old(self._pool)"},
            ensures_body={"reconfigured_iff_ensure_ready": "n_events('configure') == (1 if ensure_ready else 0)",
                          "same_n_jobs": "implies(ensure_ready, ev_named('configure')[0][1] is self.parallel.n_jobs)",
                          "same_settings_as_the_parallel_object": SAME_SETTINGS,
                          "old_pool_terminated": "implies(old(self._pool) is not None, n_events('pool.terminate') == 1)"},
        ))
    # ---- submit / retrieve_result_callback of the pool-based backends: a task runs inside the traceback-capturing wrapper, which turns ANY
    # exception of the task - also a BaseException such as SystemExit or KeyboardInterrupt, which would otherwise kill the pool's worker and
    # leave the call waiting for ever - into a value the completion callback receives (contract of _TracebackCapturingWrapper.__call__)
    def apply_async(interp, recv, args, kwargs):
        interp.ctx.events.append(("apply_async", args[0], kwargs.get("callback"), kwargs.get("error_callback")))
        return Opaque("asyncresult", None)

    p.models["pool.apply_async"] = apply_async
    p.models["new:_TracebackCapturingWrapper"] = lambda i, a, k: Opaque("tbwrapper", None, func=a[0])
    p.models["ThreadingBackend._get_pool"] = lambda i, r, a, k: r.fields["_pool"]
    p.models["MultiprocessingBackend._get_pool"] = lambda i, r, a, k: r.fields["_pool"]

    def unwrap_stub(interp, args, kwargs):
        interp.ctx.events.append(("unwrap", args[0]))
        return Opaque("unwrapped", None)

    for bcls in ("ThreadingBackend", "MultiprocessingBackend"):
        p.add(Contract(
            PB, bcls + ".submit", props=["C04", "C01"],
            params=dict(self=ObjOf(bcls, _pool=OpaqueOf("pool")), func=OpaqueOf("batchfn"), callback=Opt(OpaqueOf("cb"))),
            ensures={"returns_the_pools_handle": "is_tag(result, 'asyncresult')"},
            ensures_body={"the_task_runs_inside_the_exception_capturing_wrapper": "n_events('apply_async') == 1 and is_tag(ev_named('apply_async')[0][1], 'tbwrapper') and ev_named('apply_async')[0][1].func is func",
                          "completion_callback_fires_on_success_and_on_error": "ev_named('apply_async')[0][2] is callback and ev_named('apply_async')[0][3] is callback"},
        ))
        p.add(Contract(
            PB, bcls + ".retrieve_result_callback", props=["C04", "C01"],
            globals={"_retrieve_traceback_capturing_wrapped_call": lambda interp: _Fn(unwrap_stub)},
            params=dict(self=ObjOf(bcls, _pool=OpaqueOf("pool")), result=OpaqueOf("poolresult")),
            ensures={"what_the_wrapper_captured_is_unwrapped": "is_tag(result, 'unwrapped')"},
            ensures_body={"unwrapped_once_untouched": "n_events('unwrap') == 1 and is_tag(ev_named('unwrap')[0][1], 'poolresult')"},
        ))
    # ---- the default backend (loky): submit hands exactly this batch to the executor once and attaches the completion callback to its
    # future (a done-callback fires on success, on error and on cancellation alike); retrieve_result_callback returns the future's result or
    # raises ITS exception - the task's own (C04) - and turns the executor-level ShutdownExecutorError into the documented RuntimeError;
    # terminate keeps the workers but gives back the temporary resources of THIS Parallel object only
    def executor_submit(interp, recv, args, kwargs):
        interp.ctx.events.append(("executor.submit", args[0]))
        return Opaque("future", None)

    def add_done_callback(interp, recv, args, kwargs):
        interp.ctx.events.append(("add_done_callback", recv, args[0]))

    def future_result(interp, recv, args, kwargs):
        k = interp.ctx.choose(3, "future-outcome")
        interp.ctx.events.append(("future.result", recv))
        if k == 1:
            e = SExc(BUILTIN_EXC["ValueError"], ())
            interp.ctx.ghost["TASK_EXC"] = e
            raise PyRaise(e)
        if k == 2:
            interp.ctx.ghost["EXECUTOR_SHUT_DOWN"] = True
            raise PyRaise(SExc(interp.global_lookup("ShutdownExecutorError", SourceModule.get(PB)), ()))
        return Opaque("batchresults", None, of=recv)

    p.models["executor.submit"] = executor_submit
    p.models["future.add_done_callback"] = add_done_callback
    p.models["future.result"] = future_result
    p.models["LokyBackend.reset_batch_stats"] = lambda i, r, a, k: i.ctx.events.append(("reset_batch_stats",))
    p.models["tmpmanager._clean_temporary_resources"] = lambda i, r, a, k: i.ctx.events.append(("clean", k.get("context_id"), k.get("force")))
    p.spec_funcs["same_exc"] = lambda interp, e: e is interp.ctx.ghost.get("TASK_EXC")
    p.spec_funcs["executor_shut_down"] = lambda interp: bool(interp.ctx.ghost.get("EXECUTOR_SHUT_DOWN"))
    p.add(Contract(
        PB, "LokyBackend.submit", props=["C04", "C01"],
        params=dict(self=ObjOf("LokyBackend", _workers=OpaqueOf("executor")), func=OpaqueOf("batchfn"), callback=Opt(OpaqueOf("cb"))),
        ensures={"returns_the_future_of_this_batch": "is_tag(result, 'future')"},
        ensures_body={"this_batch_is_handed_over_exactly_once": "n_events('executor.submit') == 1 and ev_named('executor.submit')[0][1] is func",
                      "completion_callback_attached_to_that_future": "n_events('add_done_callback') == (0 if callback is None else 1) and "
                                                                     "implies(callback is not None, ev_named('add_done_callback')[0][1] is result and ev_named('add_done_callback')[0][2] is callback)"},
    ))
    p.add(Contract(
        PB, "LokyBackend.retrieve_result_callback", props=["C04", "C01"],
        params=dict(self=ObjOf("LokyBackend", _workers=OpaqueOf("executor")), future=OpaqueOf("future")),
        ensures={"the_results_of_that_future": "is_tag(result, 'batchresults') and result.of is future"},
        ensures_body={"asked_once": "n_events('future.result') == 1"},
        exsures={"ValueError": {"the_tasks_own_exception": "same_exc(exc)"},
                 "RuntimeError": {"only_for_an_executor_that_was_shut_down": "executor_shut_down()"}},
    ))
    p.add(Contract(
        PB, "LokyBackend.terminate", props=["C04", "C20"],
        params=dict(self=lambda i: ObjOf("LokyBackend", _workers=Opt(OpaqueOf("executor", _temp_folder_manager=OpaqueOf("tmpmanager"))),
                                          parallel=Opaque("par", None, _id=STR.fresh(i.ctx, "pid"))).fresh(i.ctx, "self")),
        ensures={"workers_released_not_killed": "self._workers is None"},
        ensures_body={"only_this_objects_temporaries_are_given_back_gently": "n_events('clean') == (1 if old(self._workers) is not None else 0) and "
                                                                             "implies(n_events('clean') == 1, ev_named('clean')[0][1] is self.parallel._id and ev_named('clean')[0][2] is False)",
                      "executor_left_alive_for_reuse": "n_events('executor.terminate') == 0"},
    ))
    p.add(Contract(
        PB, "LokyBackend.abort_everything", props=["C04"],
        params=dict(self=ObjOf("LokyBackend", _workers=OpaqueOf("executor"), parallel=par_obj), ensure_ready=OneOf(True, False)),
        ensures={},
        ensures_body={"reconfigured_iff_ensure_ready": "n_events('configure') == (1 if ensure_ready else 0)",
                      "same_n_jobs": "implies(ensure_ready, ev_named('configure')[0][1] is self.parallel.n_jobs)",
                      "same_settings_as_the_parallel_object": SAME_SETTINGS,
                      "old_workers_killed": "n_events('executor.terminate') == 1 and ev_named('executor.terminate')[0][1] is True"},
    ))
    return p
