"""C07 - filter_args binds parameters exactly as Python does (UNBOUNDED: arbitrary signature length, four loop invariants).

Signature model (assumed contract of inspect.signature, validated natively against exec-generated functions):
  SIG = list of parameters (name, kind in {0 PO, 1 POK, 2 VARPOS, 3 KWONLY, 4 VARKW}, default or EMPTY), kinds non-decreasing,
  at most one VARPOS / VARKW, names pairwise distinct (ghost inverse idx), '*' and '**' are not parameter names.
  Blocks: positional parameters = [0, NP), keyword-only = [KLO, KHI), VARPOS at NP iff KLO == NP + 1 ... (block axioms).
Call: args[0..A), kwargs : Name -> Val.  `accepts` is Python's acceptance condition (DESIGN Appendix D), `pybind` the value
Python binds to each named parameter.  Two variants: plain functions, and bound methods (the instance prepended to the
arguments, its name prepended to the parameter names: the L1 invariants are stated with an offset OFF = 1, the later ones over
the full signature of the underlying function).
"""
import z3

from pyvc import ops
from pyvc.contracts import Contract, Loop
from pyvc.interp import BUILTIN_EXC, PyRaise
from pyvc.pack import Pack
from pyvc.values import (
    BOOL, INT, STR, Atom, DictOf, Kind, ListOf, ObjOf, OneOf, Opaque, OpaqueOf, Opt, PyDict, PyList, Rec, SDict, SExc, SList, Sym,
    Unsupported, kind_of, to_term,
)

from .common import install_common

FI = "joblib/func_inspect.py"
Name = Atom("PName")
Val = Atom("PyVal")
Param = Rec("Param", name=Name, kind=INT, default=Val)
P_NAME, P_KIND, P_DEF = Param.field_fn("name"), Param.field_fn("kind"), Param.field_fn("default")
EMPTY = z3.Const("Parameter.empty", Val.sort())
STAR, DSTAR = z3.Const("name:*", Name.sort()), z3.Const("name:**", Name.sort())
IDX = z3.Function("idx_of", Name.sort(), z3.IntSort())         # inverse of the name list of the signature
IGN_IDX = z3.Function("ign_idx_of", Name.sort(), z3.IntSort())  # inverse of the ignore list
KW_IDX = z3.Function("kw_idx_of", Name.sort(), z3.IntSort())    # inverse of the iteration order over kwargs


def _Fn(fn):
    return Opaque("fn", None, fn=fn)


class MemberList:
    """A list used only through append / `in` / len: membership array + length."""
    pyvc_methods = True

    def __init__(self, mem, n):
        self.mem, self.n = mem, n

    def pyvc_len(self, interp):
        return Sym(INT, self.n)


class MemberListKind(Kind):
    name = "MemberList[PName]"

    def fresh(self, ctx, hint="ml"):
        nm = ctx.fresh_name(hint)
        n = z3.Int(nm + ".len")
        ctx.assume(n >= 0)
        return MemberList(z3.Const(nm, z3.ArraySort(Name.sort(), z3.BoolSort())), n)


class ArgDict:
    """arg_dict: named entries Name -> Val, plus the two special entries '*' (a list) and '**' (a dict)."""
    pyvc_methods = True
    tag = "argdict"

    def __init__(self, dom, arr):
        self.dom, self.arr = dom, arr
        self.star = None
        self.dstar = None

    def pyvc_havoc(self, ctx, hint):
        # the named entries are arbitrary; the two special values are only ever SET (never rebound) by the code under contract
        d = ArgDictKind().fresh(ctx, hint)
        d.star, d.dstar = self.star, self.dstar
        return d


class ArgDictKind(Kind):
    name = "ArgDict"

    def fresh(self, ctx, hint="arg_dict"):
        nm = ctx.fresh_name(hint)
        return ArgDict(z3.Const(nm + ".dom", z3.ArraySort(Name.sort(), z3.BoolSort())), z3.Const(nm, z3.ArraySort(Name.sort(), Val.sort())))


def build():
    p = Pack("C07", files=[FI])
    install_common(p)
    p.models["fn.__call__"] = lambda interp, fv, args, kwargs: fv.attrs["fn"](interp, args, kwargs)
    p.log_calls.update({"warnings.warn", "_signature_str", "_function_called_str"})

    def key_term(k):
        if isinstance(k, str):
            if k == "*":
                return STAR
            if k == "**":
                return DSTAR
            raise Unsupported("literal key %r" % k)
        return to_term(k)

    def coerce_pair(a, b):
        # parameter names are an uninterpreted sort; the literals '*' and '**' denote its two distinguished constants
        if isinstance(a, Sym) and a.kind is Name and isinstance(b, str) and b in ("*", "**"):
            return a, Sym(Name, STAR if b == "*" else DSTAR)
        if isinstance(b, Sym) and b.kind is Name and isinstance(a, str) and a in ("*", "**"):
            return Sym(Name, STAR if a == "*" else DSTAR), b
        return a, b

    p.coerce_pair = coerce_pair

    # ---- custom containers
    orig_cm = p.container_method

    def cm(interp, recv, name, args, kwargs, node):
        ctx = interp.ctx
        if isinstance(recv, MemberList):
            if name == "append":
                recv.mem = z3.Store(recv.mem, to_term(args[0]), True)
                recv.n = recv.n + 1
                return None
            raise Unsupported("MemberList." + name)
        if isinstance(recv, ArgDict):
            if name == "__setitem__":
                k, v = args
                kt = key_term(k)
                recv.dom = z3.Store(recv.dom, kt, True)
                if isinstance(v, (SDict,)):
                    recv.dstar = v
                elif isinstance(v, (SList,)):
                    recv.star = v
                else:
                    recv.arr = z3.Store(recv.arr, kt, to_term(v))
                return None
            if name == "pop":
                kt = key_term(args[0])
                if not ctx.branch(z3.Select(recv.dom, kt), "pop:present"):
                    interp.raise_("KeyError")
                recv.dom = z3.Store(recv.dom, kt, False)
                return None
            raise Unsupported("arg_dict." + name)
        if isinstance(recv, PyList) and name == "append" and not recv.items and isinstance(args[0], Sym) and args[0].kind is Name and False:
            pass
        return orig_cm(interp, recv, name, args, kwargs, node)

    p.container_method = cm
    p.models["contains:argdict"] = lambda interp, c, item: z3.Select(c.dom, key_term(item))
    MemberList.tag = "memberlist"
    p.models["contains:memberlist"] = lambda interp, c, item: z3.Select(c.mem, to_term(item))
    p.models["builtin:dict"] = (lambda orig: (lambda i, a, k: ArgDictOrPy(i, a, k, orig)))(p.models["builtin:dict"])

    def ArgDictOrPy(interp, args, kwargs, orig):
        return orig(interp, args, kwargs)

    # ---- inspect (ASSUMED) and the ghost signature
    for const, v in (("POSITIONAL_ONLY", 0), ("POSITIONAL_OR_KEYWORD", 1), ("VAR_POSITIONAL", 2), ("KEYWORD_ONLY", 3), ("VAR_KEYWORD", 4)):
        p.models["getattr:Param." + const] = (lambda v: (lambda interp, recv: v))(v)
    p.models["getattr:Param.empty"] = lambda interp, recv: Sym(Val, EMPTY)
    SELFV = z3.Const("the_instance", Val.sort())

    def prepend(ctx, elt, x, lst, hint):
        """[x] + lst for a symbolic list: a new list with shift axioms (both directions, so that either list's elements can trigger them)"""
        nm = ctx.fresh_name(hint)
        arr2 = z3.Const(nm, z3.ArraySort(z3.IntSort(), elt.sort()))
        j = z3.Int("j!pre")
        ctx.assume(z3.Select(arr2, 0) == x)
        ctx.assume(z3.ForAll([j], z3.Implies(z3.And(1 <= j, j <= lst.length), z3.Select(arr2, j) == z3.Select(lst.arr, j - 1)), patterns=[z3.Select(arr2, j)]))
        ctx.assume(z3.ForAll([j], z3.Implies(z3.And(0 <= j, j < lst.length), z3.Select(arr2, j + 1) == z3.Select(lst.arr, j)), patterns=[z3.Select(lst.arr, j)]))
        return SList(elt, arr2, lst.length + 1)

    def visible_params(interp):
        """inspect.signature(bound method).parameters.values(): the parameters of the underlying function without the first one"""
        ctx = interp.ctx
        g = ctx.ghost
        if "SIGV" not in g:
            sig = g["SIG"]
            nm = ctx.fresh_name("visible")
            arr = z3.Const(nm, z3.ArraySort(z3.IntSort(), Param.sort()))
            j = z3.Int("j!vis")
            ctx.assume(z3.ForAll([j], z3.Implies(z3.And(0 <= j, j < sig.length - 1), z3.Select(arr, j) == z3.Select(sig.arr, j + 1)), patterns=[z3.Select(arr, j)]))
            g["SIGV"] = SList(Param, arr, sig.length - 1)
        return g["SIGV"]

    def m_signature(interp, args, kwargs):
        f = args[0]
        # (a bound method of `def m(*args, ...)` keeps all its parameters: nothing is consumed by the instance)
        full = interp.ctx.ghost.get("METHOD") is not True or (isinstance(f, Opaque) and f.tag == "underlying")
        return Opaque("signature", None, parameters=Opaque("paramsmap", None, full=full))

    p.models["inspect.signature"] = m_signature
    p.models["paramsmap.values"] = lambda i, r, a, k: i.ctx.ghost["SIG"] if r.attrs.get("full", True) else visible_params(i)
    p.models["paramsmap.__iter__"] = lambda i, r, a, k: Opaque("paramsiter", None, full=r.attrs.get("full", True))

    def params_next(interp, it, args, kwargs):
        if not it.attrs["full"]:
            raise Unsupported("iteration over the visible parameters")
        sig = interp.ctx.ghost["SIG"]
        return Sym(Name, P_NAME(z3.Select(sig.arr, 0)))  # NP >= 1 is required: the signature is not empty

    p.models["paramsiter.__next__"] = params_next
    p.models["inspect.ismethod"] = lambda i, a, k: bool(i.ctx.ghost.get("METHOD"))
    p.models["inspect.isfunction"] = lambda i, a, k: not i.ctx.ghost.get("METHOD")
    p.models["getattr:userfunc.__self__"] = lambda interp, recv: Sym(Val, SELFV)
    p.models["getattr:userfunc.__func__"] = lambda interp, recv: Opaque("underlying", None)

    def concat(interp, a, b):
        ctx = interp.ctx
        if isinstance(a, PyList) and len(a.items) == 1:
            x = a.items[0]
            if isinstance(b, MemberList):
                return MemberList(z3.Store(b.mem, to_term(x), True), b.n + 1)
            if isinstance(b, SList) and b.elt is Val and "ARGS0" in ctx.ghost and ctx.ghost.get("METHOD") and z3.eq(to_term(x), SELFV):
                return ctx.ghost["ARGS0"].clone()  # [func.__self__] + args is, by definition, the argument list the underlying function receives
            if isinstance(b, SList):
                return prepend(ctx, b.elt, to_term(x), b, "prepended")
        return None

    p.models["concat"] = concat
    p.assume_note("inspect.signature(func) returns a well-formed parameter list that matches the function (CPython): kinds ordered, one */** at most, distinct identifiers, block structure")
    p.assume_note("plain functions and bound methods (variant bound-method: the signature seen by inspect.signature(func) is that of func.__func__ without its first, positional, "
                  "parameter - or, variant bound-method-without-self-parameter, the whole signature when that first parameter is *args; the underlying function receives [func.__self__] + args); "
                  "functools.partial objects: bounded native oracle only (finding K22)")
    glob = {"get_func_name": lambda interp: _Fn(lambda i, a, k: ((), STR.fresh(i.ctx, "fname")))}

    def G(interp, n):
        return ops.as_int_term(interp.ctx.ghost[n])

    def OFF(interp):
        """number of leading parameters of SIG that inspect.signature(func) does not show (1 for a bound method: the instance)"""
        return 1 if interp.ctx.ghost.get("METHOD") is True else 0

    def setup(interp, env):
        ctx = interp.ctx
        g = ctx.ghost
        sig = g["SIG"]
        n = sig.length
        NP, KLO, KHI = G(interp, "NP"), G(interp, "KLO"), G(interp, "KHI")
        i, j = z3.Int("i!sig"), z3.Int("j!sig")
        sel = lambda t: z3.Select(sig.arr, t)
        kind = lambda t: P_KIND(sel(t))
        ctx.assume(z3.ForAll([i], z3.Implies(z3.And(0 <= i, i < n), z3.And(
            0 <= kind(i), kind(i) <= 4, IDX(P_NAME(sel(i))) == i, P_NAME(sel(i)) != STAR, P_NAME(sel(i)) != DSTAR,
            (kind(i) <= 1) == (i < NP), (kind(i) == 3) == z3.And(KLO <= i, i < KHI), (kind(i) == 2) == z3.And(NP <= i, i < KLO), (kind(i) == 4) == (KHI <= i))),
            patterns=[sel(i)]))
        ctx.assume(z3.And(0 <= NP, NP <= KLO, KLO <= KHI, KHI <= n, KLO - NP <= 1, n - KHI <= 1, STAR != DSTAR))
        # the ignore list: distinct names (ghost inverse)
        ign = env.lookup("ignore_lst")
        ctx.assume(z3.ForAll([j], z3.Implies(z3.And(0 <= j, j < ign.length), IGN_IDX(z3.Select(ign.arr, j)) == j), patterns=[z3.Select(ign.arr, j)]))
        a0 = env.lookup("args")
        if g.get("METHOD"):
            # the underlying function receives the instance first: either its first parameter is positional (variant bound-method) or
            # it is *args (variant bound-method-without-self-parameter: def m(*args, ...)); a method without any positional slot cannot be called
            if g["METHOD"] is True:
                ctx.assume(NP >= 1)
            else:
                ctx.assume(z3.And(NP == 0, KLO == 1))
            g["ARGS0"] = prepend(ctx, Val, SELFV, a0, "args_with_self")
        else:
            g["ARGS0"] = a0.clone()
        g["KW0"] = env.lookup("kwargs").clone()

    # ---- spec functions -----------------------------------------------------------------------
    def named(interp, nm):
        """nm is the name of a PO / POK / KWONLY parameter."""
        sig = interp.ctx.ghost["SIG"]
        t = to_term(nm)
        i = IDX(t)
        return z3.And(0 <= i, i < sig.length, P_NAME(z3.Select(sig.arr, i)) == t, P_KIND(z3.Select(sig.arr, i)) != 2, P_KIND(z3.Select(sig.arr, i)) != 4)

    def kind_of_name(interp, nm):
        sig = interp.ctx.ghost["SIG"]
        return P_KIND(z3.Select(sig.arr, IDX(to_term(nm))))

    def posn(interp, nm):
        """position of a named parameter in arg_names (positional block first, then the keyword-only block)."""
        i = IDX(to_term(nm))
        return z3.If(i < G(interp, "NP"), i, G(interp, "NP") + i - G(interp, "KLO"))

    def pybind(interp, nm):
        g = interp.ctx.ghost
        sig, args, kw = g["SIG"], g["ARGS0"], g["KW0"]
        t = to_term(nm)
        i = IDX(t)
        k = P_KIND(z3.Select(sig.arr, i))
        return z3.If(z3.And(k <= 1, i < args.length), z3.Select(args.arr, i),
                     z3.If(z3.And(k != 0, z3.Select(kw.dom, t)), z3.Select(kw.arr, t), P_DEF(z3.Select(sig.arr, i))))

    def accepts(interp):
        g = interp.ctx.ghost
        sig, args, kw = g["SIG"], g["ARGS0"], g["KW0"]
        n, A = sig.length, args.length
        NP, KLO, KHI = G(interp, "NP"), G(interp, "KLO"), G(interp, "KHI")
        has_vp, has_vk = KLO > NP, n > KHI
        i = z3.Int("i!acc")
        k = z3.Const("k!acc", Name.sort())
        sel = lambda t: z3.Select(sig.arr, t)
        nm = lambda t: P_NAME(sel(t))
        kd = lambda t: P_KIND(sel(t))
        dflt = lambda t: P_DEF(sel(t)) != EMPTY
        inkw = lambda t: z3.Select(kw.dom, nm(t))
        return z3.And(
            z3.Or(A <= NP, has_vp), A >= 0,
            z3.ForAll([i], z3.Implies(z3.And(0 <= i, i < NP, i < A), z3.And(
                z3.Implies(kd(i) == 1, z3.Not(inkw(i))), z3.Implies(z3.And(kd(i) == 0, inkw(i)), has_vk))), patterns=[sel(i)]),
            z3.ForAll([i], z3.Implies(z3.And(A <= i, i < NP, 0 <= i), z3.And(
                z3.Implies(kd(i) == 0, z3.And(dflt(i), z3.Implies(inkw(i), has_vk))),
                z3.Implies(kd(i) == 1, z3.Or(inkw(i), dflt(i))))), patterns=[sel(i)]),
            z3.ForAll([i], z3.Implies(z3.And(KLO <= i, i < KHI), z3.Or(inkw(i), dflt(i))), patterns=[sel(i)]),
            z3.ForAll([k], z3.Implies(z3.Select(kw.dom, k), z3.And(k != STAR, k != DSTAR, z3.Or(has_vk, z3.And(named(interp, Sym(Name, k)), kind_of_name(interp, Sym(Name, k)) != 0))))),
        )

    p.spec_funcs["accepts"] = lambda interp: ops.mk_bool(accepts(interp))

    def dict_is(interp, d, upto, mode):
        """arg_dict contains exactly the named parameters at position < upto, each bound to pybind (mode 'bind')."""
        k = z3.Const("k!ad", Name.sort())
        ks = Sym(Name, k)
        if isinstance(d, PyDict):
            return len(d.d) == 0
        want = z3.And(named(interp, ks), posn(interp, ks) < ops.as_int_term(upto))
        return ops.mk_bool(z3.ForAll([k], z3.And(z3.Select(d.dom, k) == want, z3.Implies(want, z3.Select(d.arr, k) == pybind(interp, ks)))))

    p.spec_funcs["dict_is"] = dict_is

    def names_are(interp, lst, upto):
        """arg_names after `upto` parameters: the positional block then the keyword-only block, in signature order."""
        sig = interp.ctx.ghost["SIG"]
        u = ops.as_int_term(upto)
        NP, KLO, KHI = G(interp, "NP"), G(interp, "KLO"), G(interp, "KHI")
        mn = lambda a, b: z3.If(a <= b, a, b)
        cl = lambda x, lo, hi: z3.If(x < lo, lo, z3.If(x > hi, hi, x))
        off = OFF(interp)
        u = u + off
        npos = mn(u, NP) - off
        nkw = cl(u, KLO, KHI) - KLO
        if isinstance(lst, PyList):
            return ops.mk_bool(z3.And(npos + nkw == len(lst.items))) if not lst.items else False
        j = z3.Int("j!nm")
        return ops.mk_bool(z3.And(
            lst.length == npos + nkw,
            z3.ForAll([j], z3.Implies(z3.And(0 <= j, j < npos), z3.Select(lst.arr, j) == P_NAME(z3.Select(sig.arr, j + off))), patterns=[z3.Select(lst.arr, j)]),
            z3.ForAll([j], z3.Implies(z3.And(NP - off <= j, j < NP - off + nkw), z3.Select(lst.arr, j) == P_NAME(z3.Select(sig.arr, KLO + j - (NP - off)))),
                      patterns=[z3.Select(lst.arr, j)]),
        ))

    p.spec_funcs["names_are"] = names_are

    def members_are(interp, ml, upto, kind):
        sig = interp.ctx.ghost["SIG"]
        u = ops.as_int_term(upto)
        if isinstance(ml, PyList):
            return len(ml.items) == 0 and True
        k = z3.Const("k!ml", Name.sort())
        i = IDX(k)
        off = OFF(interp)
        u = u + off
        want = z3.And(off <= i, i < u, i < sig.length, P_NAME(z3.Select(sig.arr, i)) == k, P_KIND(z3.Select(sig.arr, i)) == kind)
        KLO, KHI = G(interp, "KLO"), G(interp, "KHI")
        cl = lambda x, lo, hi: z3.If(x < lo, lo, z3.If(x > hi, hi, x))
        cnt = (cl(u, KLO, KHI) - KLO) if kind == 3 else None
        t = z3.ForAll([k], z3.Select(ml.mem, k) == want)
        if cnt is not None:
            t = z3.And(t, ml.n == cnt)
        return ops.mk_bool(t)

    p.spec_funcs["members_are"] = members_are

    def defaults_are(interp, d, upto):
        sig = interp.ctx.ghost["SIG"]
        u = ops.as_int_term(upto)
        if isinstance(d, PyDict):
            return len(d.d) == 0
        k = z3.Const("k!df", Name.sort())
        i = IDX(k)
        off = OFF(interp)
        u = u + off
        want = z3.And(off <= i, i < u, i < sig.length, P_NAME(z3.Select(sig.arr, i)) == k, P_DEF(z3.Select(sig.arr, i)) != EMPTY)
        return ops.mk_bool(z3.ForAll([k], z3.And(z3.Select(d.dom, k) == want, z3.Implies(want, z3.Select(d.arr, k) == P_DEF(z3.Select(sig.arr, i))))))

    p.spec_funcs["defaults_are"] = defaults_are
    p.spec_funcs["has_varpos"] = lambda interp: ops.mk_bool(G(interp, "KLO") > G(interp, "NP"))
    p.spec_funcs["has_varkw"] = lambda interp: ops.mk_bool(interp.ctx.ghost["SIG"].length > G(interp, "KHI"))
    p.spec_funcs["seen_varpos"] = lambda interp, upto: ops.mk_bool(z3.And(G(interp, "KLO") > G(interp, "NP"), ops.as_int_term(upto) + OFF(interp) > G(interp, "NP")))
    p.spec_funcs["seen_varkw"] = lambda interp, upto: ops.mk_bool(z3.And(interp.ctx.ghost["SIG"].length > G(interp, "KHI"), ops.as_int_term(upto) + OFF(interp) > G(interp, "KHI")))

    def varkw_is(interp, d, upto):
        """varkwargs after `upto` keyword items: exactly the processed surplus keywords, with their values."""
        g = interp.ctx.ghost
        kw = g["KW0"]
        u = ops.as_int_term(upto)
        if isinstance(d, PyDict):
            return len(d.d) == 0
        k = z3.Const("k!vk", Name.sort())
        ks = Sym(Name, k)
        surplus = z3.Not(z3.And(named(interp, ks), kind_of_name(interp, ks) != 0))
        want = z3.And(z3.Select(kw.dom, k), surplus, 0 <= KW_IDX(k), KW_IDX(k) < u)
        return ops.mk_bool(z3.ForAll([k], z3.And(z3.Select(d.dom, k) == want, z3.Implies(want, z3.Select(d.arr, k) == z3.Select(kw.arr, k)))))

    p.spec_funcs["varkw_is"] = varkw_is

    def ignored_prefix(interp, d, d0dom, upto):
        """after removing ignore_lst[0:upto]: domain = original domain minus those names."""
        ign = interp.ctx.ghost["IGN"]
        u = ops.as_int_term(upto)
        k = z3.Const("k!ig", Name.sort())
        removed = z3.And(0 <= IGN_IDX(k), IGN_IDX(k) < u, IGN_IDX(k) < ign.length, z3.Select(ign.arr, IGN_IDX(k)) == k)
        return ops.mk_bool(z3.ForAll([k], z3.Select(d.dom, k) == z3.And(z3.Select(d0dom, k), z3.Not(removed))))

    # ---- kwargs iteration: sorted(kwargs.items()) enumerates every item exactly once (the order is irrelevant to the result)
    def kw_items(interp, recv, args, kwargs):
        return Opaque("kwitems", None, d=recv)

    def m_sorted(interp, args, kwargs):
        ctx = interp.ctx
        src = args[0]
        if not (isinstance(src, Opaque) and src.tag == "kwitems"):
            raise Unsupported("sorted(%r)" % (src,))
        d = src.attrs["d"]
        n = z3.Int(ctx.fresh_name("nkw"))
        key = z3.Function(ctx.fresh_name("kwkey"), z3.IntSort(), Name.sort())
        i = z3.Int("i!kw")
        k = z3.Const("k!kwit", Name.sort())
        ctx.assume(n >= 0)
        ctx.assume(z3.ForAll([i], z3.Implies(z3.And(0 <= i, i < n), z3.And(z3.Select(d.dom, key(i)), KW_IDX(key(i)) == i)), patterns=[key(i)]))
        ctx.assume(z3.ForAll([k], z3.Implies(z3.Select(d.dom, k), z3.And(0 <= KW_IDX(k), KW_IDX(k) < n, key(KW_IDX(k)) == k)), patterns=[KW_IDX(k)]))
        ctx.ghost["NKW"] = Sym(INT, n)
        return Opaque("kwseq", None, seq=(n, lambda t: (Sym(Name, key(t)), Sym(Val, z3.Select(d.arr, key(t))))))

    p.models["builtin:sorted"] = m_sorted
    p.assume_note("sorted(kwargs.items()) enumerates every keyword item exactly once (distinct str keys are totally ordered); the result does not depend on the order")
    orig_cm2 = p.container_method

    def cm2(interp, recv, name, args, kwargs, node):
        if isinstance(recv, SDict) and name == "items":
            return kw_items(interp, recv, args, kwargs)
        return orig_cm2(interp, recv, name, args, kwargs, node)

    p.container_method = cm2

    # `dict()` creates the two accumulators: arg_dict (named entries + specials) and varkwargs
    def m_dict(interp, args, kwargs):
        if not args and not kwargs:
            return PyDict({})
        raise Unsupported("dict(...) with arguments")

    p.models["builtin:dict"] = m_dict

    GH = dict(SIG=ListOf(Param), NP=INT, KLO=INT, KHI=INT)

    def post_setup(interp, env):
        setup(interp, env)
        interp.ctx.ghost["IGN"] = env.lookup("ignore_lst")

    def expected_key(interp, nm):
        """nm is a key of the full (un-ignored) result."""
        t = to_term(nm)
        return z3.Or(named(interp, nm), z3.And(t == STAR, G(interp, "KLO") > G(interp, "NP")), z3.And(t == DSTAR, interp.ctx.ghost["SIG"].length > G(interp, "KHI")))

    def result_ok(interp, d):
        g = interp.ctx.ghost
        ign = g["IGN"]
        k = z3.Const("k!res", Name.sort())
        ks = Sym(Name, k)
        ignored = z3.And(0 <= IGN_IDX(k), IGN_IDX(k) < ign.length, z3.Select(ign.arr, IGN_IDX(k)) == k)
        return ops.mk_bool(z3.ForAll([k], z3.And(
            z3.Select(d.dom, k) == z3.And(expected_key(interp, ks), z3.Not(ignored)),
            z3.Implies(z3.And(named(interp, ks), z3.Not(ignored)), z3.Select(d.arr, k) == pybind(interp, ks)))))

    p.spec_funcs["result_ok"] = result_ok

    def star_ok(interp, d):
        g = interp.ctx.ghost
        if d.star is None:
            return ops.mk_bool(z3.Not(G(interp, "KLO") > G(interp, "NP")))
        args = g["ARGS0"]
        NP = G(interp, "NP")
        j = z3.Int("j!st")
        ln = z3.If(args.length - NP < 0, z3.IntVal(0), args.length - NP)
        return ops.mk_bool(z3.And(d.star.length == ln, z3.ForAll([j], z3.Implies(z3.And(0 <= j, j < ln), z3.Select(d.star.arr, j) == z3.Select(args.arr, NP + j)))))

    p.spec_funcs["star_ok"] = star_ok

    def dstar_ok(interp, d):
        if d.dstar is None:
            return ops.mk_bool(z3.Not(interp.ctx.ghost["SIG"].length > G(interp, "KHI")))
        return varkw_is(interp, d.dstar, interp.ctx.ghost["NKW"])

    p.spec_funcs["dstar_ok"] = dstar_ok
    p.spec_funcs["ignore_known"] = lambda interp: ops.mk_bool(z3.ForAll([z3.Int("j!ik")], z3.Implies(
        z3.And(0 <= z3.Int("j!ik"), z3.Int("j!ik") < interp.ctx.ghost["IGN"].length),
        expected_key(interp, Sym(Name, z3.Select(interp.ctx.ghost["IGN"].arr, z3.Int("j!ik")))))))
    p.spec_funcs["dom0"] = lambda interp: interp.ctx.ghost.get("DOM0")

    # remember the domain of arg_dict when the ignore loop starts
    orig_fs = p.for_sequence

    def for_sequence(interp, it, node):
        if isinstance(it, SList) and it is interp.ctx.ghost.get("IGN"):
            env_ad = interp.ctx.ghost["ENV"].lookup("arg_dict")
            interp.ctx.ghost["DOM0"] = env_ad.dom
        return orig_fs(interp, it, node)

    p.for_sequence = for_sequence
    p.spec_funcs["ignored_prefix"] = lambda interp, d, upto: ignored_prefix(interp, d, interp.ctx.ghost["DOM0"], upto)

    def full_setup(interp, env):
        post_setup(interp, env)
        interp.ctx.ghost["ENV"] = env

    L1 = Loop(
        "for param in arg_sig.parameters.values()",
        invariant={
            "names": "names_are(arg_names, _i)",
            "posonly": "members_are(arg_posonlyargs, _i, 0)",
            "kwonly": "members_are(arg_kwonlyargs, _i, 3)",
            "defaults": "defaults_are(arg_defaults, _i)",
            "varargs": "(arg_varargs is not None) == seen_varpos(_i)",
            "varkw": "(arg_varkw is not None) == seen_varkw(_i)",
        },
        kinds={"arg_names": ListOf(Name), "arg_posonlyargs": MemberListKind(), "arg_kwonlyargs": MemberListKind(), "arg_defaults": DictOf(Name, Val),
               "arg_varargs": Opt(Name), "arg_varkw": Opt(Name)},
    )
    def cur_param(interp, nm, pos):
        """the name at position `pos` of arg_names is the parameter SIG[j], j = pos (positional block) or KLO + pos - NP"""
        sig = interp.ctx.ghost["SIG"]
        t, q = to_term(nm), ops.as_int_term(pos)
        NP, KLO, KHI = G(interp, "NP"), G(interp, "KLO"), G(interp, "KHI")
        j = z3.If(q < NP, q, KLO + q - NP)
        return ops.mk_bool(z3.And(0 <= j, j < sig.length, t == P_NAME(z3.Select(sig.arr, j)), IDX(t) == j,
                                  (P_KIND(z3.Select(sig.arr, j)) <= 1) == (q < NP), (P_KIND(z3.Select(sig.arr, j)) == 3) == (q >= NP),
                                  named(interp, nm), posn(interp, nm) == q))

    def pos_unique(interp, nm, pos):
        k = z3.Const("k!pu", Name.sort())
        ks = Sym(Name, k)
        return ops.mk_bool(z3.ForAll([k], z3.Implies(z3.And(named(interp, ks), posn(interp, ks) == ops.as_int_term(pos)), k == to_term(nm))))

    p.spec_funcs["cur_param"] = cur_param
    p.spec_funcs["pos_unique"] = pos_unique
    L2 = Loop(
        "for (arg_position, arg_name) in enumerate(arg_names)",
        invariant={"bound_so_far": "dict_is(arg_dict, _i, 'bind')"},
        kinds={"arg_dict": ArgDictKind()},
        lemmas={"current_name_is_a_parameter": "cur_param(arg_name, arg_position)", "one_name_per_position": "pos_unique(arg_name, arg_position)",
                "n_positional": "len(arg_names) - len(arg_kwonlyargs) == NP"},
    )
    L3 = Loop(
        "for (arg_name, arg_value) in sorted(kwargs.items())",
        invariant={"named_entries_unchanged": "dict_is(arg_dict, len(arg_names), 'bind')", "surplus_keywords_collected": "varkw_is(varkwargs, _i)"},
        kinds={"arg_dict": ArgDictKind(), "varkwargs": DictOf(Name, Val)},
    )
    L4 = Loop(
        "for item in ignore_lst",
        invariant={"removed_exactly_the_prefix": "ignored_prefix(arg_dict, _i)", "values_untouched": "same_values(arg_dict)", "specials": "star_ok(arg_dict) and dstar_ok(arg_dict)"},
        kinds={"arg_dict": ArgDictKind()},
    )
    p.spec_funcs["same_values"] = lambda interp, d: ops.mk_bool(z3.ForAll([z3.Const("k!sv", Name.sort())], z3.Implies(
        named(interp, Sym(Name, z3.Const("k!sv", Name.sort()))), z3.Select(d.arr, z3.Const("k!sv", Name.sort())) == pybind(interp, Sym(Name, z3.Const("k!sv", Name.sort()))))))

    p.add(Contract(
        FI, "filter_args", props=["C07", "C02", "C06"], ghost=GH, globals=glob, setup=full_setup,
        params=dict(func=OpaqueOf("userfunc"), ignore_lst=ListOf(Name), args=ListOf(Val), kwargs=DictOf(Name, Val)),
        requires=["accepts()", "ignore_known()"],
        ensures={
            "every_parameter_bound_as_python_does_minus_the_ignore_list": "result_ok(result)",
            "surplus_positionals_under_star": "star_ok(result)",
            "surplus_keywords_under_double_star": "dstar_ok(result)",
        },
        # every call that Python accepts is accepted: NO exception may escape under `accepts`
        loops={1: L1, 2: L2, 3: L3, 4: L4},
    ))
    p.add(Contract(
        FI, "filter_args", variant="bound-method", props=["C07", "C02", "C06"], ghost=dict(GH, METHOD=True), globals=glob, setup=full_setup,
        params=dict(func=OpaqueOf("userfunc"), ignore_lst=ListOf(Name), args=ListOf(Val), kwargs=DictOf(Name, Val)),
        requires=["accepts()", "ignore_known()"],
        ensures={
            "every_parameter_bound_as_python_does_minus_the_ignore_list": "result_ok(result)",
            "surplus_positionals_under_star": "star_ok(result)",
            "surplus_keywords_under_double_star": "dstar_ok(result)",
        },
        loops={1: L1, 2: L2, 3: L3, 4: L4},
    ))
    p.add(Contract(
        FI, "filter_args", variant="bound-method-without-self-parameter", props=["C07", "C02", "C06"], ghost=dict(GH, METHOD="noself"), globals=glob, setup=full_setup,
        params=dict(func=OpaqueOf("userfunc"), ignore_lst=ListOf(Name), args=ListOf(Val), kwargs=DictOf(Name, Val)),
        requires=["accepts()", "ignore_known()"],
        ensures={
            "every_parameter_bound_as_python_does_minus_the_ignore_list": "result_ok(result)",
            "surplus_positionals_under_star": "star_ok(result)",
            "surplus_keywords_under_double_star": "dstar_ok(result)",
        },
        loops={1: L1, 2: L2, 3: L3, 4: L4},
    ))
    return p
