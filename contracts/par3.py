"""Dispatcher pack, part 3 (C01, C04, C16): retrieval side - _retrieve, _raise_error_fast, _get_outputs,
_get_sequential_output, _terminate_and_reset, __enter__/__exit__.

Ghost model: trackers are references TRef with immutable segment T_LO/T_HI (the slice of the input their batch
carries) and a status that other threads may move from pending to a final value at any time.  In ordered mode the
retrieval invariant is:  Parallel._jobs tiles [NY, JHI)  where NY = number of results yielded so far - trackers are
appended by dispatching threads at the tail only (consecutive segments), and only this thread pops the head.
Backend contract (assumed): get_result of a finished tracker returns [Run(input[lo]), ..., Run(input[hi-1])] in
order, or raises the exception object registered for it.
"""
import z3

from pyvc import ops
from pyvc.contracts import Contract, Loop
from pyvc.interp import BUILTIN_EXC, PyRaise
from pyvc.pack import Pack
from pyvc.values import (
    BOOL, INT, REAL, STR, Atom, ClassRef, Kind, ObjOf, OneOf, Opaque, OpaqueOf, Opt, PyDict, PyList, Rec, SExc, SObj, Sym,
    Unsupported, kind_of, to_term,
)

from .common import install_common

PAR = "joblib/parallel.py"
TRef = Atom("TRef")
T_LO = z3.Function("T_LO", TRef.sort(), z3.IntSort())
T_HI = z3.Function("T_HI", TRef.sort(), z3.IntSort())
Res = Atom("Result")
Run = z3.Function("Run", z3.IntSort(), Res.sort())


def _Fn(fn):
    return Opaque("fn", None, fn=fn)


class SDeque:
    pyvc_methods = True

    def __init__(self, arr, head, tail):
        self.arr, self.head, self.tail = arr, head, tail

    def pyvc_len(self, interp):
        interp.ctx.ghost["LAST_LEN"] = self.tail - self.head
        return Sym(INT, self.tail - self.head)


class DequeKind(Kind):
    name = "Deque[TRef]"

    def fresh(self, ctx, hint="jobs"):
        n = ctx.fresh_name(hint)
        d = SDeque(z3.Const(n, z3.ArraySort(z3.IntSort(), TRef.sort())), z3.Int(n + ".head"), z3.Int(n + ".tail"))
        ctx.assume(d.head <= d.tail)
        return d


def jtiles(d, lo, hi):
    k, j = z3.Int("k!jt"), z3.Int("j!jt")
    sel = lambda i: z3.Select(d.arr, i)
    return z3.And(
        d.head <= d.tail,
        z3.Implies(d.head == d.tail, lo == hi),
        z3.Implies(d.head < d.tail, z3.And(T_LO(sel(d.head)) == lo, T_HI(sel(d.tail - 1)) == hi)),
        z3.ForAll([k], z3.Implies(z3.And(d.head <= k, k < d.tail), z3.And(T_LO(sel(k)) < T_HI(sel(k)), lo <= T_LO(sel(k)), T_HI(sel(k)) <= hi))),
        z3.ForAll([k], z3.Implies(z3.And(d.head <= k, k < d.tail - 1), T_HI(sel(k)) == T_LO(sel(k + 1)))),
        z3.ForAll([k, j], z3.Implies(z3.And(d.head <= j, j < k, k < d.tail), T_HI(sel(j)) <= T_LO(sel(k)))),
    )


def build():
    p = Pack("PAR3", files=[PAR, "joblib/_parallel_backends.py"])
    install_common(p)
    p.models["fn.__call__"] = lambda interp, fv, args, kwargs: fv.attrs["fn"](interp, args, kwargs)
    p.spec_funcs["n_events"] = lambda interp, name: sum(1 for e in interp.ctx.events if e[0] == name)
    p.spec_funcs["ev_named"] = lambda interp, name: PyList([e for e in interp.ctx.events if e[0] == name])
    p.log_calls.update({"self._print", "self.print_progress", "warnings.warn"})

    def held(interp, what):
        interp.ctx.check("%s/guarded-by._lock.%s" % (interp.contract.qualname, what), interp.ctx.lock_depth.get("plock", 0) > 0, detail="%s only with Parallel._lock held" % what)

    def lock_enter(interp, cm):
        d = interp.ctx.lock_depth
        d["plock"] = d.get("plock", 0) + 1
        return cm

    def lock_exit(interp, cm, e):
        interp.ctx.lock_depth["plock"] -= 1
        return False

    p.models["enter:plock"] = lock_enter
    p.models["exit:plock"] = lock_exit
    p.spec_funcs["lock_depth"] = lambda interp: interp.ctx.lock_depth.get("plock", 0)

    # ---- deque of trackers
    def dq_method(interp, recv, name, args, kwargs):
        ctx = interp.ctx
        if name == "popleft":
            held(interp, "_jobs.popleft")
            if ctx.branch(recv.head == recv.tail, "jobs:empty"):
                interp.raise_("IndexError")
            t = Sym(TRef, z3.Select(recv.arr, recv.head))
            recv.head = recv.head + 1
            ctx.events.append(("popleft", t))
            return t
        if name == "pop":
            held(interp, "_jobs.pop")
            if ctx.branch(recv.head == recv.tail, "jobs:empty"):
                interp.raise_("IndexError")
            recv.tail = recv.tail - 1
            t = Sym(TRef, z3.Select(recv.arr, recv.tail))
            ctx.events.append(("popleft", t))
            return t
        raise Unsupported("deque." + name)

    orig_cm = p.container_method

    def cm(interp, recv, name, args, kwargs, node):
        if isinstance(recv, SDeque):
            return dq_method(interp, recv, name, args, kwargs)
        return orig_cm(interp, recv, name, args, kwargs, node)

    p.container_method = cm

    def dq_getitem(interp, recv, idx):
        if interp.ctx.branch(recv.head == recv.tail, "jobs:empty"):
            interp.raise_("IndexError")
        if idx != 0:
            raise Unsupported("_jobs[%r]" % (idx,))
        return Sym(TRef, z3.Select(recv.arr, recv.head))

    SDeque.tag = "sdeque"
    p.models["getitem:sdeque"] = dq_getitem

    # ---- tracker methods seen from the retrieval loop (summaries of the part-1 contracts + backend contract)
    def t_get_status(interp, recv, args, kwargs):
        ctx = interp.ctx
        ctx.events.append(("get_status", recv))
        if "CLOCK" in ctx.ghost and isinstance(recv, Sym):
            # (part 1: get_status(timeout) starts the tracker's completion clock if it is not running, and compares with it)
            ctx.ghost["CLOCK"] = Sym(ctx.ghost["CLOCK"].kind, z3.Store(ctx.ghost["CLOCK"].term, recv.term, True))
        k = ctx.choose(3, "head-status")
        st = ("Pending", "Done", "Error")[k]
        ctx.ghost["STATUS:%s" % recv.term] = st
        return st

    def t_get_result(interp, recv, args, kwargs):
        ctx = interp.ctx
        ctx.events.append(("get_result", recv))
        st = ctx.ghost.get("STATUS:%s" % recv.term)
        if st is None:
            st = ("Done", "Error")[ctx.choose(2, "result-status")]
        if st == "Pending":
            raise Unsupported("get_result of a pending tracker")
        if st == "Error":
            e = SExc(BUILTIN_EXC["ValueError"], ())
            ctx.ghost["TASK_EXC"] = e
            raise PyRaise(e)
        lo, hi = T_LO(recv.term), T_HI(recv.term)
        return Opaque("results", None, seq=(hi - lo, lambda i: Sym(Res, Run(lo + i))), of=recv)

    p.models["TRef.get_status"] = t_get_status
    p.models["TRef.get_result"] = t_get_result
    p.models["getattr:TRef.status"] = lambda interp, v: ("Pending", "Done", "Error")[interp.ctx.choose(3, "status-read")]
    p.assume_note("tracker summaries: get_status returns Pending/Done/Error (a timeout registers Error: part 1); get_result of a finished tracker returns "
                  "[Run(input[lo]) .. Run(input[hi-1])] in order or raises the registered exception object (backend contract + part 1)")

    # ---- yields: every value handed to the consumer is the next one of the sequential result
    def on_yield(interp, v):
        ctx = interp.ctx
        g = ctx.ghost
        if v is None:
            return  # the internal priming yield
        ny = ops.as_int_term(g["NY"])
        if g.get("ORDERED", True):
            ctx.check("%s/yield.next-sequential-result" % interp.contract.qualname, to_term(v) == Run(ny),
                      detail="the n-th value yielded is f(*a, **k) of the n-th task (ordered mode)")
        else:
            ctx.check("%s/yield.next-result-of-the-delivered-batch" % interp.contract.qualname, to_term(v) == Run(ny),
                      detail="the values of a delivered batch are its tasks' results in item order, each once (unordered mode)")
        since = g.get("ITER_START", 0)
        ctx.check("%s/yield.prompt-no-blocking-call-before-a-ready-result" % interp.contract.qualname,
                  not any(e[0] == "sleep" for e in ctx.events[since:]), detail="no sleep between noticing that the head job is finished and yielding its results")
        g["NY"] = Sym(INT, ny + 1)

    p.on_yield = on_yield

    MAX_POLL_S = 0.05

    # promptness, second half: the retrieval thread never goes to sleep while the result it has to deliver next is ready
    def sleep(interp, args, kwargs):
        ctx = interp.ctx
        ctx.events.append(("sleep",))
        ll = ctx.ghost.get("LAST_LEN")
        if ll is None or not getattr(interp.contract, "generator", False):
            return None
        if ctx.ghost.get("ORDERED", True):
            me = ctx.ghost["SELF"]
            head = z3.Select(me.fields["_jobs"].arr, me.fields["_jobs"].head)
            ok = z3.Or(ll == 0, ctx.ghost.get("STATUS:%s" % head) == "Pending")
        else:
            ok = ll == 0
        ctx.check("%s/sleep.only-when-nothing-is-ready" % interp.contract.qualname, ok,
                  detail="time.sleep in the retrieval loop only when no job is queued (or, ordered, the head job is still pending)")
        # ... and a result that becomes ready during a sleep waits for the end of it: "as soon as" tolerates a polling interval, not one that grows
        # with the waiting time (seeded change C16-retrieval-poll-backoff-not-reset: 10 ms doubling up to 1.28 s)
        d = args[0] if args else None
        if isinstance(d, (int, float)) and not isinstance(d, bool):
            short = d <= MAX_POLL_S
        elif kind_of(d) in (INT, REAL):
            short = ops.as_num_term(d) <= z3.RealVal(str(MAX_POLL_S))
        else:
            short = False
        ctx.check("%s/sleep.poll-interval-is-short" % interp.contract.qualname, short,
                  detail="each sleep of the retrieval loop lasts at most %.2f s" % MAX_POLL_S)
        return None

    p.models["time.sleep"] = sleep

    def parallel(**over):
        f = dict(_lock=OpaqueOf("plock"), _aborting=BOOL, _exception=BOOL, _jobs=DequeKind(), _jobs_set=OpaqueOf("jobsset"), return_ordered=True, timeout=Opt(REAL),
                 _nb_consumed=INT, n_completed_tasks=INT, n_dispatched_tasks=INT, _iterating=BOOL, _backend=OpaqueOf("backend", supports_retrieve_callback=BOOL),
                 _running=True, _managed_backend=BOOL, _calling=BOOL, return_generator=BOOL, verbose=0)
        f.update(over)
        return ObjOf("Parallel", **f)

    # ERRQ (ghost): a failed job (a task error, or the failure of the input iterable registered by dispatch_one_batch) sits in the queue.
    # Registering a failure sets _aborting (BatchCompletionCallBack._register_outcome, part 1).
    GH = dict(NY=INT, JHI=INT, ERRQ=BOOL)

    def setup(interp, env):
        ctx = interp.ctx
        me = env.lookup("self")
        ctx.ghost["SELF"] = me
        ctx.assume(ops.as_int_term(ctx.ghost["NY"]) >= 0)

    p.spec_funcs["jobs_tile"] = lambda interp, me, lo, hi: ops.mk_bool(jtiles(me.fields["_jobs"], ops.as_int_term(lo), ops.as_int_term(hi)))
    p.models["Parallel._wait_retrieval"] = lambda i, r, a, k: BOOL.fresh(i.ctx, "wait")

    def raise_error_fast(interp, recv, args, kwargs):
        """contract of _raise_error_fast (part 4): raises the exception of the first failed job still queued, returns when there is none"""
        interp.ctx.events.append(("_raise_error_fast",))
        errq = interp.ctx.ghost.get("ERRQ")
        found = interp.ctx.choose(2, "error-job-found") == 1 if errq is None else interp.ctx.branch(ops.truth(errq), "error-job-queued")
        if found:
            e = SExc(BUILTIN_EXC["ValueError"], ())
            interp.ctx.ghost["TASK_EXC"] = e
            raise PyRaise(e)
        return None

    p.models["Parallel._raise_error_fast"] = raise_error_fast

    def mark_iter(interp, env):
        interp.ctx.ghost["ITER_START"] = len(interp.ctx.events)

    retrieve = Contract(
        PAR, "Parallel._retrieve", variant="ordered", props=["C01", "C16", "C04"], ghost=GH, setup=setup, generator=True,
        params=dict(self=parallel()),
        requires=["jobs_tile(self, NY, JHI)", "lock_depth() == 0", "implies(ERRQ, self._aborting)"],
        ensures={"lock_released": "lock_depth() == 0", "queued_jobs_continue_the_output": "jobs_tile(self, NY, JHI)",
                 # C04: a registered failure is never swallowed - the retrieval cannot end normally while a failed job is queued
                 "a_queued_failure_is_raised_not_dropped": "not ERRQ"},
        exsures={"ValueError": {"the_tasks_own_exception": "same_exc(exc)"}},
        loops={
            1: Loop("while self._wait_retrieval()",
                    invariant={"jobs_continue_the_output": "jobs_tile(self, NY, JHI)", "lock_free": "lock_depth() == 0", "ny": "NY >= 0"},
                    kinds={"batched_results": TRef, "timeout_control_job": Opt(TRef)},
                    havoc=["ghost:NY", "ghost:JHI"]),
            2: Loop("for result in batched_results",
                    invariant={"yields_in_item_order": "NY == lo_of(popped()) + _i", "consumed": "self._nb_consumed >= 0 or True",
                               "rest_of_jobs": "jobs_tile(self, hi_of(popped()), JHI)"},
                    havoc=["ghost:NY"]),
        },
    )
    p.add(retrieve)
    p.spec_funcs["same_exc"] = lambda interp, e: e is interp.ctx.ghost.get("TASK_EXC")
    p.spec_funcs["popped"] = lambda interp: [e for e in interp.ctx.events if e[0] == "popleft"][-1][1]
    p.spec_funcs["lo_of"] = lambda interp, t: Sym(INT, T_LO(t.term))
    p.spec_funcs["hi_of"] = lambda interp, t: Sym(INT, T_HI(t.term))

    # ---- unordered mode: Parallel._jobs holds finished trackers in completion order (appended by _register_outcome exactly
    # once each, part 1); the retrieval thread pops the head.  Ghost: DELIVERED, the set of trackers whose results were
    # handed to the consumer.  Invariant: the queued trackers are pairwise distinct and none is delivered yet; hence each
    # batch is delivered exactly once, in queue (= completion) order.
    class ArrK(Atom):
        def __init__(self, name, srt):
            self.name, self._sort = name, srt

        def sort(self):
            return self._sort

    DSET = ArrK("TRefSet", z3.ArraySort(TRef.sort(), z3.BoolSort()))

    def jfresh(d, delivered):
        k, j = z3.Int("k!jf"), z3.Int("j!jf")
        sel = lambda i: z3.Select(d.arr, i)
        return z3.And(
            d.head <= d.tail,
            z3.ForAll([k], z3.Implies(z3.And(d.head <= k, k < d.tail), z3.And(z3.Not(z3.Select(delivered, sel(k))), T_LO(sel(k)) < T_HI(sel(k))))),
            z3.ForAll([k, j], z3.Implies(z3.And(d.head <= j, j < k, k < d.tail), sel(j) != sel(k))),
        )

    p.spec_funcs["jobs_fresh"] = lambda interp, me: ops.mk_bool(jfresh(me.fields["_jobs"], interp.ctx.ghost["DELIVERED"].term))
    p.spec_funcs["delivered"] = lambda interp, t: ops.mk_bool(z3.Select(interp.ctx.ghost["DELIVERED"].term, t.term))

    def dq_method_u(interp, recv, name, args, kwargs):
        ctx = interp.ctx
        t = dq_method(interp, recv, name, args, kwargs)
        if name in ("popleft", "pop") and "DELIVERED" in ctx.ghost:
            ctx.check("%s/unordered.popped-batch-not-delivered-before" % interp.contract.qualname, z3.Not(z3.Select(ctx.ghost["DELIVERED"].term, t.term)),
                      detail="each finished batch is delivered exactly once")
            ctx.check("%s/unordered.pops-the-oldest-finished-batch" % interp.contract.qualname, name == "popleft",
                      detail="results are delivered in completion order: the head of the completed-jobs queue")
            ctx.ghost["DELIVERED"] = Sym(DSET, z3.Store(ctx.ghost["DELIVERED"].term, t.term, True))
            ctx.ghost["NY"] = Sym(INT, T_LO(t.term))
            ctx.ghost["STATUS:%s" % t.term] = ("Done", "Error")[ctx.choose(2, "finished-as")]
        return t

    def cm_u(interp, recv, name, args, kwargs, node):
        if isinstance(recv, SDeque):
            return dq_method_u(interp, recv, name, args, kwargs)
        return orig_cm(interp, recv, name, args, kwargs, node)

    p.container_method = cm_u

    def jobsset_remove(interp, recv, args, kwargs):
        held(interp, "_jobs_set.remove")
        interp.ctx.events.append(("jobs_set.remove", args[0]))
        return None

    p.models["jobsset.remove"] = jobsset_remove
    def jobsset_iter(interp, recv, args, kwargs):
        # completion callbacks add to this set (under Parallel._lock: part 1); iterating a set while another thread changes its size raises
        # RuntimeError('Set changed size during iteration'), so the reader needs the same lock
        held(interp, "_jobs_set.__iter__")
        return Opaque("jobsset_iter", None)

    p.models["jobsset.__iter__"] = jobsset_iter
    def jobsset_next(interp, it, args, kwargs):
        if not args:
            raise Unsupported("next() without default on the set of dispatched jobs")
        # some member of _jobs_set: a dispatched job whose results have not been retrieved (a job leaves the set exactly when it is popped
        # from the completed-jobs queue: obligation jobs_set.remove below), or the default when the set is empty
        t = Opt(TRef).fresh(interp.ctx, "control_job")
        if t is not None:
            interp.ctx.assume(z3.Not(z3.Select(interp.ctx.ghost["DELIVERED"].term, t.term)))
        return t

    p.models["jobsset_iter.__next__"] = jobsset_next
    def reset_clock(interp, obj, attr, v):
        ctx = interp.ctx
        ctx.events.append(("reset-timeout-counter", obj))
        if "CLOCK" in ctx.ghost and v is None and isinstance(obj, Sym):
            ctx.ghost["CLOCK"] = Sym(DSET, z3.Store(ctx.ghost["CLOCK"].term, obj.term, False))

    p.write_hooks[("TRef", "_completion_timeout_counter")] = reset_clock

    # C04 / C16 (timeout in completion order): the clock of a job runs only while that job is the timeout control.  A job dropped as control
    # with its clock still running, and picked again later, would carry the time stamp of its FIRST pick: TimeoutError although a new
    # result arrived every few milliseconds (seeded change C16-control-job-clock-not-reset)
    def only_control_clock(interp, control):
        g = interp.ctx.ghost
        t = z3.Const("t!clk", TRef.sort())
        if control is None:
            return ops.mk_bool(z3.ForAll([t], z3.Not(z3.Select(g["CLOCK"].term, t))))
        return ops.mk_bool(z3.ForAll([t], z3.Implies(z3.Select(g["CLOCK"].term, t), t == control.term)))

    p.spec_funcs["only_the_control_jobs_clock_runs"] = only_control_clock

    GHU = dict(NY=INT, DELIVERED=DSET, ERRQ=BOOL, CLOCK=DSET)

    def setup_u(interp, env):
        setup(interp, env)
        interp.ctx.ghost["ORDERED"] = False
        interp.ctx.ghost["CLOCK"] = Sym(DSET, z3.K(TRef.sort(), z3.BoolVal(False)))   # no clock runs when retrieval starts

    p.add(Contract(
        PAR, "Parallel._retrieve", variant="unordered", props=["C16", "C01", "C04"], ghost=GHU, setup=setup_u, generator=True,
        params=dict(self=parallel(return_ordered=False)),
        requires=["jobs_fresh(self)", "lock_depth() == 0", "implies(ERRQ, self._aborting)"],
        ensures={"lock_released": "lock_depth() == 0", "queued_jobs_still_undelivered": "jobs_fresh(self)", "a_queued_failure_is_raised_not_dropped": "not ERRQ"},
        exsures={"ValueError": {"the_tasks_own_exception": "same_exc(exc)"}},
        loops={
            1: Loop("while self._wait_retrieval()",
                    invariant={"queued_jobs_undelivered_and_distinct": "jobs_fresh(self)", "lock_free": "lock_depth() == 0",
                               # C04 (timeout in completion order): while nothing is ready the clock that is consulted must belong to a job the
                               # caller is still waiting for - never to one whose results were already handed over (it would never expire)
                               "the_timeout_clock_watches_a_job_still_waited_for": "timeout_control_job is None or not delivered(timeout_control_job)",
                               "a_job_picked_as_control_starts_with_a_fresh_clock": "only_the_control_jobs_clock_runs(timeout_control_job)"},
                    kinds={"batched_results": TRef, "timeout_control_job": Opt(TRef)},
                    havoc=["ghost:NY", "ghost:CLOCK"]),
            2: Loop("for result in batched_results",
                    invariant={"yields_in_item_order": "NY == lo_of(popped()) + _i", "rest_of_jobs": "jobs_fresh(self)", "batch_marked_delivered": "delivered(popped())",
                               "the_timeout_clock_watches_a_job_still_waited_for": "timeout_control_job is None or not delivered(timeout_control_job)",
                               "a_job_picked_as_control_starts_with_a_fresh_clock": "only_the_control_jobs_clock_runs(timeout_control_job)"},
                    havoc=["ghost:NY"]),
        },
    ))

    # loop-head hook: remember where the iteration starts (for the promptness obligation) and let other threads append
    orig_havoc = None

    def loop_hook(pack):
        from pyvc.interp import Interp
        orig = Interp.havoc_loop

        def havoc_loop(self, node, env, lc):
            orig(self, node, env, lc)
            if self.pack is pack and lc.header.startswith("while self._wait_retrieval"):
                self.ctx.ghost["ITER_START"] = len(self.ctx.events)
        Interp.havoc_loop = havoc_loop

    loop_hook(p)
    return p
