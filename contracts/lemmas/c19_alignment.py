"""Agreement lemma of C19 (pure integer arithmetic, the formulas are those of write_array / read_array / read_mmap):
the writer at position p stores pad = 16 - ((p + 1) % 16) in one byte followed by `pad` filler bytes; the reader at
position p reads that byte and skips as many bytes.  Both data offsets coincide and are 16-byte aligned."""


def writer_reader_offsets_agree(p):
    # writer (NumpyArrayWrapper.write_array)
    pos_after_padding_byte = p + 1
    padding_length = 16 - (pos_after_padding_byte % 16)
    writer_data_start = p + 1 + padding_length
    # reader (read_array / read_mmap): the byte it finds is the one the writer stored
    stored_byte = padding_length
    reader_data_start = p + 1 + stored_byte
    return writer_data_start, reader_data_start, padding_length
