"""Client program for C17 (temp_folder): two process-based calls in one process, each naming the folder for its temporary files.

The REAL MemmappingExecutor.get_memmapping_executor is inlined twice; loky's reusable executor is summarised (it hands the previous
executor back exactly when told `reuse=True` and one exists)."""


def two_calls(n_jobs, folder1, folder2, ctx1, ctx2):
    e1 = get_memmapping_executor(n_jobs, temp_folder=folder1, context_id=ctx1)
    e2 = get_memmapping_executor(n_jobs, temp_folder=folder2, context_id=ctx2)
    return e1, e2
