"""Relational (two-run) clients for C08: the REAL Hasher methods are inlined; the two runs get inputs that are
equal as abstract values (same multiset of items / elements) but arbitrarily ordered, hashed by interpreters with
different string-hash seeds, and the token sequences handed to the base pickler are compared."""


def batch_setitems_two_runs(h1, h2, items_a, items_b):
    h1._batch_setitems(items_a)
    h2._batch_setitems(items_b)


def consistent_set_two_runs(seq_a, seq_b):
    a = _ConsistentSet(seq_a)
    b = _ConsistentSet(seq_b)
    return a._sequence, b._sequence


def save_set_two_runs(h1, h2, set_a, set_b):
    h1.save_set(set_a)
    h2.save_set(set_b)
