"""Composition lemma of C16 (abandoning the generator): closing or dropping the output generator before exhaustion stops dispatch,
tears the run down and leaves the object reusable, and nothing of the abandoned run leaks into the next one.

Hypotheses = contract clauses (all must be generated and discharged in the same run):
  H1  GeneratorExit at a yield of _get_outputs: the abort flag is raised BEFORE the tear-down, and the quiescent state (not running, no jobs) holds on exit
  H2  once the abort flag is up, dispatch_one_batch pulls nothing from the input and submits nothing
  H3  the next __call__ on a quiescent object is accepted, gets a fresh call id and an empty look-ahead queue
  H4  a completion callback of the abandoned call (other call id) changes neither its tracker nor the counters of the new call
Statement: after the close,  no item is pulled / no batch submitted for the old call,  and the next call starts from a state that contains
nothing of the old one (no jobs, no look-ahead batch, counters only moved by its own callbacks).
"""
import z3

NAME = "lemma.C16.an-abandoned-run-stops-and-leaves-nothing-behind"


def build():
    closed, aborting, torn_down, quiescent, pulled_after, submitted_after, next_accepted, fresh_id, empty_queue, stale_cb_effect, leak = z3.Bools(
        "L.closed L._aborting L.torn_down L.quiescent L.pulled_after_close L.submitted_after_close L.next_call_accepted L.fresh_call_id L.empty_lookahead L.stale_callback_effect L.leak")
    hyps, uses = {}, {}

    def hyp(name, formula, *obligations):
        hyps[name] = formula
        uses[name] = list(obligations)

    hyp("close-raises-the-abort-flag-then-tears-down-to-the-quiescent-state", z3.Implies(closed, z3.And(aborting, torn_down, quiescent)),
        "Parallel._get_outputs/raise.GeneratorExit.dispatch_stopped_first", "Parallel._get_outputs/raise.GeneratorExit.quiescent", "Parallel._get_outputs/raise.GeneratorExit.flagged")
    hyp("no-dispatch-while-aborting", z3.Implies(aborting, z3.And(z3.Not(pulled_after), z3.Not(submitted_after))),
        "Parallel.dispatch_one_batch/post.abort_is_consulted_before_slicing", "Parallel._dispatch/post.nothing_while_aborting")
    hyp("a-quiescent-object-accepts-the-next-call-with-a-fresh-id-and-an-empty-queue", z3.Implies(quiescent, z3.And(next_accepted, fresh_id, empty_queue)),
        "Parallel.__call__/post.run_tracking_reset_first", "Parallel.__call__/post.fresh_call_id_and_empty_lookahead_queue", "Parallel._reset_run_tracking/post.flag_set_under_lock" if False else "Parallel.__call__/post.generator_is_primed_once")
    hyp("stale-callbacks-are-ignored", z3.Implies(fresh_id, z3.Not(stale_cb_effect)),
        "BatchCompletionCallBack.__call__/post.stale_callback_of_an_earlier_call_does_nothing")
    hyp("what-a-leak-would-be", leak == z3.Or(pulled_after, submitted_after, z3.Not(quiescent), z3.Not(empty_queue), stale_cb_effect, z3.Not(next_accepted)))
    conclusion = z3.Implies(closed, z3.Not(leak))
    return dict(name=NAME, hypotheses=hyps, uses=uses, conclusion=conclusion,
                text="the consumer closed the generator  ==>  nothing more is pulled or submitted, the object is quiescent and the next call is accepted and shares nothing with the old one")


def prove(lemma, rlimit=4000000):
    s = z3.Solver()
    s.set("rlimit", rlimit)
    for f in lemma["hypotheses"].values():
        s.add(f)
    can = s.check()
    if can != z3.sat:
        return ("unknown" if can == z3.unknown else "vacuous"), "hypotheses are %s" % can
    s.add(z3.Not(lemma["conclusion"]))
    r = s.check()
    if r == z3.unsat:
        return "discharged", ""
    if r == z3.sat:
        m = s.model()
        return "failed", ", ".join("%s=%s" % (d.name(), m[d]) for d in m.decls() if d.arity() == 0)
    return "unknown", s.reason_unknown()
