"""Client program for the LIFO lemma of C17: verified against the CONTRACTS of parallel_config (modular calls).

It is the desugaring of two nested `with parallel_config(...)` blocks with arbitrary settings; the inner and the
outer constructor may each raise.  Depth n follows by induction from the same two facts (the constructor saves the
current config and installs the new one or leaves everything untouched; unregister restores what was saved).
"""


def lifo_two_levels(b1, n1, v1, t1, m1, mm1, p1, r1, b2, n2, v2, t2, m2, mm2, p2, r2):
    a = parallel_config(b1, n_jobs=n1, verbose=v1, temp_folder=t1, max_nbytes=m1, mmap_mode=mm1, prefer=p1, require=r1)
    try:
        b = parallel_config(b2, n_jobs=n2, verbose=v2, temp_folder=t2, max_nbytes=m2, mmap_mode=mm2, prefer=p2, require=r2)
        try:
            pass
        finally:
            b.unregister()
        _inner_block_left(a)  # ghost: the settings of the outer block are back
    finally:
        a.unregister()
