"""Composition lemma of C01 (and the delivery half of C16): the per-function contracts of the dispatcher, put together.

Every hypothesis below is a clause that a contract in parts 1-4 establishes; `uses` names the obligations that
discharge it, and the check refuses the lemma (UNDECIDED) unless each of them was generated and discharged in the same
run - so a link cannot silently disappear.  The formulas are built by the same functions the contracts use
(li_formulas / tiles of part 2, jtiles of part 3); nothing is restated by hand except the three scalar links.

Statement (a run in which no task failed, nothing was aborted and the consumer did not close the generator):
when the retrieval loop stops (_wait_retrieval returned False) and the tail loop of _get_outputs has drained what was
still queued, the number of results handed to the consumer equals the length of the input.  Together with the yield
obligations (each value yielded is Run(NY), NY counting from 0: part 3 / part 4) the output is exactly
[f(*a, **k) for f, a, k in tasks], in order, each once.

What the lemma does NOT do: re-prove the monitor rule (facts protected by Parallel._lock are read here as one
consistent snapshot) or the stability of DONE between critical sections beyond the lock-invariant part that states it.
"""
import z3

from .. import par2, par3

NAME = "lemma.C01.everything-dispatched-is-delivered"


def build():
    q = par2.SQueue(z3.Const("L.queue", z3.ArraySort(z3.IntSort(), par2.Batch.sort())), z3.Int("L.queue.head"), z3.Int("L.queue.tail"))
    jobs = par3.SDeque(z3.Const("L.jobs", z3.ArraySort(z3.IntSort(), par3.TRef.sort())), z3.Int("L.jobs.head"), z3.Int("L.jobs.tail"))
    n, taken, qlo, nd, nc, nb, bs, nj = z3.Ints("L.INPUTLEN L.TAKEN L.QLO L.n_dispatched_tasks L.n_completed_tasks L.n_dispatched_batches L.batch_size L.n_jobs")
    ny, jhi, ny_final = z3.Ints("L.NY L.JHI L.NY_final")
    iterating, done, dropped, aborting, exception = z3.Bools("L._iterating L.DONE L.DROPPED L._aborting L._exception")
    li = par2.li_formulas(q=q, qlo=qlo, taken=taken, n=n, dropped=dropped, ab=aborting, nd=nd, bs=bs, nj=nj, nb=nb, done=done)
    hyps = {}
    uses = {}

    def hyp(name, formula, *obligations):
        hyps[name] = formula
        uses[name] = list(obligations)

    for part, f in li.items():
        hyp("LI." + part, f, "Parallel.dispatch_one_batch/lock-release.LI." + part)
    hyp("no-abort-in-this-run", z3.And(z3.Not(aborting), z3.Not(exception), z3.Not(dropped)))
    hyp("retrieval-loop-has-stopped", z3.And(z3.Not(iterating), nc >= nd),
        "Parallel._wait_retrieval/post.stops_only_when_everything_dispatched_is_complete")
    hyp("not-iterating-means-the-input-is-done", z3.Implies(z3.Not(iterating), z3.Or(done, aborting)),
        "Parallel._start/post.no_task_is_left_behind", "Parallel.dispatch_next/post.stops_iterating_only_when_the_input_is_done_or_aborting",
        "Parallel.dispatch_one_batch/post.false_on_the_input_itself_means_done",
        "Parallel.__call__/call._get_outputs.pre.pre_dispatch-amount-at-least-one", "Parallel._get_outputs/call._start.pre.calling-thread-slice-is-not-empty-by-construction")
    hyp("queued-jobs-continue-the-output", par3.jtiles(jobs, ny, jhi),
        "Parallel._retrieve[ordered]/post.queued_jobs_continue_the_output", "Parallel._retrieve/yield.next-sequential-result")
    hyp("registered-jobs-end-where-dispatch-ends", jhi == nd,
        "Parallel._dispatch/post.counts", "Parallel._dispatch/post.ordered_mode_queues_in_submission_order", "Parallel._dispatch/post.tracker_sized_like_the_batch",
        "Parallel._dispatch/call.submit.requires.tracker-registered-before-submit", "Parallel.dispatch_one_batch/post.dispatched_batch_continues_the_sequence")
    hyp("tail-loop-drains-the-queue", ny_final == jhi,
        "Parallel._get_outputs/post.everything_queued_is_delivered", "Parallel._get_outputs/yield.next-sequential-result")
    conclusion = ny_final == n
    return dict(name=NAME, hypotheses=hyps, uses=uses, conclusion=conclusion,
                text="no abort, retrieval loop stopped, tail loop drained  ==>  results delivered == len(input)")


def prove(lemma, rlimit=4000000):
    """Returns (status, detail): discharged / failed (with model) / unknown; plus a vacuity canary on the hypotheses."""
    s = z3.Solver()
    s.set("rlimit", rlimit)
    for f in lemma["hypotheses"].values():
        s.add(f)
    can = s.check()
    if can != z3.sat:
        return ("unknown" if can == z3.unknown else "vacuous"), "hypotheses are %s" % can
    s.add(z3.Not(lemma["conclusion"]))
    r = s.check()
    if r == z3.unsat:
        # every hypothesis is needed?  report the ones that are not (information only)
        return "discharged", ""
    if r == z3.sat:
        m = s.model()
        return "failed", ", ".join("%s=%s" % (d.name(), m[d]) for d in m.decls() if d.name().startswith("L.") and d.arity() == 0)
    return "unknown", s.reason_unknown()


def needed(lemma, rlimit=4000000):
    """Hypotheses whose removal makes the conclusion unprovable (sanity: each link carries weight)."""
    out = []
    for drop in lemma["hypotheses"]:
        s = z3.Solver()
        s.set("rlimit", rlimit)
        for k, f in lemma["hypotheses"].items():
            if k != drop:
                s.add(f)
        s.add(z3.Not(lemma["conclusion"]))
        if s.check() != z3.unsat:
            out.append(drop)
    return out
