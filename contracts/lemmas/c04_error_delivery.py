"""Composition lemma of C04: a registered failure is delivered to the caller.

Hypotheses = clauses of the per-function contracts (each must be generated and discharged in the same run):
  H1  a job that fails (task error, or the failure of the input iterable registered by dispatch_one_batch) raises the abort flag when it is
      registered, and stays queued until the retrieval thread pops it (ordered: trackers are registered at dispatch and only the retrieval
      thread pops; unordered: the tracker enqueues itself on registration)                     -> ERRQ => _aborting
  H2  _retrieve cannot end normally while a failed job is queued                                -> normal end of _retrieve => not ERRQ
  H3  an exception leaving _retrieve leaves _get_outputs as that very exception (after abort and tear-down), and __call__ adds nothing
Statement: if some job failed during the call (FAILED) and the consumer did not close the generator, the call does not complete normally.
What the lemma does not do: prove that a popped failed job re-raises (that is get_result / _return_or_raise, part 1), or liveness.
"""
import z3

NAME = "lemma.C04.a-registered-failure-reaches-the-caller"


def build():
    failed, errq, aborting, popped_failed, retrieve_normal, outputs_normal, call_normal = z3.Bools(
        "L.FAILED L.ERRQ L._aborting L.failed_job_popped L.retrieve_ends_normally L.get_outputs_ends_normally L.call_returns_normally")
    hyps, uses = {}, {}

    def hyp(name, formula, *obligations):
        hyps[name] = formula
        uses[name] = list(obligations)

    hyp("a-failed-job-is-queued-until-popped-and-raises-the-abort-flag", z3.And(z3.Implies(failed, z3.Or(errq, popped_failed)), z3.Implies(errq, aborting)),
        "BatchCompletionCallBack._register_outcome/post.error_raises_the_abort_flags", "BatchCompletionCallBack._register_outcome/post.registers_status_and_result",
        "Parallel.dispatch_one_batch/post.iterator_failure_is_registered", "Parallel._dispatch/call.submit.requires.tracker-registered-before-submit")
    hyp("popping-a-failed-job-raises", z3.Implies(popped_failed, z3.Not(retrieve_normal)),
        "BatchCompletionCallBack._return_or_raise/raise.ValueError.the_tasks_own_exception" if False else "Parallel._retrieve[ordered]/raise.ValueError.the_tasks_own_exception",
        "Parallel._retrieve[unordered]/raise.ValueError.the_tasks_own_exception")
    hyp("retrieval-never-ends-normally-with-a-failure-queued", z3.Implies(retrieve_normal, z3.Not(errq)),
        "Parallel._retrieve[ordered]/post.a_queued_failure_is_raised_not_dropped", "Parallel._retrieve[unordered]/post.a_queued_failure_is_raised_not_dropped")
    hyp("get_outputs-ends-normally-only-if-retrieval-did", z3.Implies(outputs_normal, retrieve_normal),
        "Parallel._get_outputs/raise.ValueError.the_tasks_own_exception", "Parallel._get_outputs/post.quiescent")
    hyp("call-returns-normally-only-if-get_outputs-did", z3.Implies(call_normal, outputs_normal),
        "Parallel.__call__/post.generator_is_primed_once", "Parallel.__call__/post.list_or_generator_as_requested")
    conclusion = z3.Implies(failed, z3.Not(call_normal))
    return dict(name=NAME, hypotheses=hyps, uses=uses, conclusion=conclusion,
                text="some job failed during the call  ==>  the call does not complete normally (the failure is raised, never dropped)")


def prove(lemma, rlimit=4000000):
    s = z3.Solver()
    s.set("rlimit", rlimit)
    for f in lemma["hypotheses"].values():
        s.add(f)
    can = s.check()
    if can != z3.sat:
        return ("unknown" if can == z3.unknown else "vacuous"), "hypotheses are %s" % can
    s.add(z3.Not(lemma["conclusion"]))
    r = s.check()
    if r == z3.unsat:
        return "discharged", ""
    if r == z3.sat:
        m = s.model()
        return "failed", ", ".join("%s=%s" % (d.name(), m[d]) for d in m.decls() if d.arity() == 0)
    return "unknown", s.reason_unknown()
