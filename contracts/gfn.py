"""func_inspect.get_func_name under contract for functions of the main script (C06): the identifier a cached function is filed under."""
from pyvc.contracts import Contract
from pyvc.pack import Pack
from pyvc.values import OneOf, Opaque

from .common import install_common

FI = "joblib/func_inspect.py"


def build():
    p = Pack("GFN", files=[FI])
    install_common(p)
    # get_func_name for a function defined in the main script: the identifier under which its results are filed.  A child process of
    # multiprocessing started with spawn / forkserver (the default on macOS and Windows, on Linux from Python 3.14) re-imports the script
    # as module "__mp_main__": the SAME function of the SAME file must get the SAME identifier there, or what the parent cached is
    # recomputed by every child (C06 "across processes sharing a cache directory"), and the children of two scripts that both define `f`
    # share one directory.  Representative paths (the mangling is a function of the path components; all string operations are concrete).
    SCRIPTS = ["/home/user/project/script.py", "/tmp/ipykernel_123456/987654321.py", "/w/<ipython-input-7-abcdef123456>", "/srv/app/run"]

    def mainfunc(interp):
        k = interp.ctx.choose(len(SCRIPTS), "script-path")
        interp.ctx.ghost["SCRIPT"] = SCRIPTS[k]
        return Opaque("mainfunc", None, __module__=OneOf("__main__", "__mp_main__").fresh(interp.ctx, "module"),
                      __name__="f", __qualname__="f", hasattr={"__module__": True, "func_name": False, "__name__": True, "func_globals": False, "__qualname__": True, "im_class": False})

    def expected(interp):
        parts = interp.ctx.ghost["SCRIPT"].split("/")
        if parts[-1].startswith("<ipython-input"):
            sp = parts[-1].split("-")
            parts[-1] = "-".join(sp[:2] + sp[3:])
        elif len(parts) > 2 and parts[-2].startswith("ipykernel_"):
            parts[-2] = "ipykernel"
        fn = "-".join(parts)
        if fn.endswith(".py"):
            fn = fn[:-3]
        return "__main__-" + fn

    def _osmod():
        o = Opaque("osmod", None, sep="/", path=Opaque("ospath", None))
        o.attrs["name"] = "posix"
        return o

    p.spec_funcs["main_script_identifier"] = expected
    p.models["inspect.getsourcefile"] = lambda i, a, k: i.ctx.ghost["SCRIPT"]
    p.models["inspect.ismethod"] = lambda i, a, k: False
    p.models["os.path.abspath"] = lambda i, a, k: a[0]
    p.add(Contract(
        FI, "get_func_name", variant="function-of-the-main-script", props=["C06"],
        globals={"os": lambda i: _osmod()},
        params=dict(func=mainfunc, resolv_alias=True, win_characters=True),
        ensures={"same_identifier_in_the_script_and_in_its_spawned_children": "len(result[0]) == 1 and result[0][0] == main_script_identifier() and result[1] == 'f'"},
    ))
    p.models["ospath.abspath"] = lambda i, r, a, k: a[0]
    return p
