"""The location of a file-system store (C06, C12): FileSystemStoreBackend.configure under contract.

Everything the store does later is os.path.join(self.location, ...) at the time of the access, and memory._FUNCTION_HASHES identifies a store
by this string.  The contract states what the two properties need from it: the location kept by the store does not depend on the working
directory, and a directory that exists but cannot be written still opens.
"""
from pyvc.contracts import Contract
from pyvc.pack import Pack
from pyvc.values import STR, ObjOf, OneOf, Opaque, PyDict, Unsupported

from .common import install_common

SB = "joblib/_store_backends.py"


def build():
    p = Pack("LOC", files=[SB])
    install_common(p)
    # ------------------------------------------------------------------ configure: the store's location (C06, C12)
    # Everything the store does later is os.path.join(self.location, ...) at the time of the access, and memory._FUNCTION_HASHES identifies
    # a store by this string.  A relative location would follow os.chdir (entries written under one working directory, looked up under the
    # next) and one directory spelled in two ways would be two stores for the table of validated functions: the location kept by the store
    # must not depend on the working directory.  A directory that exists but cannot be written (shared read-only cache) must still open:
    # the .gitignore marker is a convenience.
    def cfg_contract():
        def location(interp):
            return Opaque("pathtext", None, absolute=bool(interp.ctx.choose(2, "location-given-absolute")))

        def abspath(interp, args, kwargs):
            if not (isinstance(args[0], Opaque) and args[0].tag == "pathtext"):
                raise Unsupported("abspath of %r" % (args[0],))
            return Opaque("pathtext", None, absolute=True, of=args[0])

        def exists(interp, args, kwargs):
            return bool(interp.ctx.choose(2, "location-exists"))

        def mkdirp(interp, args, kwargs):
            interp.ctx.events.append(("mkdirp", args[0]))
            if interp.ctx.choose(2, "directory-cannot-be-created") == 1:
                interp.ctx.ghost["MKDIR_FAILED"] = True
                interp.raise_("PermissionError")
            return None

        def open_marker(interp, args, kwargs):
            if interp.ctx.choose(2, "directory-not-writable") == 1:
                interp.raise_("PermissionError")
            interp.ctx.events.append(("marker-written",))
            return Opaque("markerfile", None)

        p.models["markerfile.write"] = lambda i, r, a, k: None
        return Contract(
            SB, "FileSystemStoreBackend.configure", props=["C06", "C12"],
            params=dict(self=ObjOf("FileSystemStoreBackend"), location=location, verbose=OneOf(0, 1), backend_options=OneOf(None, PyDict({}), PyDict({"compress": True, "mmap_mode": "r"}))),
            calls={"os.path.abspath": abspath, "os.path.realpath": abspath, "os.path.exists": exists, "mkdirp": mkdirp, "open": open_marker,
                   "os.path.dirname": lambda i, a, k: STR.fresh(i.ctx, "dirname"), "os.path.basename": lambda i, a, k: STR.fresh(i.ctx, "basename"),
                   "os.path.join": lambda i, a, k: Opaque("pathtext", None, absolute=True)},
            ghost=dict(MKDIR_FAILED=False),
            ensures={"the_location_does_not_depend_on_the_working_directory": "self.location.absolute",
                     "the_directory_the_caller_named": "self.location is location or self.location.of is location"},
            exsures={"PermissionError": {"only_when_the_directory_cannot_be_created": "MKDIR_FAILED"}},
        )

    p.add(cfg_contract())
    return p
