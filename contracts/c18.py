"""C18 - reduce_size enforces every limit by evicting the minimal LRU prefix.

Functions under contract: StoreBackendMixin._get_items_to_delete, StoreBackendMixin.enforce_store_limits,
Memory.reduce_size, disk.memstr_to_bytes (float() assumed: the literal's value or ValueError).
"""
import z3

from pyvc import ops
from pyvc.contracts import Contract, Loop
from pyvc.pack import Pack
from pyvc.values import (
    BOOL, INT, REAL, STR, Atom, ListOf, ObjOf, OneOf, Opaque, OpaqueOf, Opt, PyList, Rec, SList, Sym, Unsupported,
)

from pyvc.values import ClassRef, kind_of
from .common import install_common, sorted_perm

ClassRefCI = ClassRef("CacheItemInfo")

STORE = "joblib/_store_backends.py"
Path = Atom("Path")
Item = Rec("CacheItemInfo", path=Path, size=INT, last_access=REAL)
TimeDelta = OpaqueOf("timedelta", secs=REAL)

# stop(j): the test of the eviction loop at index j (spec text, used in invariant and minimality)
STOP = ("(psum(LRU, 'size', {j}) >= TOTAL - BL if BL is not None else psum(LRU, 'size', {j}) >= 0)"
        " and ({j} >= len(LRU) - items_limit if items_limit is not None else {j} >= 0)"
        " and (age_limit is None or NOW - age_limit.total_seconds() < LRU[{j}].last_access)")


def build():
    p = Pack("C18", files=[STORE, "joblib/disk.py", "joblib/memory.py"])
    install_common(p)
    p.assume_note("datetimes are real timestamps, timedelta is its total_seconds (no float rounding)")


    # ---- disk.memstr_to_bytes under contract.  The spec is taken from the documented meaning of a size string ("<number><K|M|G>",
    # binary multiples): memstr(text) = trunc(NUM(text[:-1]) * 1024**{K:1, M:2, G:3}[text[-1]]).  float() is the only assumed piece:
    # float(s) is NUM(s) when ISNUM(s) and a ValueError otherwise (NUM, ISNUM uninterpreted; float rounding is not modelled - replay/c18.py
    # `memstr` compares with exact rational arithmetic on generated literals).
    NUM = z3.Function("NUM", z3.StringSort(), z3.RealSort())
    ISNUM = z3.Function("ISNUM", z3.StringSort(), z3.BoolSort())

    def m_float(interp, args, kwargs):
        v = args[0]
        if isinstance(v, (int, float)) and not isinstance(v, bool):
            return float(v)
        if kind_of(v) == STR:
            t = ops.to_term(v)
            if not interp.ctx.branch(ISNUM(t), "float-literal"):
                interp.raise_("ValueError")
            return Sym(REAL, NUM(t))
        raise Unsupported("float(%r)" % (v,))
    p.models["builtin:float"] = m_float

    def unit_of(ch):
        return z3.If(ch == z3.StringVal("K"), z3.RealVal(1024), z3.If(ch == z3.StringVal("M"), z3.RealVal(1024 ** 2), z3.RealVal(1024 ** 3)))

    def trunc(r):
        return z3.If(r >= 0, z3.ToInt(r), -z3.ToInt(-r))

    def memstr_spec(t):
        n = z3.Length(t)
        return trunc(unit_of(z3.SubString(t, n - 1, 1)) * NUM(z3.SubString(t, 0, n - 1)))

    def well_formed(t):
        n = z3.Length(t)
        last = z3.SubString(t, n - 1, 1)
        return z3.And(n >= 1, z3.Or(last == z3.StringVal("K"), last == z3.StringVal("M"), last == z3.StringVal("G")), ISNUM(z3.SubString(t, 0, n - 1)))
    p.spec_funcs["memstr"] = lambda interp, s: Sym(INT, memstr_spec(ops.to_term(s)))
    p.spec_funcs["size_string"] = lambda interp, s: Sym(BOOL, well_formed(ops.to_term(s)))
    p.add(Contract(
        "joblib/disk.py", "memstr_to_bytes", props=["C18"],
        params=dict(text=STR),
        returns=INT,
        ensures={"value_is_number_times_binary_unit_truncated": "result == memstr(text)",
                 "returns_only_for_a_size_string": "size_string(text)"},
        exsures={"ValueError": {"only_for_a_malformed_size_string": "not size_string(text)"},
                 "IndexError": {"only_for_the_empty_string": "len(text) == 0"}},
        note="float(s) assumed: the finite value NUM(s) when ISNUM(s), ValueError otherwise (inf and nan literals are not modelled); the empty string escapes as IndexError (not a size string: outside C18)",
    ))

    def get_items(interp, args, kwargs):
        ctx = interp.ctx
        items = ListOf(Item).fresh(ctx, "ITEMS")
        j = z3.Int("j!gi")
        ctx.assume(z3.ForAll([j], z3.Implies(z3.And(0 <= j, j < items.length), Item.field_fn("size")(z3.Select(items.arr, j)) >= 0)))
        ctx.ghost["ITEMS"] = items.clone()
        ctx.ghost["LRU"] = sorted_perm(interp, items, "last_access")
        from pyvc.models import psum_term
        ctx.ghost["TOTAL"] = Sym(INT, psum_term(interp, ctx.ghost["LRU"], "CacheItemInfo:size",
                                                 lambda t: Sym(INT, Item.field_fn("size")(z3.Select(ctx.ghost["LRU"].arr, t))),
                                                 items.length))
        return items

    def gitd_setup(interp, env):
        # effective byte limit BL as a ghost (None, the int, or memstr(text))
        bl = env.lookup("bytes_limit")
        g = interp.ctx.ghost
        if bl is None:
            g["BL"] = None
        elif ops.kind_of(bl) == STR:
            g["BL"] = Sym(INT, memstr_spec(bl.term))
        else:
            g["BL"] = bl

    gitd = Contract(
        STORE, "StoreBackendMixin._get_items_to_delete", props=["C18"],
        params=dict(
            self=ObjOf("StoreBackendMixin", verbose=INT),
            bytes_limit=OneOf(None, INT, STR),
            items_limit=Opt(INT),
            age_limit=Opt(TimeDelta),
        ),
        ghost=dict(NOW=REAL),
        setup=gitd_setup,
        requires=[
            "BL is None or BL >= 0",
            "items_limit is None or items_limit >= 0",
        ],
        calls={"self.get_items": get_items},
        returns=ListOf(Item),
        ensures={
            # R is a prefix of the LRU order (LRU = stable ascending permutation of what get_items returned)
            "lru_prefix": "len(result) <= len(LRU) and forall(j, 0, len(result), result[j] is LRU[j])",
            "limit.bytes": "implies(BL is not None, TOTAL - psum(LRU, 'size', len(result)) <= BL)",
            "limit.items": "implies(items_limit is not None, len(LRU) - len(result) <= items_limit)",
            "limit.age": "implies(age_limit is not None, forall(j, len(result), len(LRU), "
                         "LRU[j].last_access > NOW - age_limit.total_seconds()))",
            # minimal: no shorter prefix meets all limits (stop(k) is equivalent to `meets(k)` on a sorted list)
            "minimal": "forall(k, 0, len(result), not (%s))" % STOP.format(j="k"),
        },
        exsures={"ValueError": {
            "only-documented": "(isinstance(bytes_limit, str) and not size_string(bytes_limit)) or (age_limit is not None and age_limit.total_seconds() < 0)"},
            "IndexError": {"only_for_the_empty_string": "isinstance(bytes_limit, str) and len(bytes_limit) == 0"}},
        loops={1: Loop(
            "for item in items",
            invariant={
                "items_is_lru": "forall(j, 0, len(LRU), items[j] is LRU[j]) and len(items) == len(LRU)",
                "size": "size_so_far == psum(LRU, 'size', _i)",
                "count": "items_so_far == _i",
                "len": "len(items_to_delete) == _i",
                "prefix": "forall(j, 0, _i, items_to_delete[j] is LRU[j])",
                "no_early_stop": "forall(k, 0, _i, not (%s))" % STOP.format(j="k"),
                "to_delete_size": "to_delete_size == (TOTAL - BL if BL is not None else 0)",
                "to_delete_items": "to_delete_items == (len(LRU) - items_limit if items_limit is not None else 0)",
                "deadline": "implies(age_limit is not None, deadline == NOW - age_limit.total_seconds())",
            },
            kinds={"items_to_delete": ListOf(Item)},
        )},
    )
    p.add(gitd)

    def gitd_at_call(interp, env, outcome):
        # at a call site the callee's ghosts (ITEMS/LRU/TOTAL/BL) are created as its own run creates them
        if "LRU" not in interp.ctx.ghost:
            get_items(interp, [], {})
        gitd_setup(interp, env)

    gitd.at_exit = gitd_at_call

    # ---- enforce_store_limits: clear_location exactly for the items of R, OSError swallowed, nothing else
    def clear_location(interp, recv, args, kwargs):
        ctx = interp.ctx
        cl = ctx.ghost["CLEARED"]
        cl.arr = z3.Store(cl.arr, cl.length, ops.to_term(args[0]))
        cl.length = cl.length + 1
        if ctx.choose(2, "clear_location-raises") == 1:
            interp.raise_("OSError")
        return None

    p.models["StoreBackendMixin.clear_location"] = clear_location
    p.assume_note("clear_location(path): external (rmtree); may raise OSError; recorded in ghost CLEARED")

    def esl_setup(interp, env):
        ctx = interp.ctx
        ctx.ghost["CLEARED"] = SList(Path, z3.K(z3.IntSort(), z3.Const("nopath", Path.sort())), z3.IntVal(0))
        gitd_setup(interp, env)

    p.add(Contract(
        STORE, "StoreBackendMixin.enforce_store_limits", props=["C18"],
        params=dict(
            self=ObjOf("StoreBackendMixin", verbose=INT),
            bytes_limit=OneOf(None, INT, STR),
            items_limit=Opt(INT),
            age_limit=Opt(TimeDelta),
        ),
        ghost=dict(NOW=REAL),
        setup=esl_setup,
        requires=["BL is None or BL >= 0", "items_limit is None or items_limit >= 0"],
        ensures={
            "cleared_exactly_R": "len(CLEARED) == len(ret__get_items_to_delete) and forall(j, 0, len(ret__get_items_to_delete), CLEARED[j] is ret__get_items_to_delete[j].path)",
        },
        exsures={"ValueError": {"nothing-cleared": "len(CLEARED) == 0"}, "IndexError": {"nothing-cleared": "len(CLEARED) == 0"}},
        loops={1: Loop(
            "for item in items_to_delete",
            invariant={"cleared": "len(CLEARED) == _i and forall(j, 0, _i, CLEARED[j] is items_to_delete[j].path)",
                       "R": "items_to_delete is ret__get_items_to_delete"},
            havoc=["ghost:CLEARED"],
        )},
    ))

    # ---- FileSystemStoreBackend.get_items: the inventory the eviction works on.  Other users may delete entries while it is taken: every
    # os.path.getatime / getsize may raise OSError at any moment (rely), and nothing escapes; every item reported has a size >= 0
    # (what _get_items_to_delete assumes) and belongs to a directory named like an argument hash.
    # Shape-bounded: at most two files are listed per entry directory; the number of directories is unbounded (loop invariant).
    Dir = Atom("DirPath")
    HASHDIR = z3.Function("is_hash_dir", Dir.sort(), z3.BoolSort())

    def os_walk(interp, args, kwargs):
        ctx = interp.ctx
        n = z3.Int(ctx.fresh_name("ndirs"))
        ctx.assume(n >= 0)
        dirs = z3.Function(ctx.fresh_name("walkdir"), z3.IntSort(), Dir.sort())
        return Opaque("walk", None, seq=(n, lambda i: (Sym(Dir, dirs(i)), Opaque("subdirs", None), Opaque("filenames", None, of=Sym(Dir, dirs(i))))))

    # completeness of the inventory (C18: the limits hold AFTER reduce_size, so everything that occupies the store must be counted): an
    # entry directory is excused only if it is seen disappearing while the inventory is taken - its own getatime fails, or one of the
    # files listed in it is gone.  A missing output.pkl alone (writer killed during the dump, result that failed to pickle: the
    # directory and its temporary stay) is no excuse.  Ghost PRESENT = entry directories met and not (yet) excused.
    def _dir_of(path):
        if isinstance(path, Opaque) and path.tag == "joined":
            return path.attrs["parts"][0], path.attrs["parts"][1:]
        return path, ()

    def _excuse(interp, d):
        g = interp.ctx.ghost
        if "PRESENT" in g and isinstance(d, Sym):
            g["PRESENT"] = Sym(DIRSET, z3.Store(g["PRESENT"].term, d.term, False))

    def getatime(interp, args, kwargs):
        interp.ctx.events.append(("getatime", args[0]))
        if interp.ctx.choose(2, "getatime:gone") == 1:
            d, rest = _dir_of(args[0])
            if not rest:
                _excuse(interp, d)  # the directory itself is gone
            interp.raise_("OSError")
        return REAL.fresh(interp.ctx, "atime")

    def getsize(interp, args, kwargs):
        interp.ctx.events.append(("getsize", args[0]))
        if interp.ctx.choose(2, "getsize:gone") == 1:
            _excuse(interp, _dir_of(args[0])[0])  # a file listed a moment ago is gone: the entry is being removed by someone else
            interp.raise_("FileNotFoundError")
        sz = INT.fresh(interp.ctx, "filesize")
        interp.ctx.assume(sz.term >= 0)
        return sz

    p.models["os.walk"] = os_walk
    p.models["os.path.getatime"] = getatime
    p.models["os.path.getsize"] = getsize
    p.models["os.path.basename"] = lambda i, a, k: Opaque("basename", None, of=a[0])
    p.models["os.path.join"] = lambda i, a, k: Opaque("joined", None, parts=tuple(a))
    # entry directories are named by an argument hash: exactly 32 hexadecimal digits.  re.match only anchors at the start (a name that merely
    # BEGINS with 32 hex digits matches too), re.fullmatch tests the whole name
    STARTS_LIKE_HASH = z3.Function("name_starts_with_32_hex_digits", Dir.sort(), z3.BoolSort())

    def re_match(full):
        def h(i, a, k):
            d = a[1].attrs["of"].term
            i.ctx.assume(z3.Implies(HASHDIR(d), STARTS_LIKE_HASH(d)))
            if i.ctx.branch(HASHDIR(d) if full else STARTS_LIKE_HASH(d), "name-matches"):
                g = i.ctx.ghost
                if "PRESENT" in g:
                    g["PRESENT"] = Sym(DIRSET, z3.If(HASHDIR(d), z3.Store(g["PRESENT"].term, d, True), g["PRESENT"].term))
                return Opaque("match", None)
            return None
        return h

    p.models["re.match"] = re_match(False)
    p.models["re.fullmatch"] = re_match(True)
    p.models["datetime.datetime.fromtimestamp"] = lambda i, a, k: a[0]
    orig_for_items = p.for_items

    def for_items(interp, it, node):
        if isinstance(it, Opaque) and it.tag == "filenames":
            return [Opaque("filename", None, k=j) for j in range(interp.ctx.choose(3, "files-listed"))]
        return orig_for_items(interp, it, node)

    p.for_items = for_items

    def new_item(interp, args, kwargs):
        it = Item.fresh(interp.ctx, "item")
        f = Item.field_fn
        interp.ctx.assume(z3.And(f("size")(it.term) == ops.as_int_term(args[1]), f("last_access")(it.term) == ops.as_num_term(args[2])))
        interp.ctx.ghost["LAST_ITEM_DIR"] = args[0]
        g = interp.ctx.ghost
        if "REPORTED" in g:
            g["REPORTED"] = Sym(DIRSET, z3.Store(g["REPORTED"].term, args[0].term, True))
        return it

    p.models["new:CacheItemInfo"] = new_item
    class _ArrK(Atom):
        def __init__(self, name, srt):
            self.name, self._s = name, srt

        def sort(self):
            return self._s

    DIRSET = _ArrK("DirSet", z3.ArraySort(Dir.sort(), z3.BoolSort()))

    def only_hash_dirs(interp):
        d = z3.Const("d!rep", Dir.sort())
        return ops.mk_bool(z3.ForAll([d], z3.Implies(z3.Select(interp.ctx.ghost["REPORTED"].term, d), HASHDIR(d))))

    p.spec_funcs["only_hash_dirs"] = only_hash_dirs

    def complete(interp):
        d = z3.Const("d!cmp", Dir.sort())
        g = interp.ctx.ghost
        return ops.mk_bool(z3.ForAll([d], z3.Implies(z3.Select(g["PRESENT"].term, d), z3.Select(g["REPORTED"].term, d))))

    p.spec_funcs["inventory_complete"] = complete

    def gi_setup(interp, env):
        interp.ctx.ghost["REPORTED"] = Sym(DIRSET, z3.K(Dir.sort(), z3.BoolVal(False)))
        interp.ctx.ghost["PRESENT"] = Sym(DIRSET, z3.K(Dir.sort(), z3.BoolVal(False)))

    p.spec_funcs["sizes_ok"] = lambda interp, lst: True if isinstance(lst, PyList) and not lst.items else ops.mk_bool(z3.ForAll(
        [z3.Int("j!gi")], z3.Implies(z3.And(0 <= z3.Int("j!gi"), z3.Int("j!gi") < lst.length), Item.field_fn("size")(z3.Select(lst.arr, z3.Int("j!gi"))) >= 0),
        patterns=[z3.Select(lst.arr, z3.Int("j!gi"))]))
    p.add(Contract(
        STORE, "FileSystemStoreBackend.get_items", props=["C18", "C11"], globals={"CacheItemInfo": lambda interp: ClassRefCI}, ghost=dict(REPORTED=DIRSET, PRESENT=DIRSET), setup=gi_setup,
        params=dict(self=ObjOf("FileSystemStoreBackend", location=OpaqueOf("location"))),
        ensures={"every_reported_size_is_non_negative": "sizes_ok(result)",
                 "only_directories_named_by_an_argument_hash_are_entries": "only_hash_dirs()",
                 "every_entry_directory_not_seen_disappearing_is_counted": "inventory_complete()"},
        # no exsures: whatever disappears while the inventory is taken, no exception escapes
        loops={1: Loop("for (dirpath, _, filenames) in os.walk(self.location)",
                       invariant={"sizes_so_far": "sizes_ok(items)", "entries_so_far": "only_hash_dirs()", "complete_so_far": "inventory_complete()"},
                       kinds={"items": ListOf(Item)}, havoc=["ghost:REPORTED", "ghost:PRESENT"])},
    ))

    # ---- Memory.reduce_size: delegates to enforce_store_limits once, or does nothing
    def esl_model(interp, recv, args, kwargs):
        interp.ctx.events.append(("enforce_store_limits", tuple(args), tuple(sorted(kwargs))))
        return None

    p.models["store_backend.enforce_store_limits"] = esl_model
    p.add(Contract(
        "joblib/memory.py", "Memory.reduce_size", props=["C18"],
        params=dict(
            self=ObjOf("Memory", store_backend=Opt(OpaqueOf("store_backend")), _verbose=INT),
            bytes_limit=OneOf(None, INT, STR), items_limit=Opt(INT), age_limit=Opt(TimeDelta)),
        ensures={
            "delegates": "n_events('enforce_store_limits') == (1 if self.store_backend is not None and "
                         "not (bytes_limit is None and items_limit is None and age_limit is None) else 0)",
            "same-args": "implies(n_events('enforce_store_limits') == 1, "
                         "event_arg('enforce_store_limits', 0) is bytes_limit and "
                         "event_arg('enforce_store_limits', 1) is items_limit and "
                         "event_arg('enforce_store_limits', 2) is age_limit)",
        },
    ))

    def n_events(interp, name):
        return sum(1 for e in interp.ctx.events if e[0] == name)

    def event_arg(interp, name, i):
        for e in interp.ctx.events:
            if e[0] == name:
                return e[1][i]
        return None

    p.spec_funcs["n_events"] = n_events
    p.spec_funcs["event_arg"] = event_arg
    return p
