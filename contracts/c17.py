"""C17 - parallel_config settings are scoped, thread-local and correctly prioritised.

Two value representations are used (stated per contract):
 (a) plumbing contracts (_get_config_param, parallel_config.__init__/unregister/__exit__): configuration values are
     symbols of an uninterpreted sort Val; the per-key sentinels are distinguished constants with isSent(...) true;
     a user value may coincide with a sentinel (that is the "explicit default" case);
 (b) decision contracts (_get_active_backend, Parallel.__init__): prefer / require / backend range over the finite
     sets that the code distinguishes, sentinels are unique objects.
"""
import z3

from pyvc import ops
from pyvc.contracts import Contract
from pyvc.pack import Pack
from pyvc.values import (
    BOOL, INT, REAL, STR, Atom, ClassRef, ObjOf, OneOf, Opaque, OpaqueOf, Opt, PyDict, PyList, Sentinel, SExc, SObj,
    Sym, Unsupported, kind_of,
)

from .common import install_common

PAR = "joblib/parallel.py"
KEYS = ["backend", "n_jobs", "verbose", "temp_folder", "max_nbytes", "mmap_mode", "prefer", "require"]
Val = Atom("Val")
isSent = z3.Function("isSent", Val.sort(), z3.BoolSort())
default_value = z3.Function("default_value", Val.sort(), Val.sort())
SENT_A = {k: Sym(Val, z3.Const("SENT_" + k, Val.sort())) for k in KEYS}
DEFAULTS_B = {"backend": None, "n_jobs": None, "verbose": 0, "temp_folder": None, "max_nbytes": "1M", "mmap_mode": "r",
              "prefer": None, "require": None}
SENT_B = {k: Sentinel("default:" + k, default_value=DEFAULTS_B[k], __class__="_Sentinel") for k in KEYS}


def _Fn(fn):
    return Opaque("fn", None, fn=fn)


def build():
    p = Pack("C17", files=[PAR, "joblib/_utils.py", "joblib/_parallel_backends.py", "joblib/logger.py"])
    install_common(p)
    p.models["fn.__call__"] = lambda interp, fv, args, kwargs: fv.attrs["fn"](interp, args, kwargs)

    # ------------------------------------------------------------------ representation (a)
    def setup_a(interp, env):
        ctx = interp.ctx
        ctx.assume(z3.Distinct(*[SENT_A[k].term for k in KEYS]))
        for k in KEYS:
            ctx.assume(isSent(SENT_A[k].term))

    p.models["isinstance:Val"] = lambda interp, v, t: isSent(v.term) if getattr(t, "name", "") == "_Sentinel" else False
    p.models["getattr:Val.default_value"] = lambda interp, v: Sym(Val, default_value(v.term))

    def fresh_config(interp, name):
        return PyDict({k: Val.fresh(interp.ctx, "%s.%s" % (name, k)) for k in KEYS})

    GLOB_A = {"default_parallel_config": PyDict(dict(SENT_A))}

    p.add(Contract(
        PAR, "_get_config_param", props=["C17"], globals=GLOB_A, setup=setup_a,
        params=dict(param=Val, context_config=lambda i: fresh_config(i, "ctx"), key=OneOf(*KEYS)),
        ensures={
            "explicit_wins": "implies(param is not default_parallel_config[key], result is param)",
            "then_context": "implies(param is default_parallel_config[key] and context_config[key] is not default_parallel_config[key], "
                            "result is context_config[key])",
            "else_default": "implies(param is default_parallel_config[key] and context_config[key] is default_parallel_config[key], "
                            "result is dv(param))",
        },
    ))
    p.spec_funcs["dv"] = lambda interp, v: Sym(Val, default_value(v.term))

    # thread-local object: the ONLY global state these functions may write is attribute `config` of `_backend`
    def tlocal(interp):
        ctx = interp.ctx
        o = Opaque("tlocal", "_backend")
        if ctx.choose(2, "tlocal-has-config") == 1:
            o.attrs["config"] = fresh_config(interp, "cur")
        else:
            o.attrs["hasattr"] = {"config": False}
        ctx.ghost["TL"] = o
        return o

    def tl_write(interp, obj, attr, v):
        interp.ctx.events.append(("tlocal-write", attr))

    p.write_hooks[("tlocal", "config")] = tl_write
    p.write_hooks[("tlocal", "*")] = tl_write
    p.assume_note("threading.local attributes are per-thread (CPython); `_backend` is the module's threading.local()")
    p.spec_funcs["n_events"] = lambda interp, name: sum(1 for e in interp.ctx.events if e[0] == name)
    p.spec_funcs["cur_config"] = lambda interp: interp.ctx.ghost["TL"].attrs.get("config", interp.global_lookup("default_parallel_config", None))
    p.spec_funcs["had_config"] = lambda interp: "config" in interp.ctx.ghost["TL0"].attrs
    p.spec_funcs["old_config"] = lambda interp: interp.ctx.ghost["TL0"].attrs.get("config", interp.global_lookup("default_parallel_config", None))

    def pc_setup(interp, env):
        setup_a(interp, env)
        tl = interp.global_lookup("_backend", env.module)
        snap = Opaque("tlocal", "_backend0")
        if "config" in tl.attrs:
            snap.attrs["config"] = tl.attrs["config"].clone()
        interp.ctx.ghost["TL0"] = snap

    def check_backend_stub(interp, args, kwargs):
        # modular: contract of _check_backend as seen from __init__ (representation a): returns some value NEWB or raises
        k = interp.ctx.choose(3, "_check_backend-outcome")
        if k == 1:
            interp.raise_("ValueError")
        if k == 2:
            interp.raise_("AssertionError")
        nb = Val.fresh(interp.ctx, "NEWB")
        interp.ctx.ghost["NEWB"] = nb
        # (verified on _check_backend itself:) an unset backend stays the sentinel
        interp.ctx.assume(z3.Implies(args[0].term == SENT_A["backend"].term, nb.term == args[0].term))
        return nb

    NEW = {k: ("NEWB" if k == "backend" else k) for k in KEYS}
    ens = {}
    for k in KEYS:
        ens["key.%s" % k] = ("self.parallel_config['{k}'] is ({g} if not is_sent({g}) else old_config()['{k}'])"
                             .format(k=k, g=NEW[k]))
    ens["saves_previous"] = "all_same(self.old_parallel_config, old_config())"
    ens["installs_new"] = "cur_config() is_same_dict self.parallel_config" if False else "same_obj(cur_config(), self.parallel_config)"
    ens["only_tlocal_config_written"] = "n_events('tlocal-write') == 1"
    p.spec_funcs["is_sent"] = lambda interp, v: False if v is None else ops.mk_bool(isSent(v.term))
    p.spec_funcs["same_obj"] = lambda interp, a, b: a is b
    p.spec_funcs["all_same"] = lambda interp, a, b: ops.mk_bool(ops.b_and(*[ops.identical(a.d[k], b.d[k]) for k in KEYS]))

    def val_or_none(i):
        def mk(interp):
            g = interp.ctx.ghost
            if "NONE_SETTING" not in g:
                # (four representatives keep the path count in hand: n_jobs, temp_folder, prefer, require - the code treats the others alike)
                g["NONE_SETTING"] = (-1, 0, 2, 5, 6)[interp.ctx.choose(5, "setting-passed-as-None")]
            return None if g["NONE_SETTING"] == i else Val.fresh(interp.ctx, "setting%d" % i)
        return mk

    GLOB_PC = dict(GLOB_A)
    GLOB_PC["_backend"] = tlocal
    p.add(Contract(
        PAR, "parallel_config.__init__", props=["C17"], globals=GLOB_PC, setup=pc_setup,
        # every setting ranges over the abstract values (the 'unset' sentinel among them); in addition ONE of them at a time may be an
        # explicit None - a value like any other for these seven (prefer=None lifts an outer hint, temp_folder=None means the default
        # folder ...): an inner block that says None must not inherit the outer block's value.  (backend=None is the documented spelling
        # of 'unset': _check_backend contract.)
        params=dict(self=ObjOf("parallel_config"), backend=Val, n_jobs=val_or_none(0), verbose=val_or_none(1), temp_folder=val_or_none(2), max_nbytes=val_or_none(3),
                    mmap_mode=val_or_none(4), prefer=val_or_none(5), require=val_or_none(6), inner_max_num_threads=OneOf(None, INT), backend_params=PyDict({})),
        calls={"self._check_backend": check_backend_stub},
        ensures=ens,
        exsures={
            "ValueError": {"config_untouched": "n_events('tlocal-write') == 0"},
            "AssertionError": {"config_untouched": "n_events('tlocal-write') == 0"},
        },
    ))

    pc_init = p.contracts[(PAR, "parallel_config.__init__")]

    def pc_at_call(interp, env, outcome):
        # call-site view of the constructor: the post-state objects exist; the ensures (assumed next) constrain them
        ctx = interp.ctx
        tl = interp.global_lookup("_backend", env.module)
        snap = Opaque("tlocal", "_backend0")
        if "config" in tl.attrs:
            snap.attrs["config"] = tl.attrs["config"].clone()
        ctx.ghost["TL0"] = snap
        ctx.events[:] = [e for e in ctx.events if e[0] != "tlocal-write"]
        if outcome != "return":
            return
        me = env.lookup("self")
        me.fields["old_parallel_config"] = fresh_config(interp, "saved")
        me.fields["parallel_config"] = fresh_config(interp, "new")
        ctx.ghost["NEWB"] = Val.fresh(ctx, "NEWB")
        ctx.assume(z3.Implies(env.lookup("backend").term == SENT_A["backend"].term, ctx.ghost["NEWB"].term == SENT_A["backend"].term))
        tl.attrs["config"] = me.fields["parallel_config"]
        ctx.events.append(("tlocal-write", "config"))

    pc_init.at_exit = pc_at_call

    def unreg_at_call(interp, env, outcome):
        tl = interp.global_lookup("_backend", env.module)
        interp.ctx.ghost["TL0"] = tl
        interp.ctx.events[:] = [e for e in interp.ctx.events if e[0] != "tlocal-write"]
        tl.attrs["config"] = env.lookup("self").fields["old_parallel_config"]
        interp.ctx.events.append(("tlocal-write", "config"))

    def unreg_setup(interp, env):
        setup_a(interp, env)
        tl = interp.global_lookup("_backend", env.module)
        interp.ctx.ghost["TL0"] = tl

    for q in ("parallel_config.unregister", "parallel_config.__exit__"):
        p.add(Contract(
            PAR, q, props=["C17"], globals=GLOB_PC, setup=unreg_setup,
            inline={"unregister"},
            params=dict(self=ObjOf("parallel_config", old_parallel_config=lambda i: fresh_config(i, "saved"),
                                   parallel_config=lambda i: fresh_config(i, "mine")),
                        type=OneOf(None, OpaqueOf("exctype")), value=None, traceback=None),
            ensures={"restores_saved": "same_obj(cur_config(), self.old_parallel_config)",
                     "only_tlocal_config_written": "n_events('tlocal-write') == 1",
                     "does_not_suppress": "result is None"},
            at_exit=unreg_at_call,
        ))
    p.add(Contract(
        PAR, "parallel_config.__enter__", props=["C17"], globals=GLOB_PC, setup=unreg_setup,
        params=dict(self=ObjOf("parallel_config", old_parallel_config=lambda i: fresh_config(i, "saved"),
                               parallel_config=lambda i: fresh_config(i, "mine"))),
        ensures={"no_write": "n_events('tlocal-write') == 0", "returns_config": "same_obj(result, self.parallel_config)"},
    ))

    # ------------------------------------------------------------------ LIFO lemma over the two contracts (client in /verif)
    import os as _os
    LEMMA = _os.path.join(_os.path.dirname(_os.path.abspath(__file__)), "lemmas", "c17_lifo.py")

    def lifo_setup(interp, env):
        setup_a(interp, env)
        tl = interp.global_lookup("_backend", env.module)
        snap = Opaque("tlocal", "_backend00")
        if "config" in tl.attrs:
            snap.attrs["config"] = tl.attrs["config"].clone()
        interp.ctx.ghost["TL00"] = snap

    p.spec_funcs["orig_had_config"] = lambda interp: "config" in interp.ctx.ghost["TL00"].attrs
    p.spec_funcs["orig_config"] = lambda interp: interp.ctx.ghost["TL00"].attrs.get("config", GLOB_A["default_parallel_config"])
    LG = dict(GLOB_PC)
    LG["parallel_config"] = ClassRef("parallel_config")
    sixteen = {n: Val for n in ("b1 n1 v1 t1 m1 mm1 p1 r1 b2 n2 v2 t2 m2 mm2 p2 r2").split()}
    def inner_left(interp, args, kwargs):
        a = args[0]
        cur = p.spec_funcs["cur_config"](interp)
        interp.ctx.check("lifo_two_levels/after-inner-block.outer-settings-are-back",
                         ops.b_and(*[ops.identical(cur.d[k], a.fields["parallel_config"].d[k]) for k in KEYS]))

    p.add(Contract(
        LEMMA, "lifo_two_levels", props=["C17"], globals=LG, setup=lifo_setup, params=sixteen,
        calls={"_inner_block_left": inner_left},
        ensures={"restored": "all_same(cur_config(), orig_config())"},
        exsures={"ValueError": {"restored": "all_same(cur_config(), orig_config())"},
                 "AssertionError": {"restored": "all_same(cur_config(), orig_config())"}},
        note="lemma over the contracts of parallel_config.__init__ / unregister (modular calls); client program is not repository code",
    ))

    # ------------------------------------------------------------------ representation (b): backend choice
    def mk_backend(interp, cls, level=None):
        o = SObj(cls, {})
        o.fields.update(nesting_level=level if level is not None else INT.fresh(interp.ctx, "level"),
                        inner_max_num_threads=None, backend_kwargs=PyDict({}))
        o.fields["__complete__"] = True  # an instance of a built-in backend class: exactly the attributes ParallelBackendBase.__init__ assigns
        return o

    def ext_backend(interp):
        # a third-party backend: attributes uses_threads / supports_sharedmem may be missing
        ctx = interp.ctx
        o = Opaque("extbackend", ctx.fresh_name("ext"), nesting_level=INT.fresh(ctx, "xlevel"))
        o.attrs["hasattr"] = {}
        if ctx.choose(2, "ext-has-uses_threads") == 1:
            o.attrs["uses_threads"] = OneOf(False, True).fresh(ctx, "uses_threads")
        else:
            o.attrs["hasattr"]["uses_threads"] = False
        if ctx.choose(2, "ext-has-sharedmem") == 1:
            o.attrs["supports_sharedmem"] = OneOf(False, True).fresh(ctx, "sharedmem")
        else:
            o.attrs["hasattr"]["supports_sharedmem"] = False
        o.attrs["isinstance"] = ("ParallelBackendBase",)
        o.attrs["supports_return_generator"] = True
        o.attrs["default_n_jobs"] = 1
        return o

    def ctx_backend_kind(interp):
        k = interp.ctx.choose(5, "ctx-backend")
        if k == 0:
            return SENT_B["backend"]
        if k == 1:
            return mk_backend(interp, "LokyBackend")
        if k == 2:
            return mk_backend(interp, "ThreadingBackend")
        if k == 3:
            return mk_backend(interp, "SequentialBackend")
        return ext_backend(interp)

    PREFER = lambda k: OneOf(SENT_B[k], None, "threads", "processes", "bogus")
    REQUIRE = lambda k: OneOf(SENT_B[k], None, "sharedmem", "bogus")

    def tlocal_b(interp):
        ctx = interp.ctx
        o = Opaque("tlocal", "_backend")
        if ctx.choose(2, "tlocal-has-config") == 1:
            d = dict(SENT_B)
            d["backend"] = ctx_backend_kind(interp)
            d["prefer"] = PREFER("prefer").fresh(ctx, "ctx_prefer")
            d["require"] = REQUIRE("require").fresh(ctx, "ctx_require")
            d["n_jobs"] = OneOf(SENT_B["n_jobs"], INT).fresh(ctx, "ctx_n_jobs") if ctx.ghost.get("WITH_N_JOBS") else SENT_B["n_jobs"]
            o.attrs["config"] = PyDict(d)
        else:
            o.attrs["hasattr"] = {"config": False}
        ctx.ghost["TL"] = o
        ctx.ghost["TL0"] = Opaque("tlocal", "_backend0", **({"config": o.attrs["config"].clone()} if "config" in o.attrs else {}))
        return o

    GLOB_B = {
        "default_parallel_config": PyDict(dict(SENT_B)),
        "_backend": tlocal_b,
        "BACKENDS": PyDict({"threading": ClassRef("ThreadingBackend"), "sequential": ClassRef("SequentialBackend"),
                            "multiprocessing": ClassRef("MultiprocessingBackend"), "loky": ClassRef("LokyBackend")}),
        "DEFAULT_BACKEND": OneOf("loky", "threading"),
    }
    p.assume_note("BACKENDS holds the four built-in backends and DEFAULT_BACKEND is 'loky' or 'threading' - or, variant without-multiprocessing, only threading / sequential with default 'threading' (register_parallel_backend is out of scope)")

    def resolved(interp, key, param):
        cfg = interp.ctx.ghost["TL0"].attrs.get("config")
        if param is not SENT_B[key]:
            return param
        if cfg is not None and cfg.d[key] is not SENT_B[key]:
            return cfg.d[key]
        return DEFAULTS_B[key]

    p.spec_funcs["resolved"] = resolved
    p.spec_funcs["ctx_backend"] = lambda interp: (lambda c: None if c is None or c.d["backend"] is SENT_B["backend"] else c.d["backend"])(interp.ctx.ghost["TL0"].attrs.get("config"))
    p.spec_funcs["shm"] = lambda interp, b: interp.getattr(b, "supports_sharedmem", None, default=False)
    p.spec_funcs["thr"] = lambda interp, b: interp.getattr(b, "uses_threads", None, default=False)

    # a hint and a constraint contradict each other only when the SAME call states both (Parallel(prefer='processes', require='sharedmem')):
    # coming from an enclosing context - one or both, whatever the nesting of the blocks that set them (the merged configuration does not
    # tell) - the hint gives way, "require='sharedmem' always yields a thread-based backend and prefer is only a hint"
    p.spec_funcs["same_level"] = lambda interp, prefer, require: (prefer is not SENT_B["prefer"]) and (require is not SENT_B["require"])
    CONTRADICTION = "(resolved('prefer', prefer) == 'processes' and resolved('require', require) == 'sharedmem' and same_level(prefer, require))"
    gab = Contract(
        PAR, "_get_active_backend", props=["C17"], globals=GLOB_B,
        setup=lambda interp, env: interp.global_lookup("_backend", env.module),
        inline={"__init__", "_get_config_param"},
        params=dict(prefer=PREFER("prefer"), require=REQUIRE("require"), verbose=INT),
        ensures={
            "sharedmem_is_honoured": "implies(resolved('require', require) == 'sharedmem', shm(result[0]) is True)",
            "explicit_backend_beats_prefer": "implies(ctx_backend() is not None and not (resolved('require', require) == 'sharedmem' and not shm(ctx_backend())), "
                                             "same_obj(result[0], ctx_backend()))",
            "prefer_threads_hint": "implies(ctx_backend() is None and resolved('prefer', prefer) == 'threads', thr(result[0]) is True)",
            "prefer_processes_hint": "implies(ctx_backend() is None and resolved('prefer', prefer) == 'processes' and resolved('require', require) != 'sharedmem', thr(result[0]) is False)",
            "valid_settings": "resolved('prefer', prefer) in ('processes', 'threads', None) and resolved('require', require) in ('sharedmem', None)"
                              " and not " + CONTRADICTION,
            "no_config_write": "n_events('tlocal-write') == 0",
        },
        exsures={"ValueError": {"only_invalid": "not (resolved('prefer', prefer) in ('processes', 'threads', None)) or "
                                                 "not (resolved('require', require) in ('sharedmem', None)) or "
                                                 + CONTRADICTION}},
    )
    p.add(gab)
    # The same function where multiprocessing is not available (JOBLIB_MULTIPROCESSING=0, or platforms without working semaphores): only the
    # thread-based and the sequential backends are registered and the default is 'threading'.  prefer='processes' is a hint that cannot be
    # followed there - it must not make the resolution fail.
    GLOB_NOMP = dict(GLOB_B, BACKENDS=PyDict({"threading": ClassRef("ThreadingBackend"), "sequential": ClassRef("SequentialBackend")}), DEFAULT_BACKEND="threading")
    gab_nomp = Contract(
        PAR, "_get_active_backend", variant="without-multiprocessing", props=["C17"], globals=GLOB_NOMP,
        setup=gab.setup, inline=set(gab.inline),
        params=dict(prefer=PREFER("prefer"), require=REQUIRE("require"), verbose=INT),
        ensures={k: v for k, v in gab.ensures.items() if k != "prefer_processes_hint"},
        exsures=gab.exsures,
    )
    p.add(gab_nomp)
    gab.ensures["config_passthrough"] = ("all(cfg_same(result[1], k) for k in ('verbose', 'temp_folder', 'max_nbytes', 'mmap_mode', 'prefer', 'require', 'backend'))"
                                          " and (cfg_same(result[1], 'n_jobs') or result[1]['n_jobs'] == 1)")
    gab_nomp.ensures["config_passthrough"] = gab.ensures["config_passthrough"]
    gab.ensures["n_jobs_forced_only_with_thread_fallback"] = (
        "implies(not cfg_same(result[1], 'n_jobs'), isinstance(result[0], ThreadingBackend) and not same_obj(result[0], ctx_backend())"
        " and (resolved('require', require) == 'sharedmem' or resolved('prefer', prefer) == 'threads'))")

    def cfg_same(interp, cfg, k):
        old = interp.ctx.ghost["TL0"].attrs.get("config")
        oldv = old.d[k] if old is not None else SENT_B[k]
        return ops.identical(cfg.d[k], oldv)

    p.spec_funcs["cfg_same"] = cfg_same

    def gab_returns(interp, env):
        # modular result of _get_active_backend: some backend (the context's one or a fresh built-in one) and some
        # config dict; the contract's ensures (assumed next) select which
        ctx = interp.ctx
        cb = p.spec_funcs["ctx_backend"](interp)
        from pyvc.values import Alternatives
        opts = [mk_backend(interp, c) for c in ("ThreadingBackend", "LokyBackend", "SequentialBackend", "MultiprocessingBackend")]
        opts += [cb] if cb is not None else []
        old = ctx.ghost["TL0"].attrs.get("config")
        out = []
        for b in opts:
            for forced in (False, True):
                cfg = PyDict(dict(old.d if old is not None else SENT_B))
                if forced:
                    cfg.d["n_jobs"] = 1
                out.append((b, cfg))
        return Alternatives(out)

    gab.returns = gab_returns

    # ------------------------------------------------------------------ Parallel.__init__ (two families of inputs)
    misc = {
        "mp": lambda interp: Opaque("mp", None),
        "memstr_to_bytes": lambda interp: _Fn(lambda i, a, k: INT.fresh(i.ctx, "memstr")),
        "uuid4": lambda interp: _Fn(lambda i, a, k: Opaque("uuid", None, hex=STR.fresh(i.ctx, "hex"))),
    }
    p.models["mp.get_context"] = lambda i, r, a, k: Opaque("mpctx", None)
    p.models["threading.RLock"] = lambda i, a, k: Opaque("lock", None)
    p.models["collections.deque"] = lambda i, a, k: Opaque("deque", None)
    p.models["queue.Queue"] = lambda i, a, k: Opaque("queue", None)
    p.models["builtin:set"] = lambda i, a, k: Opaque("set", None)
    GLOB_P = dict(GLOB_B)
    GLOB_P.update(misc)

    def tlocal_v1(interp):
        ctx = interp.ctx
        o = Opaque("tlocal", "_backend")
        if ctx.choose(2, "tlocal-has-config") == 1:
            d = dict(SENT_B)
            d["backend"] = ctx_backend_kind(interp)
            d["prefer"] = OneOf(SENT_B["prefer"], "threads", "processes").fresh(ctx, "ctx_prefer")
            d["require"] = OneOf(SENT_B["require"], "sharedmem").fresh(ctx, "ctx_require")
            o.attrs["config"] = PyDict(d)
        else:
            o.attrs["hasattr"] = {"config": False}
        ctx.ghost["TL"] = o
        ctx.ghost["TL0"] = Opaque("tlocal", "_backend0", **({"config": o.attrs["config"].clone()} if "config" in o.attrs else {}))
        return o

    def tlocal_keys(keys):
        def mk(interp):
            ctx = interp.ctx
            o = Opaque("tlocal", "_backend")
            if ctx.choose(2, "tlocal-has-config") == 1:
                d = dict(SENT_B)
                for k in keys:
                    d[k] = OneOf(SENT_B[k], INT if k in ("n_jobs", "verbose", "max_nbytes") else STR).fresh(ctx, "ctx_" + k)
                o.attrs["config"] = PyDict(d)
            else:
                o.attrs["hasattr"] = {"config": False}
            ctx.ghost["TL"] = o
            ctx.ghost["TL0"] = Opaque("tlocal", "_backend0", **({"config": o.attrs["config"].clone()} if "config" in o.attrs else {}))
            return o
        return mk

    G1 = dict(GLOB_P)
    G1["_backend"] = tlocal_v1
    INL = {"__init__", "_get_config_param", "supports_return_generator"}
    touch = lambda interp, env: interp.global_lookup("_backend", env.module)

    def explicit_backend(interp):
        k = interp.ctx.choose(7, "backend-arg")
        return [SENT_B["backend"], None, "threading", "loky", "multiprocessing", "nosuch", None][k] if k < 6 else mk_backend(interp, "LokyBackend", level=Opt(INT).fresh(interp.ctx, "blevel"))

    p.spec_funcs["cls_of"] = lambda interp, name: {"threading": "ThreadingBackend", "loky": "LokyBackend", "multiprocessing": "MultiprocessingBackend"}.get(name)
    p.spec_funcs["is_cls"] = lambda interp, obj, cname: isinstance(obj, SObj) and obj.cls == cname

    p.add(Contract(
        PAR, "Parallel.__init__", variant="backend-choice", props=["C17"], globals=G1, setup=touch, inline=INL,
        params=dict(self=ObjOf("Parallel"), n_jobs=SENT_B["n_jobs"], backend=explicit_backend, return_as="list",
                    verbose=SENT_B["verbose"], prefer=OneOf(SENT_B["prefer"], "threads"),
                    require=OneOf(SENT_B["require"], "sharedmem", None), backend_kwargs=PyDict({})),
        ensures={
            "sharedmem_always_thread_based": "implies(resolved('require', require) == 'sharedmem', shm(self._backend) is True)",
            "explicit_name_wins_over_prefer": "implies(isinstance(backend, str), is_cls(self._backend, cls_of(backend)))",
            "explicit_instance_is_used": "implies(is_cls(backend, 'LokyBackend'), same_obj(self._backend, backend))",
            "context_backend_used_when_unset": "implies((backend is None or is_default(backend, 'backend')) and ctx_backend() is not None and "
                                               "not (resolved('require', require) == 'sharedmem' and not shm(ctx_backend())), same_obj(self._backend, ctx_backend()))",
            "no_config_write": "n_events('tlocal-write') == 0",
        },
        exsures={"ValueError": {"only_documented": "backend == 'nosuch' or (resolved('require', require) == 'sharedmem' and "
                                                   "(resolved('prefer', prefer) == 'processes' or (backend is not None and not is_default(backend, 'backend'))))"}},
    ))
    p.spec_funcs["is_default"] = lambda interp, v, k: v is SENT_B[k]

    def res_or_backend_default(interp, key, param, self_obj):
        v = resolved(interp, key, param if param is not None or key != "n_jobs" else SENT_B["n_jobs"])
        if key == "n_jobs" and v is None:
            return interp.getattr(self_obj.fields["_backend"], "default_n_jobs", None)
        return v

    p.spec_funcs["res2"] = res_or_backend_default
    ENS2 = {
        "n_jobs": ("n_jobs_priority", "self.n_jobs == res2('n_jobs', n_jobs, self)"),
        "verbose": ("verbose_priority", "self.verbose == resolved('verbose', verbose)"),
        "max_nbytes": ("max_nbytes_priority", "implies(not isinstance(resolved('max_nbytes', max_nbytes), str), self._backend_kwargs['max_nbytes'] is resolved('max_nbytes', max_nbytes))"),
        "temp_folder": ("temp_folder_priority", "self._backend_kwargs['temp_folder'] is resolved('temp_folder', temp_folder)"),
        "mmap_mode": ("mmap_mode_priority", "self._backend_kwargs['mmap_mode'] is resolved('mmap_mode', mmap_mode)"),
    }
    EXPL = {"n_jobs": OneOf(SENT_B["n_jobs"], None, INT), "verbose": OneOf(SENT_B["verbose"], INT),
            "max_nbytes": OneOf(SENT_B["max_nbytes"], None, INT), "temp_folder": OneOf(SENT_B["temp_folder"], STR),
            "mmap_mode": OneOf(SENT_B["mmap_mode"], STR)}
    for fam in (("n_jobs", "verbose"), ("max_nbytes",), ("temp_folder", "mmap_mode")):
        G2 = dict(GLOB_P)
        G2["_backend"] = tlocal_keys(fam)
        params = dict(self=ObjOf("Parallel"), backend=SENT_B["backend"], return_as="list", prefer=SENT_B["prefer"],
                      require=SENT_B["require"], backend_kwargs=PyDict({}))
        for k in ("n_jobs", "verbose", "max_nbytes", "temp_folder", "mmap_mode"):
            params[k] = EXPL[k] if k in fam else SENT_B[k]
        ens = {ENS2[k][0]: ENS2[k][1] for k in ENS2}
        ens["no_config_write"] = "n_events('tlocal-write') == 0"
        p.add(Contract(PAR, "Parallel.__init__", variant="settings-priority:" + "+".join(fam), props=["C17"], globals=G2,
                       setup=touch, inline=INL, params=params, ensures=ens))
    # ------------------------------------------------------------------ _check_backend (representation b)
    def cb_self(interp):
        ctx = interp.ctx
        o = SObj("parallel_config", {})
        parent = OneOf(SENT_B["backend"], "obj").fresh(ctx, "parent")
        d = dict(SENT_B)
        if parent == "obj":
            d["backend"] = mk_backend(interp, "LokyBackend", level=INT.fresh(ctx, "parent_level"))
        o.fields["old_parallel_config"] = PyDict(d)
        return o

    def cb_backend(interp):
        # ... or None: the documented default of parallel_config / parallel_backend ("backend: str or ParallelBackendBase instance,
        # default=None"; the error message speaks of "backend is not None") - the same as leaving it out
        k = interp.ctx.choose(6, "backend-arg")
        if k == 5:
            return None
        if k == 4:
            b = mk_backend(interp, "ThreadingBackend", level=Opt(INT).fresh(interp.ctx, "blevel"))
            b.fields["supports_inner_max_num_threads"] = OneOf(False, True).fresh(interp.ctx, "simt")
            return b
        return [SENT_B["backend"], "threading", "loky", "nosuch"][k]

    p.spec_funcs["lvl"] = lambda interp, b: b.fields["nesting_level"] if isinstance(b, SObj) else None
    p.spec_funcs["parent_level"] = lambda interp, me: (lambda pb: 0 if pb is SENT_B["backend"] else pb.fields["nesting_level"])(me.fields["old_parallel_config"].d["backend"])
    GLOB_CB = dict(GLOB_B)
    GLOB_CB["EXTERNAL_BACKENDS"] = PyDict({})
    GLOB_CB["MAYBE_AVAILABLE_BACKENDS"] = frozenset()
    p.add(Contract(
        PAR, "parallel_config._check_backend", props=["C17"], globals=GLOB_CB, inline={"__init__"},
        params=dict(self=cb_self, backend=cb_backend, inner_max_num_threads=OneOf(None, INT), backend_params=OneOf(PyDict({}), PyDict({"x": 1}))),
        ensures={
            "unset_stays_unset": "implies(is_default(backend, 'backend'), result is backend)",
            "none_is_the_documented_spelling_of_unset": "implies(backend is None, is_default(result, 'backend'))",
            "name_gives_an_instance_of_that_backend": "implies(isinstance(backend, str), is_cls(result, cls_of(backend)))",
            "instance_is_kept": "implies(is_cls(backend, 'ThreadingBackend'), same_obj(result, backend))",
            "nesting_level_inherited_when_unset": "implies(not is_default(backend, 'backend') and backend is not None and (isinstance(backend, str) or old(lvl(backend)) is None), "
                                                  "result.nesting_level == parent_level(self))",
            "explicit_nesting_level_kept": "implies(is_cls(backend, 'ThreadingBackend') and old(lvl(backend)) is not None, result.nesting_level == old(lvl(backend)))",
        },
        exsures={"ValueError": {"documented": "backend == 'nosuch' or ((is_default(backend, 'backend') or backend is None) and (inner_max_num_threads is not None or len(backend_params) > 0)) "
                                              "or (is_cls(backend, 'ThreadingBackend') and len(backend_params) > 0)"},
                 "AssertionError": {"inner_threads_unsupported": "inner_max_num_threads is not None"},
                 "TypeError": {"backend_ctor_rejects_params": "len(backend_params) > 0"}},
    ))

    # n_jobs from the context together with a hint/constraint given to Parallel: strict priority (known finding K6)
    G3 = dict(GLOB_P)
    G3["_backend"] = tlocal_keys(("n_jobs",))
    p.spec_funcs["forced_n_jobs"] = lambda interp: ops.mk_bool(ops.b_not(cfg_same(interp, interp.ctx.ghost["ret__get_active_backend"][1], "n_jobs")))
    p.add(Contract(
        PAR, "Parallel.__init__", variant="n_jobs-with-hints", props=["C17"], globals=G3, setup=touch, inline=INL,
        params=dict(self=ObjOf("Parallel"), n_jobs=OneOf(SENT_B["n_jobs"], INT), backend=SENT_B["backend"], return_as="list",
                    verbose=SENT_B["verbose"], prefer=OneOf(SENT_B["prefer"], "threads"), require=OneOf(SENT_B["require"], "sharedmem"),
                    backend_kwargs=PyDict({})),
        ensures={
            "n_jobs_priority": "self.n_jobs == res2('n_jobs', n_jobs, self)",
            "n_jobs_priority_outside_K6": "implies(not (is_default(n_jobs, 'n_jobs') and forced_n_jobs()), self.n_jobs == res2('n_jobs', n_jobs, self))",
            "K6_value": "implies(is_default(n_jobs, 'n_jobs') and forced_n_jobs(), self.n_jobs == 1)",
        },
    ))
    return p
