"""C17 (temp_folder) - joblib/executor.py: which arguments decide whether loky's reusable executor is re-used.

parallel_config / Parallel(temp_folder=...) reach MemmappingExecutor.get_memmapping_executor as a keyword.  The executor keeps the
TemporaryResourcesManager it was created with: a re-used executor stores its temporary memmaps where the FIRST call said.  The property
wants an explicit or context value to win over history: two calls that name different folders must not share a manager.

Client program contracts/lemmas/c17_executor_reuse.py calls the real function twice (inlined); loky's get_reusable_executor is summarised:
it returns the previous executor exactly when `reuse` is true and one exists (its other reasons to start a new one - changed n_jobs,
broken executor - only make re-use rarer)."""
import os

from pyvc.contracts import Contract, SourceModule
from pyvc.interp import Closure, Env
from pyvc.pack import Pack
from pyvc.values import INT, STR, ClassRef, OneOf, Opaque, OpaqueOf, Opt, PyDict

from .common import install_common

EX = "joblib/executor.py"
LEMMA = os.path.join(os.path.dirname(os.path.abspath(__file__)), "lemmas", "c17_executor_reuse.py")


def build():
    p = Pack("EXE", files=[EX])
    install_common(p)

    def manager(interp, args, kwargs):
        interp.ctx.events.append(("manager", args[0]))
        return Opaque("tmpmanager", None, folder=args[0], resolve_temp_folder_name=Opaque("boundmethod", None))

    def reducers(interp, args, kwargs):
        return (PyDict({}), PyDict({}))

    def get_reusable(interp, recv, args, kwargs):
        g = interp.ctx.ghost
        prev = g.get("EXECUTOR")
        interp.ctx.events.append(("get_reusable_executor", kwargs.get("reuse")))
        reuse = kwargs.get("reuse")
        if prev is not None and reuse is True:
            return (prev, True)
        if prev is not None and reuse is not False:
            raise Exception("symbolic reuse flag")
        e = Opaque("executor", None)
        g["EXECUTOR"] = e
        return (e, False)

    p.models["super.get_reusable_executor"] = get_reusable
    p.models["tmpmanager.register_new_context"] = lambda i, r, a, k: None
    def folder(interp):
        o = Opaque("folder", interp.ctx.fresh_name("folder"))
        interp.ctx.ghost.setdefault("F1", o)
        return o

    p.spec_funcs["same_obj"] = lambda interp, a, b: a is b
    p.add(Contract(
        LEMMA, "two_calls", props=["C17"],
        globals={"get_memmapping_executor": lambda i: Closure(SourceModule.get(EX).funcs["get_memmapping_executor"], Env(SourceModule.get(EX)), SourceModule.get(EX)),
                 "TemporaryResourcesManager": lambda i: Opaque("fn", None, fn=manager), "get_memmapping_reducers": lambda i: Opaque("fn", None, fn=reducers)},
        inline={"get_memmapping_executor", "MemmappingExecutor.get_memmapping_executor"},
        # the second call names another folder, or the same one again
        params=dict(n_jobs=INT, folder1=folder, folder2=lambda interp: folder(interp) if interp.ctx.choose(2, "same-folder-again") == 0 else interp.ctx.ghost["F1"],
                    ctx1=OneOf(None, STR), ctx2=OneOf(None, STR)),
        ensures={"the_second_call_stores_its_temporaries_where_it_said": "same_obj(result[1]._temp_folder_manager.folder, folder2)",
                 "the_first_call_too": "same_obj(result[0]._temp_folder_manager.folder, folder1) or same_obj(result[0], result[1])"},
    ))
    p.models["fn.__call__"] = lambda interp, fv, args, kwargs: fv.attrs["fn"](interp, args, kwargs)
    return p
