#!/bin/bash
# Builds the overlay environment with numpy (absent from /venv) for the bounded native C19 check. Offline: wheelhouse only.
cd "$(dirname "$0")"
if [ -x .venv_np/bin/python ] && .venv_np/bin/python -c "import numpy, joblib" 2>/dev/null; then echo "overlay venv present"; exit 0; fi
rm -rf .venv_np
/venv/bin/python -m venv .venv_np || exit 0
.venv_np/bin/pip install -q --no-index --find-links /opt/veriftools/wheels numpy 2>&1 | tail -2
SP=$(.venv_np/bin/python -c "import sysconfig; print(sysconfig.get_paths()['purelib'])")
echo "import site; site.addsitedir('/venv/lib/python3.12/site-packages')" > "$SP/_overlay.pth"
.venv_np/bin/python -c "import numpy, joblib; print('overlay ok: numpy', numpy.__version__)" || echo "overlay venv could not be built (C19 native check will be skipped)"
exit 0
