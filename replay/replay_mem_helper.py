"""Helper importable by the crash children of replay/mem.py: defines a function from source in a synthetic module with a real file."""
import os
import textwrap

_n = [1000]


def define(directory, src, name="f", modname="usermod"):
    path = os.path.join(directory, "%s_%d.py" % (modname, _n[0] + os.getpid()))
    _n[0] += 1
    with open(path, "w") as fh:
        fh.write(textwrap.dedent(src))
    ns = {"__name__": modname, "__file__": path}
    exec(compile(open(path).read(), path, "exec"), ns)
    import linecache
    linecache.checkcache(path)
    return ns[name]
