"""Native bounded stress for C11 on the REAL code: threads and processes sharing one cache directory, with concurrent
eviction (reduce_size) and clearing.  Every call must return the right value and raise nothing.  One JSON line.
Exceptions whose traceback ends in store_cached_func_code (known finding K4) are reported under "known"."""
import json
import multiprocessing as mp
import os
import random
import shutil
import sys
import tempfile
import threading
import traceback
import warnings

warnings.simplefilter("ignore")


def work(x):
    return ("v", x, x * x)


def worker(loc, seed, n, out):
    import joblib
    from joblib import Memory
    rnd = random.Random(seed)
    bad = []
    known = 0
    mem = f = None
    for attempt in range(50):
        try:
            mem = Memory(loc, verbose=0)
            f = mem.cache(work)  # MemorizedFunc.__init__ -> store_cached_func_code (K4 call site)
            break
        except OSError:
            if "store_cached_func_code" in traceback.format_exc() or "configure" in traceback.format_exc():
                known += 1
            else:
                bad.append(traceback.format_exc()[-600:])
    if f is None:
        out.put((bad + ["could not even create the cached function in 50 attempts"], known))
        return
    for i in range(n):
        x = rnd.randint(0, 6)
        try:
            op = rnd.random()
            if op < 0.11:
                # evicting / clearing users: the property is about the CALLS of cached functions made meanwhile;
                # two clearers racing each other may see FileNotFoundError from rm_subdirs (noted, not part of C11)
                if op < 0.08:
                    # eviction tolerates entries that vanish while it takes its inventory or deletes (get_items skips them, enforce_store_limits
                    # swallows OSError: both proved in the c18 pack) - an exception here is caused by the concurrent activity
                    mem.reduce_size(items_limit=rnd.choice([0, 2]))
                else:
                    try:
                        mem.clear(warn=False)
                    except OSError:
                        pass
            else:
                r = f(x)
                if r != work(x):
                    bad.append("wrong value %r for %r" % (r, x))
        except BaseException as e:  # noqa
            tb = traceback.format_exc()
            if "store_cached_func_code" in tb and isinstance(e, (FileNotFoundError, OSError)):
                known += 1
            else:
                bad.append("%r\n%s" % (e, tb[-600:]))
    out.put((bad, known))


def main(seed, nthreads, nprocs, n):
    root = tempfile.mkdtemp(prefix="pyvc_c11_")
    try:
        loc = os.path.join(root, "cache")
        q = mp.get_context("fork").Queue()
        procs = [mp.get_context("fork").Process(target=worker, args=(loc, seed * 100 + i, n, q)) for i in range(nprocs)]
        import queue as pyq
        tq = pyq.Queue()
        threads = [threading.Thread(target=worker, args=(loc, seed * 100 + 50 + i, n, tq)) for i in range(nthreads)]
        for p in procs:
            p.start()
        for t in threads:
            t.start()
        res = [q.get(timeout=600) for _ in procs]
        for t in threads:
            t.join(600)
        res += [tq.get(timeout=10) for _ in threads]
        for p in procs:
            p.join(60)
        bad = [b for r in res for b in r[0]]
        known = sum(r[1] for r in res)
        # one complete result, never a mixture: every output.pkl left behind loads to a correct value
        import joblib
        for dp, dn, fn in os.walk(loc):
            if "output.pkl" in fn:
                try:
                    v = joblib.load(os.path.join(dp, "output.pkl"))
                    if not (isinstance(v, tuple) and v == work(v[1])):
                        bad.append("entry %s holds %r" % (dp, v))
                except Exception as e:
                    bad.append("entry %s is not a complete result: %r" % (dp, e))
        cases = (nthreads + nprocs) * n
        if bad:
            return dict(violation=True, cases=cases, what=bad[0][:700], witness=dict(seed=seed, threads=nthreads, processes=nprocs, calls_each=n), known={"K4": known})
        return dict(violation=False, cases=cases, known={"K4": known})
    finally:
        shutil.rmtree(root, ignore_errors=True)


if __name__ == "__main__":
    out = main(int(sys.argv[1]), int(sys.argv[2]), int(sys.argv[3]), int(sys.argv[4]))
    print(json.dumps(out, default=repr))
    sys.exit(1 if out["violation"] else 0)
