"""Native bounded check / replay for C17 on the REAL code (run with /venv/bin/python). One JSON line."""
import itertools
import json
import sys
import threading


def search():
    import joblib.parallel as jp
    from joblib import Parallel, parallel_config
    from joblib._parallel_backends import LokyBackend, ThreadingBackend
    cases = 0
    d = jp.default_parallel_config

    def cur():
        return dict(getattr(jp._backend, "config", d))

    def same(a, b):
        return all(a[k] is b[k] for k in d)

    settings = [dict(), dict(n_jobs=3), dict(verbose=7, prefer="threads"), dict(backend="threading", n_jobs=2),
                dict(require="sharedmem"), dict(max_nbytes=10, mmap_mode="c", temp_folder="/x")]
    # scoping: nesting, exceptions, constructor failure
    for s1, s2 in itertools.product(settings, repeat=2):
        for boom in (False, True):
            cases += 1
            before = cur()
            try:
                with parallel_config(**s1):
                    mid = cur()
                    exp_mid = dict(before)
                    for k, v in s1.items():
                        if k != "backend":
                            exp_mid[k] = v
                    if any(mid[k] is not exp_mid[k] for k in d if k != "backend"):
                        return dict(violation=True, cases=cases, what="settings inside block %r are %r" % (s1, mid), witness=[s1])
                    try:
                        with parallel_config(**s2):
                            inner = cur()
                            for k in d:
                                if k == "backend":
                                    continue
                                want = s2[k] if k in s2 else mid[k]
                                if inner[k] is not want and inner[k] != want:
                                    return dict(violation=True, cases=cases, what="inner block: %s is %r, expected %r" % (k, inner[k], want), witness=[s1, s2])
                            if boom:
                                raise KeyError("x")
                    except KeyError:
                        pass
                    if not same(cur(), mid):
                        return dict(violation=True, cases=cases, what="after inner block the outer settings are not back", witness=[s1, s2, boom])
                    try:
                        parallel_config(backend="no-such-backend", n_jobs=99)
                    except ValueError:
                        pass
                    if not same(cur(), mid):
                        return dict(violation=True, cases=cases, what="failed constructor changed the settings", witness=[s1])
            finally:
                pass
            if not same(cur(), before):
                return dict(violation=True, cases=cases, what="settings not restored after the block", witness=[s1, s2, boom])
    # thread locality
    seen = {}
    with parallel_config(n_jobs=5, verbose=3):
        t = threading.Thread(target=lambda: seen.update(cur()))
        t.start()
        t.join()
    cases += 1
    if not same(seen, d):
        return dict(violation=True, cases=cases, what="another thread observed %r" % seen, witness="thread")
    # priority and sharedmem
    for ctx in settings:
        for expl in (dict(), dict(n_jobs=4), dict(verbose=2), dict(backend="loky"), dict(backend="threading"), dict(backend=LokyBackend()),
                     dict(require="sharedmem"), dict(prefer="threads"), dict(prefer="processes"), dict(max_nbytes=None), dict(mmap_mode="w+")):
            cases += 1
            with parallel_config(**ctx):
                try:
                    p = Parallel(**expl)
                except ValueError:
                    req = expl.get("require", ctx.get("require"))
                    if req == "sharedmem" and ("backend" in expl or expl.get("prefer") == "processes"):
                        continue
                    return dict(violation=True, cases=cases, what="unexpected ValueError", witness=[ctx, repr(expl)])
                req = expl.get("require", ctx.get("require"))
                if req == "sharedmem" and not getattr(p._backend, "supports_sharedmem", False):
                    return dict(violation=True, cases=cases, what="require='sharedmem' gave %s" % type(p._backend).__name__, witness=[ctx, repr(expl)])
                pref = expl.get("prefer", ctx.get("prefer"))
                if "n_jobs" in expl or "n_jobs" in ctx:
                    want = expl.get("n_jobs", ctx.get("n_jobs"))
                    # known finding K6: the thread fallback (prefer='threads' / require='sharedmem') replaces a context n_jobs by 1
                    k6 = "n_jobs" not in expl and (req == "sharedmem" or pref == "threads")
                    if p.n_jobs != want and not k6:
                        return dict(violation=True, cases=cases, what="n_jobs=%r, expected %r" % (p.n_jobs, want), witness=[ctx, repr(expl)])
                wv = expl.get("verbose", ctx.get("verbose", 0))
                if p.verbose != wv:
                    return dict(violation=True, cases=cases, what="verbose=%r expected %r" % (p.verbose, wv), witness=[ctx, repr(expl)])
                for k, dflt in (("mmap_mode", "r"), ("temp_folder", None)):
                    w = expl.get(k, ctx.get(k, dflt))
                    if p._backend_kwargs[k] != w:
                        return dict(violation=True, cases=cases, what="%s=%r expected %r" % (k, p._backend_kwargs[k], w), witness=[ctx, repr(expl)])
                if "backend" in ctx and "backend" not in expl and req != "sharedmem":
                    if type(p._backend).__name__ != "ThreadingBackend":
                        return dict(violation=True, cases=cases, what="context backend threading overridden: %s" % type(p._backend).__name__, witness=[ctx, repr(expl)])
                if isinstance(expl.get("backend"), str):
                    name = {"loky": "LokyBackend", "threading": "ThreadingBackend"}[expl["backend"]]
                    if type(p._backend).__name__ != name:
                        return dict(violation=True, cases=cases, what="explicit backend %s gave %s" % (expl["backend"], type(p._backend).__name__), witness=[ctx, repr(expl)])
    known = {}
    from joblib import Parallel as _P, parallel_config as _pc
    import joblib.parallel as _jp
    # K19 (recorded finding): a prefer='processes' hint that only comes from a context makes an explicit require='sharedmem' raise
    try:
        with _pc(prefer="processes"):
            _P(require="sharedmem")
        known["K19"] = False
    except ValueError as e:
        known["K19"] = "with parallel_config(prefer='processes'): Parallel(require='sharedmem') raises ValueError(%s)" % (str(e)[:60],)
    # K20 (recorded finding): blocks that are not exited in LIFO order (a block suspended inside a generator) leave settings behind
    def _gen():
        with _pc(n_jobs=3):
            yield 1
    had = hasattr(_jp._backend, "config")
    with _pc(backend="threading"):
        g = _gen()
        next(g)
    g.close()
    leaked = hasattr(_jp._backend, "config") and type(_P()._backend).__name__ == "ThreadingBackend"
    known["K20"] = "after closing a generator suspended inside an inner block, the outer block's backend is active outside any block" if leaked else False
    if hasattr(_jp._backend, "config") and not had:
        delattr(_jp._backend, "config")
    return dict(violation=False, cases=cases, known=known)


if __name__ == "__main__":
    try:
        out = search()
    except Exception as e:  # an escaping exception on valid use is a violation as well
        import traceback
        out = dict(violation=True, cases=0, what="exception %r" % (e,), witness=traceback.format_exc()[-600:])
    print(json.dumps(out, default=repr))
    sys.exit(1 if out["violation"] else 0)
