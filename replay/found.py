"""Native scenarios contributed by the audit sub-agents (replay/found/*.py): each script exits 1 with a line 'VIOLATION ...' when the
behaviour it demonstrates shows on the tree named by JOBLIB_ROOT (default /repo), 0 otherwise.

replay/found/MANIFEST.json maps every script to the properties it speaks about and to either
  "finding": "Kxx"  - a recorded finding: the script is its probe (reported under "known"), or
  "finding": null   - a defect that was repaired: the script must pass; a failure is a violation.
usage: found.py <PROPERTY> [quick|thorough]        One JSON line."""
import json
import os
import subprocess
import sys

HERE = os.path.dirname(os.path.abspath(__file__))


def main():
    prop = sys.argv[1]
    tier = sys.argv[2] if len(sys.argv) > 2 else "quick"
    man = json.load(open(os.path.join(HERE, "found", "MANIFEST.json")))
    env = dict(os.environ)
    env.setdefault("JOBLIB_ROOT", os.environ.get("PYVC_REPO") or "/repo")
    env["PYTHONPATH"] = env["JOBLIB_ROOT"] + os.pathsep + env.get("PYTHONPATH", "")  # scenarios that simply `import joblib`
    known, cases = {}, 0
    # the scenarios create temporary directories of their own and few of them clean up: give them a private TMPDIR and remove it afterwards
    import atexit
    import shutil
    import tempfile
    scratch = tempfile.mkdtemp(prefix="pyvc_found_")
    os.chmod(scratch, 0o755)  # (a scenario drops its privileges and must still reach what it created below)
    env["TMPDIR"] = scratch
    atexit.register(shutil.rmtree, scratch, True)
    for name, ent in sorted(man.items()):
        if prop not in ent["props"] or (ent.get("thorough_only") and tier != "thorough"):
            continue
        py = ent.get("python") or sys.executable
        if py == "np":  # scenarios that need numpy: the overlay venv built by setup.sh
            py = os.path.join(os.path.dirname(HERE), ".venv_np", "bin", "python")
        if not os.path.exists(py):
            continue
        cases += 1
        try:
            pr = subprocess.run([py, os.path.join(HERE, "found", name)], capture_output=True, text=True, timeout=ent.get("timeout", 300), env=env, cwd=scratch)
            rc, out = pr.returncode, pr.stdout + pr.stderr
        except subprocess.TimeoutExpired:
            rc, out = 124, "timeout"
        line = ([ln for ln in out.splitlines() if "VIOLATION" in ln] or [out.strip().splitlines()[-1] if out.strip() else ""])[-1][:300]
        if rc == 0:
            if ent.get("finding"):
                known.setdefault(ent["finding"], False)
            continue
        if rc != 1 or "VIOLATION" not in out:
            # a scenario that crashed (traceback: exit 1 without a VIOLATION line), hung or was killed decides nothing: harness error, never a violation
            print(json.dumps(dict(violation=False, error=True, cases=cases, what="scenario %s did not run (exit %s): %s" % (name, rc, line), witness=name)))
            return 3
        if ent.get("finding"):
            if not known.get(ent["finding"]):
                known[ent["finding"]] = "%s: %s" % (name, line)
        else:
            print(json.dumps(dict(violation=True, cases=cases, what="%s: %s" % (name, line), witness="replay/found/%s" % name, known=known)))
            return 1
    print(json.dumps(dict(violation=False, cases=cases, known=known)))
    return 0


if __name__ == "__main__":
    sys.exit(main())
