"""Native replay / bounded search for C18 on the REAL joblib code (run with /venv/bin/python).

search  : exhaustive small-scope enumeration of store inventories and limits against the property oracle
          (shortest LRU prefix meeting all limits).  Bounded: never counted as proof.
memstr  : bounded check of disk.memstr_to_bytes against exact integer arithmetic.
Prints one JSON line: {"violation": bool, "cases": n, "witness": ..., "what": ...}
"""
import datetime as real_datetime
import itertools
import json
import os
import sys
import types


def oracle(items, bytes_limit, items_limit, age_secs, now):
    """Expected eviction list: shortest prefix of the stable LRU order meeting every limit."""
    order = sorted(items, key=lambda it: it.last_access)  # stable
    n = len(order)
    total = sum(it.size for it in order)

    def meets(k):
        rest = order[k:]
        if bytes_limit is not None and sum(it.size for it in rest) > bytes_limit:
            return False
        if items_limit is not None and len(rest) > items_limit:
            return False
        if age_secs is not None:
            deadline = now - real_datetime.timedelta(seconds=age_secs)
            if any(not (it.last_access > deadline) for it in rest):
                return False
        return True

    for k in range(n + 1):
        if meets(k):
            return order[:k]
    return order


def search(max_n):
    import joblib._store_backends as sb
    from joblib._store_backends import CacheItemInfo, StoreBackendMixin

    base = real_datetime.datetime(2020, 1, 1)
    now = base + real_datetime.timedelta(seconds=3)

    class FakeDT(types.SimpleNamespace):
        pass

    class _DT(real_datetime.datetime):
        @classmethod
        def now(cls, tz=None):
            return now

    fake = types.ModuleType("datetime")
    fake.datetime = _DT
    fake.timedelta = real_datetime.timedelta
    sb.datetime = fake

    class Store(StoreBackendMixin):
        verbose = 0

        def __init__(self):
            self.items = []
            self.cleared = []
            self.raise_on = set()

        def get_items(self):
            return list(self.items)

        def clear_location(self, path):
            self.cleared.append(path)
            if path in self.raise_on:
                raise OSError("stale")

    cases = 0
    st = Store()
    sizes = (0, 1, 2)
    las = (0, 1, 2)
    try:
        for n in range(0, max_n + 1):
            for combo in itertools.product(itertools.product(sizes, las), repeat=n):
                items = [CacheItemInfo("p%d" % i, s, base + real_datetime.timedelta(seconds=la)) for i, (s, la) in enumerate(combo)]
                for bl in (None, 0, 1, 2, 3, 5, "1K"):
                    for il in (None, 0, 1, 2):
                        for age in (None, 0, 1, 2, 3):
                            st.items = items
                            cases += 1
                            age_td = None if age is None else real_datetime.timedelta(seconds=age)
                            got = st._get_items_to_delete(bl, il, age_td)
                            bl_eff = 1024 if bl == "1K" else bl
                            exp = oracle(items, bl_eff, il, age, now)
                            if [g.path for g in got] != [e.path for e in exp]:
                                return {"violation": True, "cases": cases, "what": "evicted %s, shortest LRU prefix is %s" % (
                                    [g.path for g in got], [e.path for e in exp]),
                                    "witness": {"items": [(i.path, i.size, (i.last_access - base).total_seconds()) for i in items],
                                                "bytes_limit": bl, "items_limit": il, "age_limit_s": age, "now_s": 3}}
                            # enforce_store_limits clears exactly those paths, OSError swallowed
                            st.cleared = []
                            st.raise_on = {e.path for e in exp[:1]}
                            st.enforce_store_limits(bl, il, age_td)
                            if st.cleared != [e.path for e in exp]:
                                return {"violation": True, "cases": cases, "what": "enforce_store_limits cleared %s, expected %s" % (st.cleared, [e.path for e in exp]),
                                        "witness": {"items": [(i.path, i.size, (i.last_access - base).total_seconds()) for i in items],
                                                    "bytes_limit": bl, "items_limit": il, "age_limit_s": age, "now_s": 3}}
    except Exception as e:  # an exception on a valid input is a violation too
        return {"violation": True, "cases": cases, "what": "exception %r" % (e,), "witness": {"n": n}}
    return {"violation": False, "cases": cases}


def memstr(limit):
    from joblib.disk import memstr_to_bytes
    cases = 0
    for num in list(range(0, limit)) + [10 ** 6, 2 ** 20 + 1, 123456789]:
        for k, u in enumerate("KMG", 1):
            cases += 1
            got = memstr_to_bytes("%d%s" % (num, u))
            if got != num * 1024 ** k:
                return {"violation": True, "cases": cases, "what": "memstr_to_bytes(%d%s)=%r" % (num, u, got), "witness": "%d%s" % (num, u)}
    for bad in ("", "K", "12", "1.4N", "fooG", "1 K ", "G1"):
        cases += 1
        try:
            r = memstr_to_bytes(bad)
        except ValueError:
            continue
        except Exception as e:
            if bad == "":
                # text[-1] on the empty string raises IndexError: outside the documented domain, reported as a note
                continue
            return {"violation": True, "cases": cases, "what": "memstr_to_bytes(%r) raised %r" % (bad, e), "witness": bad}
        return {"violation": True, "cases": cases, "what": "memstr_to_bytes(%r) returned %r" % (bad, r), "witness": bad}
    for frac, u, exp in (("1.5", "K", 1536), ("0.5", "M", 524288), ("2.25", "G", 2415919104)):
        cases += 1
        if memstr_to_bytes(frac + u) != exp:
            return {"violation": True, "cases": cases, "what": "memstr_to_bytes(%s%s)" % (frac, u), "witness": frac + u}
    return {"violation": False, "cases": cases}


E2E_CHILD = r'''
import datetime, json, os, sys, tempfile, time, warnings
warnings.simplefilter("ignore")
from joblib import Memory
root = tempfile.mkdtemp(prefix="pyvc_c18e_")
mem = Memory(root, verbose=0)
def f(i):
    return ("v", i, "x" * (100 * (i + 1)))
cf = mem.cache(f)
ages_h = json.loads(sys.argv[1])            # hours since the last access of entry i
limits = json.loads(sys.argv[2])
for i in range(len(ages_h)):
    cf(i)
now = time.time()
func_dir = os.path.join(root, "joblib", cf.func_id)
def entry_dir(i):
    return os.path.join(func_dir, cf._get_args_id(i))
for i, h in enumerate(ages_h):
    for name in os.listdir(entry_dir(i)):
        os.utime(os.path.join(entry_dir(i), name), (now - 3600.0 * h, now - 3600.0 * h))
if "orphan" in limits:
    # what a writer killed during its dump (or a result that failed to pickle) leaves: an entry directory with a partial temporary and no
    # output.pkl - it occupies the store and has to be counted and evicted like every entry
    i = limits["orphan"]
    os.unlink(os.path.join(entry_dir(i), "output.pkl"))
    with open(os.path.join(entry_dir(i), "output.pkl.thread-1-pid-1"), "wb") as fh:
        fh.write(b"x" * 50000)
    # (modification time BEFORE the access time: on a relatime mount listing the directory would otherwise refresh its access time)
    os.utime(entry_dir(i), (now - 3600.0 * ages_h[i], now - 3600.0 * ages_h[i] - 60.0))
kw = {}
if limits.get("bytes") is not None:
    kw["bytes_limit"] = limits["bytes"]
if limits.get("age_h") is not None:
    kw["age_limit"] = datetime.timedelta(hours=limits["age_h"])
if limits.get("items") is not None:
    kw["items_limit"] = limits["items"]
mem.reduce_size(**kw)
kept = [i for i in range(len(ages_h)) if os.path.isdir(entry_dir(i))]
if "orphan" in limits:
    # the orphan's place in the LRU order is the file system's business (on a relatime mount the inventory's own directory listing
    # refreshes the access time of a directory whose status just changed): report what the limits are about - how much is left
    left = sum(os.path.getsize(os.path.join(entry_dir(i), n)) for i in kept for n in os.listdir(entry_dir(i)))
    print(json.dumps({"entries_left": len(kept), "bytes_left": left}))
else:
    print(json.dumps(kept))
import shutil
shutil.rmtree(root, ignore_errors=True)
'''


def e2e():
    """Real files, real access times, the real inventory (FileSystemStoreBackend.get_items) and Memory.reduce_size, in fresh processes under
    several time zones: the age limit is about elapsed time, whatever the zone of the machine; the LRU order is the order of the access times."""
    import subprocess
    cases = 0
    ages = [5.0, 3.0, 2.0, 0.5, 0.17, 26.0]
    scenarios = [({"age_h": 1}, [3, 4]), ({"age_h": 4}, [1, 2, 3, 4]), ({"age_h": 30}, [0, 1, 2, 3, 4, 5]), ({"items": 2}, [3, 4]), ({"items": 4, "age_h": 2.5}, [2, 3, 4]),
                 # entry 0 (second oldest after entry 5) is an orphan of 50 kB: it counts as an item and its bytes count
                 ({"orphan": 0, "bytes": 20000}, "bytes_left <= 20000"), ({"orphan": 0, "items": 5}, "entries_left <= 5"), ({"orphan": 3, "items": 0}, "entries_left == 0")]
    for tz in ("UTC", "EST5", "JST-9", "Europe/Paris"):
        for limits, survivors in scenarios:
            cases += 1
            env = dict(os.environ, TZ=tz)
            pr = subprocess.run([sys.executable, "-c", E2E_CHILD, json.dumps(ages), json.dumps(limits)], capture_output=True, text=True, timeout=120, env=env)
            if pr.returncode != 0:
                return {"violation": True, "cases": cases, "what": "reduce_size(%r) under TZ=%s raised: %s" % (limits, tz, pr.stderr.strip().splitlines()[-1:] or pr.stderr[-300:]), "witness": {"TZ": tz, "limits": limits}}
            got = json.loads(pr.stdout.strip().splitlines()[-1])
            if isinstance(survivors, str):
                if not eval(survivors, {}, got):
                    return {"violation": True, "cases": cases, "what": "one entry directory holds a 50 kB temporary and no output.pkl (writer killed during its dump); after reduce_size(%r) the store holds %r: the limit %s is not met" % (
                        {k: v for k, v in limits.items() if k != "orphan"}, got, survivors), "witness": {"TZ": tz, "limits": limits}}
                continue
            if got != survivors:
                return {"violation": True, "cases": cases, "what": "entries last used %r hours ago, reduce_size(%r) under TZ=%s kept %r, the limits keep exactly %r" % (ages, limits, tz, got, survivors),
                        "witness": {"TZ": tz, "limits": limits, "hours_since_last_access": ages}}
    return {"violation": False, "cases": cases}


if __name__ == "__main__":
    cmd = sys.argv[1]
    if cmd == "search":
        out = search(int(sys.argv[2]))
    elif cmd == "e2e":
        out = e2e()
    else:
        out = memstr(int(sys.argv[2]))
    print(json.dumps(out))
    sys.exit(1 if out["violation"] else 0)
