"""Native bounded check for C19 with numpy (overlay venv): arrays over a dtype x shape x layout grid, alone and nested,
through dump/load under every compressor and through mmap_mode; alignment and file-handle position checks.
One JSON line."""
import io
import itertools
import json
import os
import shutil
import sys
import tempfile
import warnings

warnings.simplefilter("ignore")


def same(a, b):
    import numpy as np
    if type(a) is not type(b) and not (isinstance(a, np.memmap) or isinstance(b, np.memmap)):
        return False
    if a.dtype != b.dtype or a.shape != b.shape:
        return False
    if a.dtype.hasobject:
        return all(x == y for x, y in zip(a.ravel(), b.ravel()))
    if a.dtype.itemsize == 0:
        return True  # no element bytes: memory order has no meaning (numpy reports arbitrary contiguity flags with all strides 0)
    return a.tobytes() == np.asarray(b).tobytes() and (a.flags.f_contiguous and not a.flags.c_contiguous) == (b.flags.f_contiguous and not b.flags.c_contiguous)


def arrays(np, rnd):
    dtypes = ["u1", "<i4", ">i4", "<f8", ">f8", "c16", "?", "S3", "U2", "M8[s]", [("a", "<i2"), ("b", ">f4")], "O", "V0", []]
    shapes = [(), (0,), (1,), (7,), (3, 4), (2, 0, 3), (2, 3, 4)]
    for dt, sh in itertools.product(dtypes, shapes):
        n = int(np.prod(sh)) if sh else 1
        if dt == "O":
            base = np.array([("o%d" % i, i) for i in range(n)] + [None], dtype=object)[:n] if n else np.array([], dtype=object)
            base = np.empty(n, dtype=object)
            for i in range(n):
                base[i] = ("o", i)
        elif dt == "V0" or dt == []:
            base = np.zeros(n, dtype=np.dtype(dt))  # item size 0 (was K9)
        elif isinstance(dt, list):
            base = np.zeros(n, dtype=dt)
            base["a"] = np.arange(n)
            base["b"] = np.arange(n) * 0.5
        elif dt in ("S3", "U2"):
            base = np.array([("x%d" % i)[:2] for i in range(n)], dtype=dt)
        elif dt == "M8[s]":
            base = (np.arange(n) * 1000).astype(dt)
        elif dt == "?":
            base = (np.arange(n) % 2).astype(dt)
        else:
            base = (np.arange(n) * 3 + 1).astype(dt)
        a = base.reshape(sh)
        yield a
        if len(sh) >= 2:
            yield np.asfortranarray(a)
            yield a[..., ::2] if a.shape[-1] > 1 else a


def subclass_arrays(np):
    import warnings as _w
    with _w.catch_warnings():
        _w.simplefilter("ignore")
        yield np.matrix([[1, 2, 3], [4, 5, 6]], dtype="<i4")
        yield np.matrix([[0.5]], dtype="<f8")


class TaggedArray(object):
    """placeholder, replaced by a real ndarray subclass in stateful_subclass_arrays (numpy is imported lazily in this harness)"""


def stateful_subclass_arrays(np):
    """ndarray subclasses whose state is more than (dtype, shape, bytes): masked arrays, a user subclass with an attribute."""
    global TaggedArray

    class TaggedArray(np.ndarray):  # noqa: F811
        def __new__(cls, data, tag=None):
            obj = np.asarray(data).view(cls)
            obj.tag = tag
            return obj

        def __array_finalize__(self, obj):
            self.tag = getattr(obj, "tag", None)

        def __reduce__(self):
            f, args, state = super().__reduce__()
            return f, args, (state, self.tag)

        def __setstate__(self, state):
            super().__setstate__(state[0])
            self.tag = state[1]
    TaggedArray.__module__ = "__main__"
    TaggedArray.__qualname__ = "TaggedArray"
    import __main__
    __main__.TaggedArray = TaggedArray
    yield "masked", np.ma.masked_array(np.arange(6, dtype="<i4").reshape(2, 3), mask=[[0, 1, 0], [1, 0, 0]], fill_value=-7)
    yield "masked-float", np.ma.masked_array(np.arange(5, dtype="<f8"), mask=[1, 0, 0, 0, 1])
    yield "tagged", TaggedArray(np.arange(4, dtype="<u2"), tag={"unit": "m"})


def same_stateful(np, a, b):
    if type(a) is not type(b) or a.dtype != b.dtype or a.shape != b.shape:
        return False
    if isinstance(a, np.ma.MaskedArray):
        return (np.ma.getmaskarray(a).tobytes() == np.ma.getmaskarray(b).tobytes() and a.fill_value == b.fill_value
                and np.asarray(a.data).tobytes() == np.asarray(b.data).tobytes())
    return np.asarray(a).tobytes() == np.asarray(b).tobytes() and getattr(a, "tag", None) == getattr(b, "tag", None)


def main(budget):
    import numpy as np
    import joblib
    import random
    rnd = random.Random(0)
    cases = 0
    known = {}
    root = tempfile.mkdtemp(prefix="pyvc_c19_")
    comps = [0, ("zlib", 3), ("gzip", 1), ("bz2", 3), ("lzma", 1), ("xz", 1)] if budget == "large" else [0, ("zlib", 3), ("xz", 1)]
    try:
        # subclasses with state of their own (mask, fill value, attributes): "any ... subclass ... come back identical"
        for label, a in stateful_subclass_arrays(np):
            for comp in comps:
                for value, name in ((a, "alone"), ({"k": [a, "s"]}, "nested")):
                    cases += 1
                    path = os.path.join(root, "s.pkl")
                    joblib.dump(value, path, compress=comp)
                    got = joblib.load(path)
                    g = got if name == "alone" else got["k"][0]
                    if not same_stateful(np, a, g):
                        return dict(violation=True, cases=cases, what="round trip changed an ndarray subclass with state of its own (%s, %s): %r -> %r" % (label, name, a, g),
                                    witness=dict(subclass=type(a).__name__, compress=repr(comp)))
        # items wider than the reader's 256 KiB buffer (long fixed-width strings, records with a big sub-array field)
        wide = [np.array([b"a" * 300000, b"b" * 10], dtype="S300000"), np.zeros(2, dtype=[("id", "<i4"), ("blob", "u1", (270000,))]), np.zeros((), dtype="V262145")]
        for a in wide:
            for comp in comps[:2]:
                cases += 1
                path = os.path.join(root, "w.pkl")
                joblib.dump({"k": a}, path, compress=comp)
                g = joblib.load(path)["k"]
                if not same(a, g):
                    return dict(violation=True, cases=cases, what="round trip changed an array whose items are wider than the read buffer (item size %d)" % a.dtype.itemsize,
                                witness=dict(dtype=str(a.dtype)[:60], shape=a.shape, compress=repr(comp)))
        for a in itertools.chain(arrays(np, rnd), subclass_arrays(np)):
            for comp in comps:
                cases += 1
                path = os.path.join(root, "a.pkl")
                for value, name in ((a, "alone"), ({"k": [a, "s", (a, 2)]}, "nested")):
                    joblib.dump(value, path, compress=comp)
                    # K7 (known finding): by default load() converts non-native-endian arrays to native byte order;
                    # the comparison below is made with that conversion switched off, K7 is probed separately
                    got = joblib.load(path, ensure_native_byte_order=False)
                    g = got if name == "alone" else got["k"][0]
                    if not same(a, g):
                        return dict(violation=True, cases=cases, what="round trip changed the array (%s): %r -> %r" % (name, (a.dtype, a.shape, a.flags.f_contiguous), (g.dtype, g.shape, g.flags.f_contiguous)),
                                    witness=dict(dtype=str(a.dtype), shape=a.shape, compress=repr(comp)))
                    # ... and with the default conversion: only an array whose dtype is ENTIRELY of the foreign byte order may be
                    # converted (K7), and then its values are preserved; native and mixed-endian structured arrays stay bit-exact
                    gd = joblib.load(path)
                    gd = gd if name == "alone" else gd["k"][0]
                    foreign = ">" if sys.byteorder == "little" else "<"
                    if a.dtype.fields:
                        orders = {f[0].byteorder for f in a.dtype.fields.values()}
                        wholly_foreign = orders == {foreign}
                    else:
                        wholly_foreign = a.dtype.byteorder == foreign
                    if not wholly_foreign:
                        if not same(a, gd):
                            return dict(violation=True, cases=cases, what="default load changed an array that is not of foreign byte order (%s): dtype %s -> %s, equal values: %r"
                                        % (name, a.dtype, gd.dtype, bool(np.array_equal(a, gd)) if not a.dtype.hasobject else None),
                                        witness=dict(dtype=str(a.dtype), shape=a.shape, compress=repr(comp)))
                    elif gd.shape != a.shape or not np.array_equal(a, gd):
                        return dict(violation=True, cases=cases, what="default load of a foreign-endian array changed its values (%s)" % name,
                                    witness=dict(dtype=str(a.dtype), shape=a.shape, compress=repr(comp)))
                    if name == "nested" and not same(a, got["k"][2][0]):
                        return dict(violation=True, cases=cases, what="second occurrence in the container differs", witness=dict(dtype=str(a.dtype), shape=a.shape))
            if not a.dtype.hasobject:
                for mode in ("r", "r+", "c", "w+", "readonly", "readwrite", "copyonwrite", "write"):  # joblib's modes and numpy's long spellings
                    cases += 1
                    path = os.path.join(root, "m.pkl")
                    joblib.dump({"pad": "x" * rnd.randint(0, 40), "arr": a, "after": [1, 2]}, path)
                    before = open(path, "rb").read()
                    got = joblib.load(path, mmap_mode=mode)
                    m = got["arr"]
                    if not same(a, m) or got["after"] != [1, 2]:
                        return dict(violation=True, cases=cases, what="memmapped load differs", witness=dict(dtype=str(a.dtype), shape=a.shape, mode=mode))
                    if isinstance(m, np.memmap) and m.size and (m.offset % 16 != 0 or m.ctypes.data % 16 != 0):
                        return dict(violation=True, cases=cases, what="memmap not 16-byte aligned (offset %d)" % m.offset, witness=dict(dtype=str(a.dtype), shape=a.shape, mode=mode))
                    del got, m
                    if open(path, "rb").read() != before:
                        return dict(violation=True, cases=cases, what="loading with mmap_mode=%r modified the file" % mode, witness=dict(dtype=str(a.dtype), shape=a.shape))
        # views on a user memmap handed to workers: the pickling reduction used by the process backends (forward and backward
        # reducers call _reduce_memmap_backed) must rebuild exactly the same elements.  Each view runs in a child process because a
        # wrong reconstruction can read outside the mapping.
        import subprocess
        child = (
            "import sys, os, numpy as np\n"
            "from joblib._memmapping_reducer import _reduce_memmap_backed, _get_backing_memmap\n"
            "fn, order, expr = sys.argv[1], sys.argv[2], sys.argv[3]\n"
            "m = np.memmap(fn, dtype=np.int64, shape=(5, 6), order=order, mode='r+')\n"
            "a = eval(expr)\n"
            "bm = _get_backing_memmap(a)\n"
            "if bm is None: print('SAME (a copy, not a view)'); sys.exit(0)\n"
            "f, args = _reduce_memmap_backed(a, bm)\n"
            "b = f(*args)\n"
            "ok = a.shape == b.shape and np.array_equal(np.asarray(a), np.asarray(b))\n"
            "print('SAME' if ok else 'DIFFERENT %r -> %r' % (np.asarray(a).ravel().tolist()[:8], np.asarray(b).ravel().tolist()[:8]))\n")
        exprs = ["m", "m.T", "m[1:]", "m[:, 1:4]", "m[::2]", "m[:, ::2]", "m[1:4, 2:5]", "m.T[1:]", "m.T[:, 1:3]", "m[2]", "m[:, 3]", "m[1:2, 2:3].reshape(())",
                 "m[::-1]", "m[:, ::-1]", "m[1:4, 4:1:-1]", "m.ravel(order='K')[::-1]", "m.T[::-1]", "m[3:0:-2, ::3]", "m.reshape(-1)[3:20].reshape(17)"]
        for order in ("C", "F"):
            fn = os.path.join(root, "user_%s.mmap" % order)
            mm = np.memmap(fn, dtype=np.int64, shape=(5, 6), order=order, mode="w+")
            mm[:] = np.arange(30).reshape(5, 6)
            mm.flush()
            del mm
            for expr in exprs:
                cases += 1
                pr = subprocess.run([sys.executable, "-c", child, fn, order, expr], capture_output=True, text=True, timeout=120)
                line = (pr.stdout.strip().splitlines() or [""])[-1]
                if pr.returncode != 0 or not line.startswith("SAME"):
                    what = ("view %s of a %s-ordered memmap is rebuilt with other elements in the worker: %s" % (expr, order, line)) if pr.returncode == 0 else \
                           ("rebuilding the view %s of a %s-ordered memmap crashed the process (exit code %d) %s" % (expr, order, pr.returncode, pr.stderr.strip().splitlines()[-1:]))
                    return dict(violation=True, cases=cases, what=what, witness=dict(memmap_order=order, view=expr, shape=[5, 6], dtype="int64"))
        # field views of PACKED structured memmaps: strides that are not multiples of the item size, elements not aligned to it
        child2 = (
            "import sys, os, numpy as np\n"
            "from joblib._memmapping_reducer import _reduce_memmap_backed, _get_backing_memmap\n"
            "fn, which, expr = sys.argv[1], sys.argv[2], sys.argv[3]\n"
            "dt = np.dtype([('b', '<i4'), ('a', 'u1')]) if which == 'ba' else np.dtype([('a', 'u1'), ('b', '<i4'), ('c', '<i2')])\n"
            "m = np.memmap(fn, dtype=dt, mode='r+')\n"
            "a = eval(expr)\n"
            "bm = _get_backing_memmap(a)\n"
            "f, args = _reduce_memmap_backed(a, bm)\n"
            "b = f(*args)\n"
            "ok = a.shape == b.shape and a.dtype == b.dtype and np.array_equal(np.asarray(a), np.asarray(b))\n"
            "print('SAME' if ok else 'DIFFERENT tail %r -> %r' % (np.asarray(a).ravel().tolist()[-3:], np.asarray(b).ravel().tolist()[-3:]))\n")
        for which, dt in (("ba", np.dtype([("b", "<i4"), ("a", "u1")])), ("abc", np.dtype([("a", "u1"), ("b", "<i4"), ("c", "<i2")]))):
            fn = os.path.join(root, "packed_%s.mmap" % which)
            mm = np.memmap(fn, dtype=dt, shape=(820,), mode="w+")
            mm["b"] = np.arange(1000, 1820)
            mm["a"] = np.arange(820) % 251
            mm.flush()
            del mm
            for expr in ("m['b']", "m['a']", "m['b'][1:]", "m['b'][::3]", "m[-1:]['b']") + (("m['c']", "m['c'][5:]") if which == "abc" else ()):
                cases += 1
                pr = subprocess.run([sys.executable, "-c", child2, fn, which, expr], capture_output=True, text=True, timeout=120)
                line = (pr.stdout.strip().splitlines() or [""])[-1]
                if pr.returncode != 0 or not line.startswith("SAME"):
                    what = ("field view %s of a packed structured memmap (%s) is rebuilt with other elements in the worker: %s" % (expr, dt, line)) if pr.returncode == 0 else \
                           ("rebuilding the field view %s of a packed structured memmap crashed (exit code %d) %s" % (expr, pr.returncode, pr.stderr.strip().splitlines()[-1:]))
                    return dict(violation=True, cases=cases, what=what, witness=dict(dtype=str(dt), view=expr, records=820))
        # automatic memmapping under every documented mmap_mode, None ("disable memmapping") included: the task sees the caller's values
        probe_modes = ("import numpy as np, json, warnings\n"
                       "warnings.simplefilter('ignore')\n"
                       "from joblib import Parallel, delayed\n"
                       "a = np.arange(10000, dtype='f8')\n"
                       "out = {}\n"
                       "for mode in (None, 'r', 'c', 'r+'):\n"
                       "    try:\n"
                       "        out[str(mode)] = [float(x) for x in Parallel(n_jobs=2, backend='loky', mmap_mode=mode, max_nbytes=100, timeout=60)(delayed(np.sum)(a) for _ in range(2))]\n"
                       "    except BaseException as e:\n"
                       "        out[str(mode)] = repr(e)[:120]\n"
                       "print(json.dumps(out))\n")
        cases += 4
        try:
            pr = subprocess.run([sys.executable, "-c", probe_modes], capture_output=True, text=True, timeout=240)
            res = json.loads(pr.stdout.strip().splitlines()[-1]) if pr.returncode == 0 and pr.stdout.strip() else {"?": pr.stderr[-200:]}
        except subprocess.TimeoutExpired:
            res = {"?": "no termination within 240 s"}
        want = [float(np.arange(10000, dtype="f8").sum())] * 2
        badm = {k: v for k, v in res.items() if v != want}
        if badm:
            return dict(violation=True, cases=cases, what="automatic memmapping with max_nbytes=100: tasks did not see the array for mmap_mode %r" % (badm,), witness=badm)
        # K23 (recorded finding): automatic memmapping keys the temporary file of a large array by the array's identity; inside one
        # `with Parallel` block an array modified in place between two calls reaches the workers with its OLD contents
        probe = ("import numpy as np, json, warnings\n"
                 "warnings.simplefilter('ignore')\n"
                 "from joblib import Parallel, delayed\n"
                 "a = np.zeros(300000)\n"
                 "with Parallel(n_jobs=2, backend='loky', max_nbytes='1M') as p:\n"
                 "    first = p(delayed(np.sum)(a) for _ in range(2))\n"
                 "    a += 1\n"
                 "    second = p(delayed(np.sum)(a) for _ in range(2))\n"
                 "print(json.dumps([float(first[0]), float(second[0]), float(a.sum())]))\n")
        try:
            pr = subprocess.run([sys.executable, "-c", probe], capture_output=True, text=True, timeout=180)
            vals = json.loads(pr.stdout.strip().splitlines()[-1]) if pr.returncode == 0 and pr.stdout.strip() else None
        except Exception:
            vals = None
        known["K23"] = ("second call in one with-block after `a += 1`: workers summed %r, the caller's array sums to %r" % (vals[1], vals[2])) if vals and vals[1] != vals[2] else False
        # K7 probe
        path = os.path.join(root, "k7.pkl")
        be = np.arange(4, dtype=">i4" if sys.byteorder == "little" else "<i4")
        joblib.dump(be, path)
        known["K7"] = joblib.load(path).dtype != be.dtype
        # file object targets and position after the payload
        cases += 1
        buf = io.BytesIO()
        a = np.arange(10, dtype="<f8")
        joblib.dump([a, "tail"], buf)
        buf.seek(0)
        out = joblib.load(buf)
        if not same(a, out[0]) or out[1] != "tail":
            return dict(violation=True, cases=cases, what="objects after an array are mis-read", witness="BytesIO")
    finally:
        shutil.rmtree(root, ignore_errors=True)
    return dict(violation=False, cases=cases, known=known)


if __name__ == "__main__":
    try:
        import numpy  # noqa
    except ImportError:
        print(json.dumps(dict(violation=False, cases=0, note="numpy overlay environment not available: bounded native C19 check skipped")))
        sys.exit(0)
    try:
        out = main(sys.argv[1] if len(sys.argv) > 1 else "small")
    except Exception as e:
        import traceback
        out = dict(violation=True, cases=0, what="exception %r" % (e,), witness=traceback.format_exc()[-700:])
    print(json.dumps(out, default=repr))
    sys.exit(1 if out["violation"] else 0)
