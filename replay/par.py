"""Native bounded checks for the dispatcher properties (C01, C04, C09, C16) on the REAL joblib.Parallel.
One JSON line.  Usage: par.py <C01|C04|C09|C16|all> <seed> <budget: small|large>"""
import itertools
import json
import random
import sys
import threading
import time
import warnings

warnings.simplefilter("ignore")
LOCK = threading.Lock()
RUNS = {}


def task(i, delay=0.0):
    if delay:
        time.sleep(delay)
    with LOCK:
        RUNS[i] = RUNS.get(i, 0) + 1
    return ("r", i)


def ptask(i, delay=0.0):
    import time as _t
    if delay:
        _t.sleep(delay)
    return ("r", i)


def failing(i, bad):
    if i == bad:
        raise KeyError("task-%d" % i, 42)
    time.sleep(0.002)
    return ("r", i)


class CountingInput:
    """Iterator that records how many items were taken, from which threads, and the maximum lead over completions."""

    def __init__(self, n, fn, done_counter, **kw):
        from joblib import delayed
        self.it = iter([delayed(fn)(i, **kw) for i in range(n)])
        self.taken = 0
        self.threads_inside = 0
        self.concurrent = False
        self.max_lead = 0
        self.done = done_counter
        self.after_stop = 0
        self.stopped = False

    def __iter__(self):
        return self

    def __next__(self):
        self.threads_inside += 1
        if self.threads_inside > 1:
            self.concurrent = True
        try:
            time.sleep(0.0005)
            v = next(self.it)
            self.taken += 1
            if self.stopped:
                self.after_stop += 1
            self.max_lead = max(self.max_lead, self.taken - self.done[0])
            return v
        finally:
            self.threads_inside -= 1


def c01(rnd, budget):
    from joblib import Parallel, delayed
    cases = 0
    backends = ["threading", "sequential"] + (["loky", "multiprocessing"] if budget == "large" else ["loky"])
    lengths = [0, 1, 2, 3, 7, 16, 33] if budget == "large" else [0, 1, 5, 17]
    for backend in backends:
        for n_jobs in (1, 2, 3):
            for batch_size in ("auto", 1, 2, 5):
                for pre in ("2 * n_jobs", "all", 1, "n_jobs", "0.25 * n_jobs", 0):
                    for ret in ("list", "generator"):
                        if backend in ("loky", "multiprocessing") and (rnd.random() < (0.7 if budget == "small" else 0.4)):
                            continue
                        if backend == "multiprocessing" and ret == "generator":
                            continue
                        n = rnd.choice(lengths)
                        cases += 1
                        RUNS.clear()
                        delays = [rnd.choice([0, 0, 0.001, 0.004]) for _ in range(n)]
                        try:
                            out = Parallel(n_jobs=n_jobs, backend=backend, batch_size=batch_size, pre_dispatch=pre, return_as=ret)(
                                delayed(task if backend in ("threading", "sequential") else ptask)(i, delays[i]) for i in range(n))
                            out = list(out)
                        except Exception as e:
                            return dict(violation=True, cases=cases, what="exception %r" % (e,), witness=dict(backend=backend, n_jobs=n_jobs, batch_size=batch_size, pre_dispatch=pre, return_as=ret, n=n))
                        exp = [("r", i) for i in range(n)]
                        if out != exp:
                            return dict(violation=True, cases=cases, what="results %r, sequential loop gives %r" % (out, exp),
                                        witness=dict(backend=backend, n_jobs=n_jobs, batch_size=batch_size, pre_dispatch=pre, return_as=ret, n=n))
                        if backend in ("threading", "sequential") and (sorted(RUNS) != list(range(n)) or any(v != 1 for v in RUNS.values())):
                            return dict(violation=True, cases=cases, what="tasks executed %r times" % (RUNS,), witness=dict(backend=backend, n_jobs=n_jobs, batch_size=batch_size, pre_dispatch=pre, n=n))
    return dict(violation=False, cases=cases)


def c04(rnd, budget):
    from joblib import Parallel, delayed
    cases = 0
    for backend in ("threading", "loky") if budget == "large" else ("threading",):
        for managed in (False, True):
            for ret in ("list", "generator"):
                for bad in (0, 3, 11, 19):
                    cases += 1
                    p = Parallel(n_jobs=2, backend=backend, batch_size=rnd.choice([1, 2, "auto"]), pre_dispatch=rnd.choice([2, 4, "all"]), return_as=ret)
                    ctxm = p if managed else None
                    if managed:
                        p.__enter__()
                    try:
                        try:
                            list(p(delayed(failing)(i, bad) for i in range(20)))
                            return dict(violation=True, cases=cases, what="failing task did not raise", witness=dict(backend=backend, bad=bad, managed=managed, ret=ret))
                        except KeyError as e:
                            if e.args != ("task-%d" % bad, 42):
                                return dict(violation=True, cases=cases, what="exception args changed: %r" % (e.args,), witness=dict(backend=backend, bad=bad))
                        except Exception as e:
                            return dict(violation=True, cases=cases, what="raised %r instead of the task's KeyError" % (e,), witness=dict(backend=backend, bad=bad, managed=managed, ret=ret))
                        out = list(p(delayed(ptask)(i) for i in range(9)))
                        if out != [("r", i) for i in range(9)]:
                            return dict(violation=True, cases=cases, what="call after a failed call returned %r" % (out,), witness=dict(backend=backend, bad=bad, managed=managed, ret=ret))
                    finally:
                        if managed:
                            p.__exit__(None, None, None)
    # a task may raise anything, also a BaseException that is not an Exception: same type and arguments in the caller, the call terminates,
    # the object stays usable (seeded change C04-threading-skips-traceback-wrapper: such a task killed the pool's worker thread, no callback
    # ever fired).  Run in a child process with a watchdog: a violation here is a hang.
    import subprocess
    child = (
        "import sys, json\n"
        "from joblib import Parallel, delayed\n"
        "class Custom(BaseException):\n"
        "    pass\n"
        "def boom(i, kind):\n"
        "    if i == 2:\n"
        "        raise {'exit': SystemExit, 'kbd': KeyboardInterrupt, 'custom': Custom}[kind]('stop', i)\n"
        "    return i\n"
        "out = []\n"
        "for n_jobs in (1, 2):\n"
        "    for kind, cls in (('exit', SystemExit), ('kbd', KeyboardInterrupt), ('custom', Custom)):\n"
        "        p = Parallel(n_jobs=n_jobs, backend='threading')\n"
        "        try:\n"
        "            p(delayed(boom)(i, kind) for i in range(5))\n"
        "            out.append([n_jobs, kind, 'returned'])\n"
        "        except BaseException as e:\n"
        "            out.append([n_jobs, kind, 'ok' if type(e) is cls and e.args == ('stop', 2) else repr(e)])\n"
        "        again = p(delayed(abs)(-i) for i in range(3))\n"
        "        if again != [0, 1, 2]:\n"
        "            out.append([n_jobs, kind, 'reuse gave %r' % (again,)])\n"
        "print(json.dumps(out))\n")
    cases += 6
    try:
        pr = subprocess.run([sys.executable, "-c", child], capture_output=True, text=True, timeout=30)
        res = json.loads(pr.stdout.strip().splitlines()[-1]) if pr.returncode == 0 and pr.stdout.strip() else [["?", "?", "child failed: " + pr.stderr[-300:]]]
    except subprocess.TimeoutExpired:
        res = [["?", "?", "no termination within 30 s"]]
    bad = [r for r in res if r[2] != "ok"]
    if bad:
        return dict(violation=True, cases=cases, what="task raising a BaseException subclass (threading backend): %r" % (bad,), witness=bad)
    # failing input iterable is raised in the caller
    def bad_input():
        for i in range(6):
            yield delayed(task)(i)
        raise IndexError("input broke")
    for ret in ("list", "generator"):
        cases += 1
        try:
            list(Parallel(n_jobs=2, backend="threading", return_as=ret)(bad_input()))
            return dict(violation=True, cases=cases, what="iterator failure not raised", witness=ret)
        except IndexError:
            pass
        except Exception as e:
            return dict(violation=True, cases=cases, what="iterator failure surfaced as %r" % (e,), witness=ret)
    # ... whatever pre_dispatch is, also when nothing (or nothing still running) has been dispatched when the input fails
    def fails_at_once():
        raise ValueError("input broke at once")
        yield  # noqa
    def fails_after_one_finished_task():
        yield delayed(task)(0)
        time.sleep(0.3)
        raise ValueError("input broke after the first task had finished")
    for gen in (fails_at_once, fails_after_one_finished_task):
        for pre in ("all", 1, "2*n_jobs"):
            for ret in ("list", "generator"):
                cases += 1
                try:
                    out = list(Parallel(n_jobs=2, backend="threading", pre_dispatch=pre, return_as=ret)(gen()))
                    return dict(violation=True, cases=cases, what="the input iterable raised ValueError but the call returned %r" % (out,),
                                witness=dict(input=gen.__name__, pre_dispatch=pre, return_as=ret, backend="threading", n_jobs=2))
                except ValueError:
                    pass
                except Exception as e:
                    return dict(violation=True, cases=cases, what="iterator failure surfaced as %r" % (e,), witness=dict(input=gen.__name__, pre_dispatch=pre))
    # ... also when the failing pull is made by a completion callback with nothing else outstanding (pre_dispatch=1)
    def late_bad_input(k):
        for i in range(k):
            yield delayed(task)(i * 10, 0.01)
        raise IndexError("input broke late")
    for k in (1, 2, 4):
        for pre in (1, 2):
            cases += 1
            try:
                out = list(Parallel(n_jobs=2, backend="threading", pre_dispatch=pre, batch_size=1)(late_bad_input(k)))
                return dict(violation=True, cases=cases, what="iterator failure lost: the call returned %r" % (out,), witness=dict(items_before_failure=k, pre_dispatch=pre))
            except IndexError:
                pass
            except Exception as e:
                return dict(violation=True, cases=cases, what="iterator failure surfaced as %r" % (e,), witness=dict(items_before_failure=k, pre_dispatch=pre))
    # timeout
    cases += 1
    import multiprocessing
    t0 = time.time()
    try:
        Parallel(n_jobs=2, backend="threading", timeout=0.3)(delayed(time.sleep)(x) for x in (0.01, 3))
        return dict(violation=True, cases=cases, what="no TimeoutError", witness="timeout=0.3")
    except (TimeoutError, multiprocessing.TimeoutError):
        if time.time() - t0 > 2.5:
            return dict(violation=True, cases=cases, what="TimeoutError only after %.1fs" % (time.time() - t0), witness="timeout=0.3")
    # ... also after some results have already been delivered, in every return mode (seeded change C04-unordered-timeout-control-job-not-renewed:
    # in completion order the clock of a job that was already retrieved was watched, so a task that never completes never timed out)
    import threading as _th
    for ras in ("list", "generator", "generator_unordered"):
        cases += 1
        release = _th.Event()

        def _quick(i):
            time.sleep(0.1)
            return i

        def _stuck(i, release=release):
            release.wait(6.0)
            return i
        wd = _th.Timer(3.0, release.set)
        wd.daemon = True
        wd.start()
        t0 = time.time()
        outcome = "returned"
        try:
            out = Parallel(n_jobs=2, backend="threading", return_as=ras, timeout=0.5, pre_dispatch=2)(
                iter([delayed(_quick)(0), delayed(_quick)(1), delayed(_stuck)(2), delayed(_stuck)(3)]))
            if ras != "list":
                for _ in out:
                    pass
        except (TimeoutError, multiprocessing.TimeoutError):
            outcome = "timeout"
        finally:
            release.set()
            wd.cancel()
        if outcome != "timeout" or time.time() - t0 > 2.5:
            return dict(violation=True, cases=cases, what="two quick results, then tasks that never complete, timeout=0.5: %s after %.1fs" % (outcome, time.time() - t0),
                        witness=dict(return_as=ras, timeout=0.5, pre_dispatch=2, n_jobs=2))
    # a call that fails before anything runs (the argument is not iterable; n_jobs resolves to nothing usable) leaves the object usable
    for managed in (False, True):
        for bad_input, exc in ((5, TypeError), (None, TypeError)):
            cases += 1
            p = Parallel(n_jobs=2, backend="threading")
            if managed:
                p.__enter__()
            try:
                try:
                    p(bad_input)
                    return dict(violation=True, cases=cases, what="Parallel()(%r) did not raise" % (bad_input,), witness=dict(managed=managed))
                except exc:
                    pass
                try:
                    out = p(delayed(abs)(-i) for i in range(4))
                except Exception as e:  # noqa
                    return dict(violation=True, cases=cases, what="after Parallel()(%r) raised %s, the next call on the same object raised %r" % (bad_input, exc.__name__, e),
                                witness=dict(first_call_argument=repr(bad_input), managed=managed))
                if out != [0, 1, 2, 3]:
                    return dict(violation=True, cases=cases, what="call after a rejected call returned %r" % (out,), witness=dict(managed=managed))
            finally:
                if managed:
                    p.__exit__(None, None, None)
    # tasks that never complete: TimeoutError, and afterwards the same object - inside or outside a with block - serves a new call
    import threading as _th
    for managed in (False, True):
        cases += 1
        never = _th.Event()
        p = Parallel(n_jobs=2, backend="threading", timeout=0.3)
        if managed:
            p.__enter__()
        try:
            try:
                p(delayed(never.wait)(30) for _ in range(4))
                return dict(violation=True, cases=cases, what="no TimeoutError for tasks that never complete", witness=dict(managed=managed))
            except (TimeoutError, multiprocessing.TimeoutError):
                pass
            t1 = time.time()
            try:
                out = p(delayed(abs)(-i) for i in range(6))
            except Exception as e:  # noqa
                return dict(violation=True, cases=cases, what="call after a timed-out call raised %r instead of returning the new results" % (e,),
                            witness=dict(managed=managed, backend="threading", timeout=0.3))
            if out != list(range(6)) or time.time() - t1 > 5:
                return dict(violation=True, cases=cases, what="call after a timed-out call returned %r after %.1fs" % (out, time.time() - t1), witness=dict(managed=managed))
        finally:
            never.set()
            if managed:
                p.__exit__(None, None, None)
    # stale look-ahead batches of an aborted call (fixed defect F2): slow input, failure while a batch sits in the queue
    def slow_input(tag, n, fail_at):
        for i in range(n):
            time.sleep(0.01)
            yield delayed(tagged)(tag, i, i == fail_at)
    for fail_at in range(8, 14):
        cases += 1
        with Parallel(n_jobs=2, batch_size=1, pre_dispatch=4, backend="threading") as p:
            try:
                p(slow_input("old", 30, fail_at))
            except ValueError:
                pass
            out = p(slow_input("new", 5, -1))
            if any(t != "new" for t, _ in out) or len(out) != 5:
                return dict(violation=True, cases=cases, what="second call returned %r" % (out,), witness=dict(fail_at=fail_at))
    return dict(violation=False, cases=cases)


def tagged(tag, i, fail):
    if fail:
        raise ValueError("boom")
    time.sleep(0.005)
    return (tag, i)


def c09(rnd, budget):
    from joblib import Parallel
    cases = 0
    for n_jobs, batch_size, pre in itertools.product((2, 3), (1, 2, 4), (1, 2, "n_jobs", "2*n_jobs", "1.5*n_jobs", "all")):
        cases += 1
        done = [0]

        def fn(i, _d=done):
            time.sleep(0.002)
            with LOCK:
                _d[0] += 1
            return i
        n = 60
        inp = CountingInput(n, fn, done)
        if cases % 2 == 0:
            # the same instrumented input presented as a SIZED iterable (a lazy dataset with __len__): still consumed lazily
            class Sized:
                def __init__(self, it, n):
                    self.it, self.n = it, n

                def __len__(self):
                    return self.n

                def __iter__(self):
                    return self.it
            out = Parallel(n_jobs=n_jobs, backend="threading", batch_size=batch_size, pre_dispatch=pre)(Sized(inp, n))
        else:
            out = Parallel(n_jobs=n_jobs, backend="threading", batch_size=batch_size, pre_dispatch=pre)(inp)
        if out != list(range(n)):
            return dict(violation=True, cases=cases, what="wrong results", witness=dict(n_jobs=n_jobs, batch_size=batch_size, pre_dispatch=pre))
        if inp.concurrent:
            return dict(violation=True, cases=cases, what="the input iterator was entered by two threads at once", witness=dict(n_jobs=n_jobs, batch_size=batch_size, pre_dispatch=pre))
        if pre != "all":
            amount = int(eval(str(pre).replace("n_jobs", str(n_jobs)))) if isinstance(pre, str) else pre
            bound = amount * batch_size + n_jobs * batch_size + batch_size * n_jobs  # in flight + one look-ahead slice (+ slack of one slice)
            if inp.max_lead > bound:
                return dict(violation=True, cases=cases, what="%d items taken ahead of completion, bound %d" % (inp.max_lead, bound), witness=dict(n_jobs=n_jobs, batch_size=batch_size, pre_dispatch=pre, sized_input=cases % 2 == 0))
    # after a failure no further items are taken (quiescent check: the count must stop growing)
    for bad in (5, 12):
        cases += 1
        done = [0]

        def fn2(i, _d=done, bad=bad):
            time.sleep(0.003)
            if i == bad:
                raise RuntimeError("x")
            with LOCK:
                _d[0] += 1
            return i
        inp = CountingInput(400, fn2, done)
        try:
            Parallel(n_jobs=2, backend="threading", batch_size=1, pre_dispatch=2)(inp)
        except RuntimeError:
            pass
        t1 = inp.taken
        time.sleep(0.2)
        if inp.taken != t1 or inp.taken > bad + 40:
            return dict(violation=True, cases=cases, what="input still consumed after the failure (%d -> %d)" % (t1, inp.taken), witness=dict(bad=bad))
    return dict(violation=False, cases=cases)


def c16(rnd, budget):
    from joblib import Parallel, delayed
    cases = 0
    # prompt + ordered: result k is available although a later task is still running
    cases += 1
    ev = threading.Event()

    def slow_last(i):
        if i == 5:
            ev.wait(5)
        return i
    gen = Parallel(n_jobs=3, backend="threading", return_as="generator", batch_size=1)(delayed(slow_last)(i) for i in range(6))
    got = []
    t0 = time.time()
    for _ in range(5):
        got.append(next(gen))
    early = time.time() - t0
    ev.set()
    got += list(gen)
    if got != list(range(6)) or early > 3:
        return dict(violation=True, cases=cases, what="ordered generator: got %r, first five after %.1fs" % (got, early), witness="slow last task")
    # unordered: completion order, each exactly once
    cases += 1
    out = list(Parallel(n_jobs=3, backend="threading", return_as="generator_unordered", batch_size=1)(delayed(task)(i, 0.03 if i == 0 else 0.0) for i in range(8)))
    if sorted(out) != [("r", i) for i in range(8)] or out[0] == ("r", 0):
        return dict(violation=True, cases=cases, what="unordered generator returned %r" % (out,), witness="slow first task")
    # prompt also late in a call: after a long wait for one slow task, results that complete afterwards are still delivered when they complete
    # (seeded change C16-retrieval-poll-backoff-not-reset: a polling delay that grows while waiting and never shrinks again)
    def stamped(i, d):
        time.sleep(d)
        return i, time.time()
    for ras in ("generator", "generator_unordered"):
        cases += 1
        durations = [2.2, 0.0] + [0.25] * 14
        worst, ready = 0.0, 0.0
        for i, done_at in Parallel(n_jobs=2, backend="threading", return_as=ras, batch_size=1, pre_dispatch=2)(delayed(stamped)(i, d) for i, d in enumerate(durations)):
            # in submission order a result is ready once it and all earlier ones are complete; in completion order when it is complete
            ready = max(ready, done_at) if ras == "generator" else done_at
            if i >= 3:
                worst = max(worst, time.time() - ready)
        if worst > 0.5:
            return dict(violation=True, cases=cases, what="%s: after a 2.2 s wait for the first task, a result completed later was delivered %.2f s after it was ready" % (ras, worst),
                        witness=dict(return_as=ras, durations=durations))
    # abandon: close early, object reusable; overlapping call rejected
    for managed in (False, True):
        cases += 1
        p = Parallel(n_jobs=2, backend="threading", return_as="generator")
        if managed:
            p.__enter__()
        g = p(delayed(task)(i, 0.005) for i in range(50))
        next(g)
        try:
            p(delayed(task)(i) for i in range(3))
            return dict(violation=True, cases=cases, what="overlapping call accepted", witness=dict(managed=managed))
        except RuntimeError:
            pass
        g.close()
        out = list(p(delayed(task)(i) for i in range(4)))
        if out != [("r", i) for i in range(4)]:
            return dict(violation=True, cases=cases, what="after closing the generator the next call returned %r" % (out,), witness=dict(managed=managed))
        if managed:
            p.__exit__(None, None, None)
    known = {}
    # K17 (recorded finding): while a completion callback pulls the next item from a slow input iterator it holds Parallel._lock, which
    # the consumer needs to take a finished result out of the queue
    def slow_input():
        for i in range(5):
            if i >= 2:
                time.sleep(0.5)
            yield delayed(abs)(-i)
    gen = Parallel(n_jobs=2, backend="threading", return_as="generator", pre_dispatch=2, batch_size=1)(slow_input())
    t1 = time.time()
    next(gen)
    waited = time.time() - t1
    list(gen)
    known["K17"] = ("first result (an instant task) only after %.1fs of input generation" % waited) if waited > 0.35 else False
    # K18 (recorded finding): a generator that outlives the with block of its Parallel object
    with Parallel(n_jobs=2, backend="threading", return_as="generator") as pw:
        g2 = pw(delayed(time.sleep)(0.03) for _ in range(6))
        next(g2)
    try:
        list(g2)
        known["K18"] = False
    except AttributeError as e:
        known["K18"] = "continuing the generator after the with block raises %r" % (e,)
    except Exception:
        known["K18"] = False
    return dict(violation=False, cases=cases, known=known)


if __name__ == "__main__":
    which, seed, budget = sys.argv[1], int(sys.argv[2]), sys.argv[3]
    rnd = random.Random(seed)
    out = dict(violation=False, cases=0)
    try:
        for name, fn in (("C01", c01), ("C04", c04), ("C09", c09), ("C16", c16)):
            if which in (name, "all"):
                r = fn(rnd, budget)
                out["cases"] += r["cases"]
                if r.get("known"):
                    out.setdefault("known", {}).update(r["known"])
                if r["violation"]:
                    r["cases"] = out["cases"]
                    r["what"] = name + ": " + r["what"]
                    out = r
                    break
    except Exception as e:
        import traceback
        out = dict(violation=True, cases=out["cases"], what="harness exception %r" % (e,), witness=traceback.format_exc()[-700:])
    print(json.dumps(out, default=repr))
    sys.exit(1 if out["violation"] else 0)
