"""Native bounded check for C13/C14 on the REAL code: BinaryZlibFile/BinaryGzipFile vs a BytesIO reference stream;
truncated / over-long files through joblib.load with a watchdog.  One JSON line."""
import gzip
import io
import json
import random
import signal
import sys
import zlib


class Hang(Exception):
    pass


def _alarm(sig, frm):
    raise Hang()


def _zlib_complete(raw):
    d = zlib.decompressobj()
    d.decompress(raw)
    return d.eof


def stream(seed, rounds):
    from joblib.compressor import BinaryGzipFile, BinaryZlibFile
    rnd = random.Random(seed)
    cases = 0
    signal.signal(signal.SIGALRM, _alarm)
    for r in range(rounds):
        n = rnd.choice([0, 1, 5, 100, 8191, 8192, 8193, 20000, 70000])
        payload = bytes(rnd.getrandbits(8) if rnd.random() < 0.3 else 65 for _ in range(n))
        for cls, dec in ((BinaryZlibFile, zlib.decompress), (BinaryGzipFile, gzip.decompress)):
            # write side: any chunking, any level -> standard decoder gives back the bytes
            buf = io.BytesIO()
            w = cls(buf, "wb", compresslevel=rnd.randint(1, 9))
            pos = 0
            while pos < n:
                k = rnd.choice([1, 7, 4096, 8192, 50000])
                if w.write(payload[pos:pos + k]) != len(payload[pos:pos + k]):
                    return dict(violation=True, cases=cases, what="write returned a wrong count", witness=[seed, r])
                pos += k
                if w.tell() != min(pos, n):
                    return dict(violation=True, cases=cases, what="tell() in write mode", witness=[seed, r])
            w.close()
            w.close()
            raw = buf.getvalue()
            cases += 1
            try:
                back = dec(raw)
                # zlib.decompress(b"") is b"": a stream without its end marker must not count as a stream
                complete = bool(raw) and (cls is BinaryGzipFile or _zlib_complete(raw))  # gzip.decompress raises EOFError on a non-empty stream without trailer
            except (zlib.error, EOFError, OSError) as e:
                return dict(violation=True, cases=cases, what="standard decoder rejects what was written: %r" % (e,), witness=[seed, r, cls.__name__, n])
            if not complete:
                return dict(violation=True, cases=cases, what="the written stream has no end-of-stream marker", witness=[seed, r, cls.__name__, n])
            if back != payload:
                return dict(violation=True, cases=cases, what="standard decoder does not give the written bytes back", witness=[seed, r, cls.__name__, n])
            # read side: random op sequences vs reference
            f = cls(io.BytesIO(raw), "rb")
            ref = io.BytesIO(payload)
            ops = []
            signal.alarm(20)
            try:
                for _ in range(30):
                    op = rnd.choice(["read", "readall", "seek0", "seek1", "seek2", "tell", "readinto", "readline", "read0"])
                    if op == "read":
                        k = rnd.choice([1, 3, 100, 8192, 10000, 10 ** 6]); a, b = f.read(k), ref.read(k)
                    elif op == "read0":
                        k = 0; a, b = f.read(0), ref.read(0)
                    elif op == "readall":
                        k = -1; a, b = f.read(), ref.read()
                    elif op == "seek0":
                        k = rnd.randint(0, n + 10); a, b = f.seek(k), min(ref.seek(k), n); ref.seek(min(k, n))
                    elif op == "seek1":
                        k = rnd.randint(-ref.tell(), 100); a = f.seek(k, 1); b = min(ref.tell() + k, n); ref.seek(b)
                    elif op == "seek2":
                        k = rnd.randint(-n, 5); a = f.seek(k, 2); b = min(n + k, n); ref.seek(b)
                    elif op == "tell":
                        k = None; a, b = f.tell(), ref.tell()
                    elif op == "readinto":
                        k = rnd.choice([0, 1, 50, 9000]); ba, bb = bytearray(k), bytearray(k); a = (f.readinto(ba), bytes(ba)); b = (ref.readinto(bb), bytes(bb))
                    else:
                        k = None; a, b = f.readline(), ref.readline()
                    ops.append((op, k))
                    cases += 1
                    if a != b or f.tell() != ref.tell():
                        return dict(violation=True, cases=cases, what="op %s(%r): got %r.. expected %r.. (tell %d vs %d)" % (op, k, str(a)[:40], str(b)[:40], f.tell(), ref.tell()),
                                    witness=dict(seed=seed, round=r, cls=cls.__name__, n=n, ops=ops))
            except Hang:
                return dict(violation=True, cases=cases, what="operation did not terminate within 20 s", witness=dict(seed=seed, round=r, ops=ops))
            finally:
                signal.alarm(0)
            # scripted sequences around the end of the stream: reach the end, seek back, seek to / past the end again (all three whence
            # modes), then small reads - nothing may come out of a stale read-ahead buffer
            if n >= 5:
                for back in (1, n // 2, n - 1):
                    for how in ("abs-end", "abs-past", "cur-past", "from-end", "from-end-past"):
                        f = cls(io.BytesIO(raw), "rb")
                        ref = io.BytesIO(payload)
                        f.read(); ref.read()
                        f.seek(back); ref.seek(back)
                        if how == "abs-end":
                            got = f.seek(n)
                        elif how == "abs-past":
                            got = f.seek(n + 7)
                        elif how == "cur-past":
                            got = f.seek(n, 1)
                        elif how == "from-end":
                            got = f.seek(0, 2)
                        else:
                            got = f.seek(3, 2)
                        ref.seek(n)
                        ba = bytearray(4)
                        obs = (got, f.tell(), f.read(3), f.readline(), f.readinto(ba), f.tell(), f.read())
                        exp = (n, n, b"", b"", 0, n, b"")
                        cases += 1
                        if obs != exp:
                            return dict(violation=True, cases=cases, what="after the end was reached, seek(%d) then seek to the end (%s): (seek, tell, read(3), readline, readinto, tell, read()) = %r, a byte stream gives %r"
                                        % (back, how, obs, exp), witness=dict(cls=cls.__name__, n=n, back=back, how=how))
    return dict(violation=False, cases=cases)


def damaged(seed, objs):
    """Every truncation point / trailing bytes of small dumps, every available compressor: load terminates and raises or returns x."""
    import joblib
    rnd = random.Random(seed)
    signal.signal(signal.SIGALRM, _alarm)
    cases = 0
    values = [[1, 2, 3], {"a": "b" * 50, "c": list(range(40))}, "x" * 300, (1.5, None, b"bytes" * 30)][:objs]
    same = lambda a, b: a == b
    try:
        import numpy as np
        # array payloads go through joblib's own chunked reader (NumpyArrayWrapper.read_array), not through the unpickler
        values += [np.arange(40, dtype="<f8"), {"k": np.arange(12, dtype="<i4").reshape(3, 4), "tail": "t" * 20}]

        def same(a, b):  # noqa: F811
            if isinstance(a, np.ndarray) or isinstance(b, np.ndarray):
                return type(a) is type(b) and a.dtype == b.dtype and a.shape == b.shape and a.tobytes() == b.tobytes()
            if isinstance(a, dict) and isinstance(b, dict):
                return a.keys() == b.keys() and all(same(a[k], b[k]) for k in a)
            return a == b
    except ImportError:
        pass
    comps = [0, ("zlib", 3), ("gzip", 3), ("bz2", 3), ("lzma", 3), ("xz", 3)]
    for v in values:
        for c in comps:
            buf = io.BytesIO()
            joblib.dump(v, buf, compress=c)
            raw = buf.getvalue()
            variants = [raw[:k] for k in range(len(raw))] + [raw + b"x", raw + b"xx" * 10, raw + raw, raw + b"\x00" * 9000]
            for i, data in enumerate(variants):
                cases += 1
                signal.alarm(15)
                try:
                    out = joblib.load(io.BytesIO(data))
                    if not same(out, v):
                        return dict(violation=True, cases=cases, what="load returned a different object %r" % (out,), witness=dict(value=repr(v), compress=c, variant=i, length=len(data)))
                except Hang:
                    return dict(violation=True, cases=cases, what="load did not terminate within 15 s", witness=dict(value=repr(v), compress=c, variant=i, length=len(data), full=len(raw)))
                except Exception:
                    pass
                finally:
                    signal.alarm(0)
    # a valid zlib / gzip file followed by extra bytes whose compressed length is a few bytes past a multiple of the reader's block size:
    # the last raw block then holds nothing but (part of) the checksum trailer and the extra bytes.  Child process with an address-space cap.
    import subprocess
    blk = 8192
    child = ("import io, sys, resource, joblib\n"
             "resource.setrlimit(resource.RLIMIT_AS, (2 * 1024 ** 3, 2 * 1024 ** 3))\n"
             "data = open(sys.argv[1], 'rb').read()\n"
             "try:\n"
             "    out = joblib.load(io.BytesIO(data))\n"
             "    print('LOADED', len(out))\n"
             "except MemoryError:\n"
             "    print('MEMORYERROR')\n"
             "except Exception as e:\n"
             "    print('RAISED', type(e).__name__)\n")
    import os as _os, tempfile as _tf
    for method, residues in (("zlib", range(1, 5)), ("gzip", range(1, 9))):
        base = bytes(rnd.getrandbits(8) for _ in range(3 * blk + 64))
        found = 0
        for size in range(2 * blk, 3 * blk + 64):
            buf = io.BytesIO()
            joblib.dump(base[:size], buf, compress=(method, 3))
            raw = buf.getvalue()
            if len(raw) % blk in residues:
                found += 1
                cases += 1
                with _tf.NamedTemporaryFile(suffix=".pkl", delete=False) as tf:
                    tf.write(raw + b"extra bytes")
                try:
                    pr = subprocess.run([sys.executable, "-c", child, tf.name], capture_output=True, text=True, timeout=60)
                    verdict = (pr.stdout.strip().splitlines() or ["CRASH rc=%d" % pr.returncode])[-1]
                except subprocess.TimeoutExpired:
                    verdict = "TIMEOUT"
                finally:
                    _os.unlink(tf.name)
                if not (verdict.startswith("RAISED") or verdict == "LOADED %d" % size):
                    return dict(violation=True, cases=cases, what="valid %s file (compressed length %d = %d mod %d) followed by 11 extra bytes: load -> %s" % (method, len(raw), len(raw) % blk, blk, verdict),
                                witness=dict(compressor=method, payload_size=size, compressed_length=len(raw)))
                if found >= 3:
                    break
    # a damaged cache entry makes Memory recompute: every truncation point of output.pkl, plain and compressed
    import os, shutil, tempfile
    from joblib import Memory
    import joblib.memory as jm
    root = tempfile.mkdtemp(prefix="pyvc_c14_")
    try:
        for comp in (False, True):
            loc = os.path.join(root, "c%d" % comp)
            def target(x):
                return {"k": [x, x + 1, 2.5 * x], "s": "text" * 5}
            mem = Memory(loc, verbose=0, compress=comp)
            cf = mem.cache(target)
            good = cf(3)
            out = [os.path.join(dp, "output.pkl") for dp, dn, fn in os.walk(loc) if "output.pkl" in fn][0]
            raw = open(out, "rb").read()
            for k in list(range(len(raw))) + [-1, -2]:
                cases += 1
                data = raw[:k] if k >= 0 else raw + b"junk" * (-k)
                with open(out, "wb") as fh:
                    fh.write(data)
                jm._FUNCTION_HASHES.clear()
                signal.alarm(15)
                try:
                    r = Memory(loc, verbose=0, compress=comp).cache(target)(3)
                except Hang:
                    return dict(violation=True, cases=cases, what="cached call hung on a damaged entry", witness=dict(cut=k, compress=comp))
                except Exception as e:
                    return dict(violation=True, cases=cases, what="cached call raised %r on a damaged entry instead of recomputing" % (e,), witness=dict(cut=k, length=len(raw), compress=comp))
                finally:
                    signal.alarm(0)
                if r != good:
                    return dict(violation=True, cases=cases, what="damaged entry returned garbage %r" % (r,), witness=dict(cut=k, compress=comp))
    finally:
        shutil.rmtree(root, ignore_errors=True)
    return dict(violation=False, cases=cases)


if __name__ == "__main__":
    cmd = sys.argv[1]
    seed = int(sys.argv[2])
    n = int(sys.argv[3])
    out = stream(seed, n) if cmd == "stream" else damaged(seed, n)
    print(json.dumps(out, default=repr))
    sys.exit(1 if out["violation"] else 0)
