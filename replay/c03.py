"""Native bounded check for C03: dump/load round trip on the REAL code for a battery of objects x every available
compressor/level form x path (with/without extension, misleading extension after renaming), file object, BytesIO.
One JSON line."""
import io
import itertools
import json
import os
import shutil
import sys
import tempfile
import warnings

warnings.simplefilter("ignore")


def battery():
    shared = [1, 2, 3]
    rec = []
    rec.append(rec)
    class P:
        def __init__(self, a): self.a = a
        def __eq__(self, o): return type(o) is P and o.a == self.a
    return [None, 0, -1, 2 ** 70, 1.5, "text", b"bytes" * 100, (1, "a", None), {"k": [1, {"z": (2, 3)}]}, {1, 2, 3}, frozenset([4]),
            [shared, shared], "x" * 9000, list(range(3000)), b"\x00" * 70000]


class ShortReads(io.RawIOBase):
    """A seekable raw stream whose read / readinto answer with at most `chunk` bytes per call (what io.RawIOBase allows: pipes, sockets,
    network file systems, FileIO above 2 GiB)."""

    def __init__(self, data, chunk):
        self._b, self._chunk = io.BytesIO(data), chunk

    def readable(self):
        return True

    def seekable(self):
        return True

    def readinto(self, b):
        got = self._b.read(min(len(b), self._chunk))
        b[:len(got)] = got
        return len(got)

    def seek(self, pos, whence=0):
        return self._b.seek(pos, whence)

    def tell(self):
        return self._b.tell()


class Duck:
    """Not an io class at all: read(n) / readline / seek / tell, short answers."""

    def __init__(self, data, chunk):
        self._b, self._chunk = io.BytesIO(data), chunk

    def read(self, n=-1):
        return self._b.read(self._chunk if n is None or n < 0 else min(n, self._chunk))

    def readline(self):
        return self._b.readline()

    def seek(self, pos, whence=0):
        return self._b.seek(pos, whence)

    def tell(self):
        return self._b.tell()


def main():
    import joblib
    cases = 0
    root = tempfile.mkdtemp(prefix="pyvc_c03_")
    comps = [0, False, True, 1, 9, "zlib", "gzip", "bz2", "lzma", "xz", ("zlib", 1), ("gzip", 9), ("bz2", 3), ("lzma", 2), ("xz", 6), ("zlib", 0)]
    names = ["f.pkl", "f.z", "f.gz", "f.bz2", "f.lzma", "f.xz", "noext"]
    try:
        for obj in battery():
            for comp, name in itertools.product(comps, names):
                cases += 1
                path = os.path.join(root, name)
                try:
                    joblib.dump(obj, path, compress=comp)
                    other = os.path.join(root, "renamed.gz" if not name.endswith(".gz") else "renamed.pkl")
                    shutil.copy(path, other)  # recognised from the content, whatever it is named
                    for pth in (path, other):
                        got = joblib.load(pth)
                        if got != obj or type(got) is not type(obj):
                            return dict(violation=True, cases=cases, what="round trip gave %r" % (str(got)[:80],), witness=dict(obj=str(obj)[:60], compress=repr(comp), name=os.path.basename(pth)))
                    with open(path, "rb") as fh:
                        if joblib.load(fh) != obj:
                            return dict(violation=True, cases=cases, what="load from an open file differs", witness=dict(compress=repr(comp), name=name))
                except Exception as e:
                    return dict(violation=True, cases=cases, what="exception %r" % (e,), witness=dict(obj=str(obj)[:60], compress=repr(comp), name=name))
            for comp in comps:
                cases += 1
                buf = io.BytesIO()
                joblib.dump(obj, buf, compress=comp)
                buf.seek(0)
                if joblib.load(buf) != obj:
                    return dict(violation=True, cases=cases, what="BytesIO round trip differs", witness=dict(obj=str(obj)[:60], compress=repr(comp)))
                # an open file object that is not buffered: read(n) may answer with fewer bytes than asked for
                for kind in (ShortReads, Duck):
                    for chunk in (1, 7, 4096, 65536):
                        if kind is Duck and comp not in (0, False):
                            continue  # the codecs of the standard library need more of a file object than read/seek/tell
                        cases += 1
                        try:
                            got = joblib.load(kind(buf.getvalue(), chunk))
                        except Exception as e:  # noqa
                            return dict(violation=True, cases=cases, what="load from an unbuffered file object raised %r" % (e,),
                                        witness=dict(obj=str(obj)[:60], compress=repr(comp), file_object=kind.__name__, bytes_per_read=chunk))
                        if got != obj or type(got) is not type(obj):
                            return dict(violation=True, cases=cases, what="load from an unbuffered file object returned a different object: %r" % (str(got)[:60],),
                                        witness=dict(obj=str(obj)[:60], compress=repr(comp), file_object=kind.__name__, bytes_per_read=chunk))
        # shared and recursive references, protocols
        import pickle
        shared = [1, 2]
        rec = {}
        rec["self"] = rec
        for proto in range(2, pickle.HIGHEST_PROTOCOL + 1):
            for comp in (0, 3, ("gzip", 3)):
                cases += 1
                buf = io.BytesIO()
                joblib.dump([shared, shared, rec], buf, compress=comp, protocol=proto)
                buf.seek(0)
                a, b, r = joblib.load(buf)
                if a is not b or r["self"] is not r:
                    return dict(violation=True, cases=cases, what="shared / recursive references not preserved", witness=dict(protocol=proto, compress=repr(comp)))
        # several objects dumped one after the other into one open file and loaded back in sequence: the second object starts at an
        # arbitrary offset, in particular a few bytes before the end of the reader's internal buffer (peek() then answers short)
        import io as _io
        bufsize = _io.DEFAULT_BUFFER_SIZE
        for comp in (0, ("zlib", 3), ("gzip", 3), ("bz2", 3), ("lzma", 3), ("xz", 3)):
            for offset in [12, bufsize - 6, bufsize - 5, bufsize - 4, bufsize - 3, bufsize - 2, bufsize - 1, bufsize, bufsize + 1, 2 * bufsize - 1]:
                pth = os.path.join(root, "seq.bin")
                size = None
                for cand in range(max(0, offset - 80), offset):
                    with open(pth, "wb") as f:
                        joblib.dump(b"h" * cand, f)
                        if f.tell() == offset:
                            size = cand
                            joblib.dump({"second": [1, 2, 3]}, f, compress=comp)
                            break
                if size is None:
                    continue
                cases += 1
                try:
                    with open(pth, "rb") as f:
                        first, second = joblib.load(f), joblib.load(f)
                    ok = first == b"h" * size and second == {"second": [1, 2, 3]}
                    what = "second object of one file came back as %r" % (second,)
                except Exception as e:  # noqa
                    ok, what = False, "loading the second object of one file raised %r" % (e,)
                if not ok:
                    return dict(violation=True, cases=cases, what=what, witness=dict(compress=repr(comp), second_object_starts_at=offset, buffer_size=bufsize))
        # a compressor registered after the first load, with a prefix longer than every built-in one, read back from a stream without peek()
        import subprocess
        code = ("import io, joblib\n"
                "from joblib.compressor import CompressorWrapper, register_compressor\n"
                "import gzip\n"
                "b = io.BytesIO(); joblib.dump(1, b); b.seek(0); joblib.load(b)\n"
                "class W(CompressorWrapper):\n"
                "    def __init__(self):\n"
                "        super().__init__(obj=None, prefix=b'LATECOMPRESSOR', extension='.late')\n"
                "    def compressor_file(self, fileobj, compresslevel=None):\n"
                "        fileobj.write(self.prefix); return gzip.GzipFile(fileobj=fileobj, mode='wb')\n"
                "    def decompressor_file(self, fileobj):\n"
                "        fileobj.read(len(self.prefix)); return gzip.GzipFile(fileobj=fileobj, mode='rb')\n"
                "register_compressor('late', W())\n"
                "b = io.BytesIO(); joblib.dump([1, 2, 3], b, compress=('late', 3)); b.seek(0)\n"
                "assert joblib.load(b) == [1, 2, 3]\n"
                # ... and RE-registered (force=True: the number of compressors stays the same) with a still longer magic number
                "class W2(W):\n"
                "    def __init__(self):\n"
                "        CompressorWrapper.__init__(self, obj=None, prefix=b'LATECOMPRESSOR-SECOND-EDITION', extension='.late')\n"
                "register_compressor('late', W2(), force=True)\n"
                "b = io.BytesIO(); joblib.dump([4, 5], b, compress=('late', 3)); b.seek(0)\n"
                "assert joblib.load(b) == [4, 5]\n")
        cases += 1
        pr = subprocess.run([sys.executable, "-c", code], capture_output=True, text=True, timeout=120)
        if pr.returncode != 0:
            return dict(violation=True, cases=cases, what="compressor registered after the first load is not recognised: %s" % pr.stderr.strip().splitlines()[-1:],
                        witness="register_compressor(prefix of 14 bytes) after a load(), dump + load through io.BytesIO")
        # invalid requests are rejected with ValueError and write nothing
        for comp, target in ((10, "f"), ("nosuch", "f"), (("zlib", 3, 1), "f"), (("zlib", 11), "f"), (3, 5)):
            cases += 1
            try:
                joblib.dump(1, os.path.join(root, "bad") if isinstance(target, str) else target, compress=comp)
                return dict(violation=True, cases=cases, what="invalid request accepted", witness=repr(comp))
            except ValueError:
                if os.path.exists(os.path.join(root, "bad")):
                    return dict(violation=True, cases=cases, what="invalid request left a file behind", witness=repr(comp))
    finally:
        shutil.rmtree(root, ignore_errors=True)
    return dict(violation=False, cases=cases)


if __name__ == "__main__":
    try:
        out = main()
    except Exception as e:
        import traceback
        out = dict(violation=True, cases=0, what="harness error %r" % (e,), witness=traceback.format_exc()[-500:])
    print(json.dumps(out, default=repr))
    sys.exit(1 if out["violation"] else 0)
