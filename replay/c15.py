"""Native bounded check / replay for C15 on the REAL code (run with /venv/bin/python). Prints one JSON line."""
import json
import os
import sys
import threading


def expected(n_jobs, cpus):
    if n_jobs > 0:
        return n_jobs
    return max(cpus + 1 + n_jobs, 1)


def search(lim):
    import joblib._parallel_backends as pb
    from joblib._parallel_backends import (FallbackToBackend, LokyBackend, MultiprocessingBackend, SequentialBackend,
                                           ThreadingBackend)
    cases = 0
    created = []

    class FakePool:
        def __init__(self, n, **kw):
            created.append(n)

        def close(self):
            pass

        def terminate(self):
            pass

    pb.ThreadPool = FakePool
    pb.MemmappingPool = FakePool
    pb.get_memmapping_executor = lambda n, **kw: FakePool(n)

    class P:
        _id = "x"
        n_jobs = 2
        _backend_kwargs = {}

    for cpus in (1, 2, 3, 8):
        pb.cpu_count = lambda cpus=cpus: cpus
        for n_jobs in range(-lim, lim + 1):
            for cls in (ThreadingBackend, MultiprocessingBackend, LokyBackend, SequentialBackend):
                for level in (0, 1, None):
                    cases += 1
                    b = cls(nesting_level=level)
                    try:
                        r = b.effective_n_jobs(n_jobs)
                    except ValueError:
                        if n_jobs != 0:
                            return dict(violation=True, cases=cases, what="ValueError for n_jobs=%d" % n_jobs,
                                        witness=dict(cls=cls.__name__, n_jobs=n_jobs, cpus=cpus))
                        continue
                    if n_jobs == 0:
                        return dict(violation=True, cases=cases, what="n_jobs=0 accepted -> %r" % r, witness=dict(cls=cls.__name__, cpus=cpus))
                    exp = 1 if cls is SequentialBackend else expected(n_jobs, cpus)
                    if r != exp or r < 1:
                        return dict(violation=True, cases=cases, what="effective_n_jobs=%r expected %r" % (r, exp),
                                    witness=dict(cls=cls.__name__, n_jobs=n_jobs, cpus=cpus, nesting_level=level))
                    if cls is SequentialBackend:
                        continue
                    del created[:]
                    try:
                        got = b.configure(n_jobs=n_jobs, parallel=P())
                        if cls is ThreadingBackend:
                            b._get_pool()
                    except FallbackToBackend as e:
                        if exp != 1 or not isinstance(e.backend, SequentialBackend) or created:
                            return dict(violation=True, cases=cases, what="fallback with effective=%r created=%r" % (exp, created),
                                        witness=dict(cls=cls.__name__, n_jobs=n_jobs, cpus=cpus))
                        continue
                    if got != exp or created != [exp] or exp == 1:
                        return dict(violation=True, cases=cases, what="configure -> %r, pools sized %r, expected %r" % (got, created, exp),
                                    witness=dict(cls=cls.__name__, n_jobs=n_jobs, cpus=cpus))
    # effective_n_jobs == 1 in a non-main thread below nesting level != 0
    out = {}

    def in_thread():
        pb.cpu_count = lambda: 8
        out["loky"] = LokyBackend(nesting_level=1).effective_n_jobs(4)
        out["mp"] = MultiprocessingBackend(nesting_level=1).effective_n_jobs(4)
        out["loky0"] = LokyBackend(nesting_level=0).effective_n_jobs(4)

    t = threading.Thread(target=in_thread)
    t.start()
    t.join()
    cases += 3
    if out != {"loky": 1, "mp": 1, "loky0": 4}:
        return dict(violation=True, cases=cases, what="nested-in-thread effective_n_jobs %r" % out, witness="thread")
    # nested backends
    for level in range(0, 4):
        for cls in (ThreadingBackend, MultiprocessingBackend, LokyBackend):
            cases += 1
            nb, nj = cls(nesting_level=level).get_nested_backend()
            want = ThreadingBackend if level == 0 else SequentialBackend
            if type(nb) is not want or nb.nesting_level != level + 1:
                return dict(violation=True, cases=cases, what="nested backend at level %d is %s(level=%r)" % (level, type(nb).__name__, nb.nesting_level),
                            witness=dict(cls=cls.__name__, level=level))
    # the REAL platform: the affinity mask (and LOKY_MAX_CPU_COUNT) may change between two calls in one process; each call honours the
    # value of that moment (child process, so the harness keeps its own mask)
    import subprocess
    child = ("import os, sys, json\n"
             "import joblib\n"
             "from joblib.externals.loky.backend.context import cpu_count\n"
             "out = {}\n"
             "if hasattr(os, 'sched_getaffinity') and len(os.sched_getaffinity(0)) >= 2:\n"
             "    orig = os.sched_getaffinity(0)\n"
             "    out['before'] = [cpu_count(), joblib.effective_n_jobs(-1)]\n"
             "    os.sched_setaffinity(0, {min(orig)})\n"
             "    out['one_cpu_allowed'] = [cpu_count(), joblib.effective_n_jobs(-1), joblib.Parallel(n_jobs=-1, backend='threading')._effective_n_jobs()]\n"
             "    os.sched_setaffinity(0, orig)\n"
             "    out['restored'] = [cpu_count()]\n"
             "    os.environ['LOKY_MAX_CPU_COUNT'] = '1'\n"
             "    out['loky_max_1'] = [cpu_count(), joblib.effective_n_jobs(-1)]\n"
             "print(json.dumps(out))\n")
    pr = subprocess.run([sys.executable, "-c", child], capture_output=True, text=True, timeout=120, env={k: v for k, v in os.environ.items() if k != "LOKY_MAX_CPU_COUNT"})
    cases += 1
    if pr.returncode != 0:
        return dict(violation=True, cases=cases, what="harness: affinity child failed: %s" % pr.stderr.strip().splitlines()[-1:], witness=None)
    got = json.loads(pr.stdout.strip().splitlines()[-1])
    if got:
        if any(v != 1 for v in got["one_cpu_allowed"]) or any(v != 1 for v in got["loky_max_1"]) or got["restored"][0] != got["before"][0]:
            return dict(violation=True, cases=cases, what="cpu_count / effective_n_jobs(-1) do not follow the CPU affinity mask or LOKY_MAX_CPU_COUNT of the moment: %r" % (got,),
                        witness="cpu_count(); os.sched_setaffinity(0, {one cpu}); cpu_count(); restore; LOKY_MAX_CPU_COUNT=1; cpu_count()")
    # loky cpu_count
    import joblib.externals.loky.backend.context as ctx
    for os_cpus in (None, 1, 4, 16):
        for aff in (1, 2, 16, 64):
            for lokymax in (None, 1, 3, 100):
                for cg in (1, 5, 16):
                    cases += 1
                    ctx.os = type("O", (), {"cpu_count": staticmethod(lambda: os_cpus), "environ": ({} if lokymax is None else {"LOKY_MAX_CPU_COUNT": str(lokymax)}), "path": os.path})
                    ctx._cpu_count_affinity = lambda n, aff=aff: aff
                    ctx._cpu_count_cgroup = lambda n, cg=cg: cg
                    r = ctx.cpu_count()
                    bound = min(x for x in (os_cpus or 1, aff, cg, lokymax) if x is not None)
                    if r < 1 or r != max(bound, 1):
                        return dict(violation=True, cases=cases, what="cpu_count()=%r expected %r" % (r, max(bound, 1)),
                                    witness=dict(os=os_cpus, affinity=aff, cgroup=cg, LOKY_MAX_CPU_COUNT=lokymax))
    # probes of recorded findings, in a fresh interpreter (this harness has monkey-patched joblib above)
    probe = r"""
import json, threading, time, warnings
warnings.simplefilter("ignore")
from joblib import Parallel, delayed, parallel_config
known = {}
# K11: the Parallel objects created inside one parallel_config(backend='threading') block share one backend instance and its pool;
# a call with n_jobs=2 made while a 6-thread run is unfinished runs pre_dispatch (4) tasks at once
lock = threading.Lock()
cur, peak = [0], [0]
def probe_task(d):
    with lock:
        cur[0] += 1
        peak[0] = max(peak[0], cur[0])
    time.sleep(d)
    with lock:
        cur[0] -= 1
with parallel_config(backend="threading"):
    g = Parallel(n_jobs=6, return_as="generator")(delayed(time.sleep)(0.2) for _ in range(30))
    next(g)
    peak[0] = 0
    Parallel(n_jobs=2)(delayed(probe_task)(0.15) for _ in range(12))
    known["K11"] = ("%d tasks of a Parallel(n_jobs=2) call ran simultaneously" % peak[0]) if peak[0] > 2 else False
    g.close()
# K12: the nesting level lives in a thread-local; a thread started by a task does not see it
res = {}
def nested_probe():
    def inner():
        b = Parallel(n_jobs=2)._backend
        res["thread"] = (type(b).__name__, b.nesting_level)
    th = threading.Thread(target=inner)
    th.start()
    th.join()
Parallel(n_jobs=2, backend="threading")(delayed(nested_probe)() for _ in range(1))
t = res.get("thread", ("", 1))
known["K12"] = ("Parallel(n_jobs=2) in a thread started by a task resolves to %s at nesting level %r" % t) if t[0] in ("LokyBackend", "MultiprocessingBackend") else False
print(json.dumps(known))
"""
    pr = subprocess.run([sys.executable, "-c", probe], capture_output=True, text=True, timeout=300)
    known = json.loads(pr.stdout.strip().splitlines()[-1]) if pr.returncode == 0 and pr.stdout.strip() else {}
    return dict(violation=False, cases=cases, known=known)


if __name__ == "__main__":
    out = search(int(sys.argv[2]) if len(sys.argv) > 2 else 12)
    print(json.dumps(out))
    sys.exit(1 if out["violation"] else 0)
