import os, sys; ROOT = os.environ.get("JOBLIB_ROOT", "/repo"); sys.path.insert(0, ROOT); os.environ["PYTHONPATH"] = ROOT + os.pathsep + os.environ.get("PYTHONPATH", "")
"""C06 - a cached function cannot be called with type(None), type(Ellipsis),
type(NotImplemented), nor with anything that contains them: typing.Optional[int],
int | None, a tuple of accepted types such as (int, type(None)) ...

These values are perfectly picklable (pickle.dumps works with every protocol:
pickle.Pickler.save_type special-cases the three singleton types, which are
not reachable as builtins.NoneType).  joblib.hashing.Hasher replaces the
handler of `type` objects by its own save_global, which goes straight to
Pickler.save_global and fails:

    _pickle.PicklingError: Can't pickle <class 'NoneType'>: it's not found as
    builtins.NoneType

so  checked(3, (int, type(None)))  /  parse("3", Optional[int])  raise in
MemorizedFunc._get_args_id before the function is even looked up, whereas the
undecorated functions accept the calls (and joblib.dump / pickle of the same
arguments work).

Property C06: every call that the plain function accepts is accepted by the
cached wrapper.
"""
import pickle
import shutil
import tempfile
import typing
import warnings

import joblib
from joblib import Memory

assert joblib.__file__.startswith(ROOT), joblib.__file__
warnings.simplefilter("ignore")


def checked(value, accepted):
    return isinstance(value, accepted)


def describe(annotation):
    return str(annotation)


calls = [
    (checked, (None, type(None))),
    (checked, (3, (int, type(None)))),
    (describe, (typing.Optional[int],)),
    (describe, (int | None,)),
    (describe, (type(Ellipsis),)),
]
work = tempfile.mkdtemp(prefix="u2none_")
failures = []
try:
    mem = Memory(work, verbose=0)
    for func, args in calls:
        expected = func(*args)
        pickle.dumps(args, protocol=3)          # the arguments do pickle
        try:
            got = mem.cache(func)(*args)
            assert got == expected
        except Exception as e:                  # noqa: BLE001
            failures.append("%s%r -> %s" % (func.__name__, args, type(e).__name__))
finally:
    shutil.rmtree(work, ignore_errors=True)

if failures:
    print("VIOLATION C06-U2d: calls accepted by the plain function (and whose arguments "
          "pickle) are rejected by the cached wrapper: " + "; ".join(failures))
    sys.exit(1)
print("ok: all calls accepted")
sys.exit(0)
