"""C01: two Parallel objects with backend='loky' and different n_jobs, called
from two threads at overlapping times, dead-lock: neither call ever returns
its values.

Thread A: Parallel(n_jobs=2, backend='loky')(30 tasks of 0.2s)
Thread B (0.5s later): Parallel(n_jobs=3, backend='loky')(10 tasks)
B resizes the shared reusable executor: it takes the submit/resize lock and
waits for the pending jobs to drain; A's completion callback (run by the
executor manager thread) blocks on that same lock in submit(), so results are
never processed any more.

The scenario runs in a child process group so that it can be killed.
"""
import os
import signal
import subprocess
import sys
import threading
import time
import warnings


def f(i):
    time.sleep(0.2)
    return i


def child():
    from joblib import Parallel, delayed

    warnings.simplefilter("ignore")
    res = {}

    def run(name, nj, n):
        res[name] = Parallel(n_jobs=nj, backend="loky")(
            delayed(f)(i) for i in range(n)
        )

    # start the workers
    Parallel(n_jobs=2, backend="loky")(delayed(f)(i) for i in range(2))
    ta = threading.Thread(target=run, args=("a", 2, 30), daemon=True)
    tb = threading.Thread(target=run, args=("b", 3, 10), daemon=True)
    ta.start()
    time.sleep(0.5)
    tb.start()
    ta.join()
    tb.join()
    ok = res.get("a") == list(range(30)) and res.get("b") == list(range(10))
    os._exit(0 if ok else 3)


if __name__ == "__main__":
    if len(sys.argv) > 1 and sys.argv[1] == "child":
        child()
    # sequentially this is 30*0.2/2 + 10*0.2/3 < 4s: 20s is a dead-lock
    proc = subprocess.Popen(
        [sys.executable, os.path.abspath(__file__), "child"],
        stdout=subprocess.DEVNULL,
        stderr=subprocess.DEVNULL,
        start_new_session=True,
    )
    try:
        rc = proc.wait(20)
    except subprocess.TimeoutExpired:
        os.killpg(proc.pid, signal.SIGKILL)
        proc.wait()
        print(
            "VIOLATION C01: concurrent loky Parallel calls with different "
            "n_jobs dead-locked (no result after 20s)"
        )
        sys.exit(1)
    if rc == 0:
        print("ok")
        sys.exit(0)
    print("VIOLATION C01: wrong results / child exit code %r" % rc)
    sys.exit(1)
