"""
C02: OrderedDict arguments that differ (by order) share a cached result.

The hasher sorts the items of every dict-like object, including
collections.OrderedDict whose equality IS order sensitive:
OrderedDict(a=1, b=2) != OrderedDict(b=2, a=1), yet both hash identically, so
the second call returns the value computed for the first argument.
"""
import os, sys, signal, tempfile, warnings
ROOT = os.environ.get("JOBLIB_ROOT", "/repo")
sys.path.insert(0, ROOT)
os.environ["PYTHONPATH"] = ROOT + os.pathsep + os.environ.get("PYTHONPATH", "")
signal.alarm(180)  # guard against hangs
warnings.simplefilter("ignore")
import logging; logging.disable(logging.CRITICAL)
import collections
from joblib import Memory

mem = Memory(tempfile.mkdtemp(), verbose=0)

def first_key(d):
    return next(iter(d))

c = mem.cache(first_key)
a = collections.OrderedDict([("x", 1), ("y", 2)])
b = collections.OrderedDict([("y", 2), ("x", 1)])
assert a != b          # the two bound argument values differ
got = (c(a), c(b))
if got != (first_key(a), first_key(b)):
    print("VIOLATION C02: cached %r, plain %r (a != b is %r)" % (got, (first_key(a), first_key(b)), a != b))
    sys.exit(1)
sys.exit(0)
