"""C16 - an output generator that is still unfinished when the interpreter exits keeps pulling input and prints one traceback per in-flight batch (default loky backend).

Input / configuration (a complete script)
    gen = Parallel(n_jobs=2, return_as='generator')(delayed(slow)(i) for i in producer())
    for r in gen:
        if r == 0:
            break          # done with it, but `gen` is still referenced by the module
    # end of script

What happens
    At interpreter exit loky's atexit hook shuts the shared executor down *before*
    module globals (and with them the generator) are dropped, and waits for the 4
    pre-dispatched tasks.  Each of their completion callbacks still sees
    _aborting == False, so BatchCompletionCallBack._dispatch_new() pulls further
    items from the input iterable (4 more here) and calls backend.submit() on the
    executor that is already shut down.  Every one of these ends as
        exception calling callback for <Future ... state=finished returned list>
        Traceback ... ShutdownExecutorError: cannot schedule new futures after shutdown
    on stderr; the items taken are silently lost, and the exit is delayed until all
    in-flight tasks have run.  Only afterwards the generator is finalised and the
    normal early-exit warning is issued.  (With backend='threading' the same
    script exits at once and silently; closing the generator explicitly - gen.close()
    or `del gen` - is clean with loky, too.)

What the property demands
    C16: "Closing or dropping the generator before exhaustion stops further
    dispatch, terminates cleanly ..."; C09: once the output is abandoned no further
    items are taken from the input.  Dropping the generator implicitly at the end
    of the program is the most common way of abandoning it; it must not pull more
    input or dump internal tracebacks.
"""
import os, sys; ROOT = os.environ.get("JOBLIB_ROOT", "/repo"); sys.path.insert(0, ROOT); os.environ["PYTHONPATH"] = ROOT + os.pathsep + os.environ.get("PYTHONPATH", "")

import subprocess

SCRIPT = r'''
import sys, time
sys.path.insert(0, {root!r})
from joblib import Parallel, delayed

taken = []

def slow(i):
    time.sleep(0.3)
    return i

def producer():
    for i in range(50):
        taken.append(i)
        yield delayed(slow)(i)

gen = Parallel(n_jobs=2, backend={backend!r}, return_as="generator")(producer())
for r in gen:
    if r == 0:
        break
print("TAKEN-AT-END-OF-SCRIPT", len(taken), flush=True)


class _Reporter:
    # a module global finalised together with `gen` when the interpreter exits
    def __del__(self):
        print("TAKEN-AT-FINALIZATION", len(taken), flush=True)


_reporter = _Reporter()
'''


def run(backend):
    proc = subprocess.run(
        [sys.executable, "-c", SCRIPT.format(root=ROOT, backend=backend)],
        capture_output=True, text=True, timeout=35,
    )
    return proc


def main():
    proc = run("loky")
    err = proc.stderr
    n_tb = err.count("exception calling callback for")
    n_shut = err.count("cannot schedule new futures after shutdown")
    taken_end = taken_fin = None
    for line in proc.stdout.splitlines():
        if line.startswith("TAKEN-AT-END-OF-SCRIPT"):
            taken_end = int(line.split()[-1])
        if line.startswith("TAKEN-AT-FINALIZATION"):
            taken_fin = int(line.split()[-1])
    ctl = run("threading")
    ctl_tb = ctl.stderr.count("Traceback")
    print(f"loky: rc={proc.returncode}, {n_tb} 'exception calling callback' tracebacks, "
          f"{n_shut} ShutdownExecutorError, items taken at end of script={taken_end}, "
          f"at finalisation={taken_fin}; threading control: {ctl_tb} tracebacks")
    if n_tb > 0 and n_shut > 0:
        extra = ""
        if taken_end is not None and taken_fin is not None and taken_fin > taken_end:
            extra = (f" and {taken_fin - taken_end} further input items were taken "
                     f"(and lost) after the script had ended")
        print(f"VIOLATION C16: abandoning an unfinished loky generator at interpreter exit "
              f"produced {n_tb} internal tracebacks (ShutdownExecutorError raised inside "
              f"completion callbacks that tried to dispatch more work){extra}; first lines:\n"
              + "\n".join(err.splitlines()[:3]))
        return 1
    print("clean exit")
    return 0


if __name__ == "__main__":
    sys.exit(main())
