"""Pre-existing violation of C04 (and C16) on the unchanged tree.

With n_jobs=1 (sequential fast path) and verbose > 0, a task that fails after
at least one task completed does not surface its own exception: the `finally`
clause of Parallel._get_sequential_output calls print_progress(), which reads
self._pre_dispatch_amount -- an attribute that only the parallel path
(Parallel._call, n_jobs != 1) ever sets.  The AttributeError raised in the
`finally` replaces the task's exception.  Closing a sequential output generator
early (return_as='generator') raises the same AttributeError from close().
"""
import os, sys; ROOT = os.environ.get("JOBLIB_ROOT", "/repo"); sys.path.insert(0, ROOT); os.environ["PYTHONPATH"] = ROOT + os.pathsep + os.environ.get("PYTHONPATH", "")
import io
import contextlib

import joblib
from joblib import Parallel, delayed

assert os.path.abspath(joblib.__file__).startswith(os.path.abspath(ROOT)), joblib.__file__


def f(i):
    if i == 2:
        raise ValueError("boom %d" % i)
    return i


bad = []
with contextlib.redirect_stderr(io.StringIO()):
    # 1. failing task, sequential path, verbose
    for return_as in ("list", "generator"):
        try:
            out = Parallel(n_jobs=1, verbose=1, return_as=return_as)(
                delayed(f)(i) for i in range(5)
            )
            list(out)
            bad.append("C04: %s: no exception at all" % return_as)
        except ValueError as e:
            if e.args != ("boom 2",):
                bad.append("C04: %s: wrong args %r" % (return_as, e.args))
        except BaseException as e:  # noqa
            bad.append(
                "C04: n_jobs=1, verbose=1, return_as=%r: task raised "
                "ValueError('boom 2') but the call raised %r" % (return_as, e)
            )

    # 2. abandoning a sequential generator, verbose
    p = Parallel(n_jobs=1, verbose=1, return_as="generator")
    g = p(delayed(f)(i) for i in (0, 1, 3, 4))
    next(g)
    try:
        g.close()
    except BaseException as e:  # noqa
        bad.append("C16: closing the sequential generator raised %r" % (e,))

for line in bad:
    print("VIOLATION " + line)
sys.exit(1 if bad else 0)
