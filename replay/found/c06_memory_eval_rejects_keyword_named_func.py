"""
C06: Memory.eval(func, *args, **kwargs) rejects keyword arguments named 'func' or 'self'.

MemorizedFunc.__call__/call/call_and_shelve take `self` positional-only, but
Memory.eval(self, func, *args, **kwargs) does not: a function with a parameter
called `func` (or `self`) cannot be evaluated through the cache with that
argument given by keyword, although f(func=...) is a valid call.
"""
import os, sys, signal, tempfile, warnings
ROOT = os.environ.get("JOBLIB_ROOT", "/repo")
sys.path.insert(0, ROOT)
os.environ["PYTHONPATH"] = ROOT + os.pathsep + os.environ.get("PYTHONPATH", "")
signal.alarm(180)  # guard against hangs
warnings.simplefilter("ignore")
import logging; logging.disable(logging.CRITICAL)
from joblib import Memory

mem = Memory(tempfile.mkdtemp(), verbose=0)

def apply(x, func=abs):
    return func(x)

assert apply(-3, func=abs) == 3
try:
    r = mem.eval(apply, -3, func=abs)
except TypeError as e:
    print("VIOLATION C06: mem.eval(apply, -3, func=abs) raised TypeError: %s" % e)
    sys.exit(1)
sys.exit(0 if r == 3 else 1)
