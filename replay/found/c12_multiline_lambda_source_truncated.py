"""C12: the source of a function is extracted by tokenizing the file FROM the
first line of the function.  For a lambda that continues on following physical
lines thanks to a bracket opened on an EARLIER line, the tokenizer (which does
not see that bracket) ends the 'block' at the end of the first physical line:
func_code.py holds 'lambda x: x *' only.  Editing the rest of the lambda
between sessions is not detected and the value computed by the old code is
returned.
"""
import os
import subprocess
import sys
import tempfile

ROOT = os.environ.get("JOBLIB_ROOT", "/repo")
d = tempfile.mkdtemp()
SRC = """import sys, warnings; warnings.simplefilter('ignore')
sys.path.insert(0, %r)
from joblib import Memory
mem = Memory(%r, verbose=0)
scale = mem.cache(
    lambda x: x *
    %%d
)
print(scale(1))
""" % (ROOT, os.path.join(d, "cache"))
env = dict(os.environ, PYTHONPATH=ROOT)


def session(k):
    path = os.path.join(d, "script.py")
    with open(path, "w") as fh:
        fh.write(SRC % k)
    p = subprocess.run([sys.executable, path], env=env, capture_output=True,
                       text=True, timeout=120)
    return p.stdout.strip()


r1 = session(10)
r2 = session(20)   # the lambda now multiplies by 20
if r1 != "10":
    print("unexpected setup", r1)
    sys.exit(0)
if r2 != "20":
    print("VIOLATION: edited lambda (x * 20) returned %s for x=1" % r2)
    sys.exit(1)
print("ok")
