"""Property B (C16): with return_as='generator_unordered' results are delivered
in completion order, each exactly once - no result may be lost, and since the
consumer never waits longer than `timeout` for the next result, no TimeoutError
may be raised.

Scenario: timeout=1s, a few long tasks (3s each, well started) and a steady
stream of short ones: a new result is ready every ~0.1s during the whole run.
"""

import faulthandler
import os
import sys
import time

ROOT = os.environ.get("JOBLIB_ROOT", "/repo")
sys.path.insert(0, ROOT)
os.environ["PYTHONPATH"] = ROOT + os.pathsep + os.environ.get("PYTHONPATH", "")

faulthandler.dump_traceback_later(180, exit=True)  # guard against hangs

import joblib  # noqa: E402
from joblib import Parallel, delayed  # noqa: E402

assert os.path.abspath(joblib.__file__).startswith(os.path.abspath(ROOT)), (
    joblib.__file__
)

N_LONG, N_SHORT = 3, 36
LONG, SHORT, TIMEOUT = 3.0, 0.1, 1.0


def work(i):
    time.sleep(LONG if i < N_LONG else SHORT)
    return i


def one_round(round_no):
    p = Parallel(
        n_jobs=N_LONG + 1,
        backend="threading",
        return_as="generator_unordered",
        timeout=TIMEOUT,
        pre_dispatch="n_jobs",
    )
    got = []
    longest_wait = 0.0
    t0 = last = time.time()
    try:
        for res in p(delayed(work)(i) for i in range(N_LONG + N_SHORT)):
            now = time.time()
            longest_wait = max(longest_wait, now - last)
            last = now
            got.append(res)
    except Exception as e:  # multiprocessing.TimeoutError is an Exception
        if max(longest_wait, time.time() - last) >= 0.8 * TIMEOUT:
            # the consumer really waited about `timeout` for a result (loaded machine): a legitimate time-out, nothing to conclude
            print(f"note: inconclusive round, waited {max(longest_wait, time.time() - last):.2f}s for a result")
            return None
        return (
            f"round {round_no}: {type(e).__name__} raised after "
            f"{time.time() - t0:.2f}s and {len(got)} results although the "
            f"longest wait for a result was {longest_wait:.2f}s "
            f"(timeout={TIMEOUT}s)"
        )
    if sorted(got) != list(range(N_LONG + N_SHORT)):
        return f"round {round_no}: results not delivered exactly once: {got}"
    if longest_wait > TIMEOUT:
        # machine too loaded for this demo to be meaningful
        print(f"note: longest wait {longest_wait:.2f}s > timeout")
    return None


def main():
    for round_no in (1, 2, 3):
        failure = one_round(round_no)
        if failure:
            print("VIOLATION C16: " + failure)
            return 1
    print("OK: all results delivered exactly once, no spurious TimeoutError")
    return 0


if __name__ == "__main__":
    code = main()
    sys.stdout.flush()
    os._exit(code)
