"""C20: the temporary memmap files of a live Parallel context are deleted
(their registration dropped with refcount > 0) when an *unrelated* Parallel
call that shares the reusable executor fails.

LokyBackend.abort_everything -> MemmappingExecutor.terminate(kill_workers=True)
-> TemporaryResourcesManager._clean_temporary_resources(context_id=None,
force=True) force-unregisters and deletes the folders of *all* contexts, not
only the one of the failing call.  The outer `with Parallel() as p1` still
holds its reference on the file (the 'extra' REGISTER of the forward reducer
has not been released) and cannot even run again afterwards.
"""
import os
import sys
import warnings

import numpy as np
from _common import check_joblib

joblib = check_joblib()
from joblib import Parallel, delayed  # noqa

warnings.simplefilter("ignore")


def fname(a):
    return a.filename


def first(a):
    return float(a[0])


def fail(i):
    raise ValueError("boom")


a = np.ones(300000)
msgs = []
with Parallel(n_jobs=2, backend="loky", timeout=120) as p1:
    (fn,) = p1([delayed(fname)(a)])
    assert os.path.exists(fn)
    try:
        Parallel(n_jobs=2, backend="loky", timeout=120)(delayed(fail)(i) for i in range(2))
    except ValueError:
        pass
    if not os.path.exists(fn):
        msgs.append(
            "file of the live outer context deleted by the failure of another Parallel call"
        )
    try:
        res = p1(delayed(first)(a) for _ in range(2))
        if res != [1.0, 1.0]:
            msgs.append("outer context returned %r" % (res,))
    except Exception as exc:  # noqa
        msgs.append("outer context can no longer run: %r" % (exc,))
if msgs:
    print("VIOLATION C20: " + "; ".join(msgs))
    sys.exit(1)
print("ok")
