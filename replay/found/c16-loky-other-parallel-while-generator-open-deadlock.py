"""C16/C01 (single thread, deterministic): while the output generator of
Parallel(n_jobs=2, backend='loky', return_as='generator') is still open,
calling ANOTHER Parallel object with backend='loky' and a different n_jobs
dead-locks the process: the second call wants to replace/resize the shared
reusable executor, holds the executor lock and waits for the executor manager
thread, which is itself blocked in the first Parallel's completion callback
(submit() needs the same lock).

    g = Parallel(n_jobs=2, backend='loky', return_as='generator')(20 tasks)
    next(g)
    Parallel(n_jobs=3, backend='loky')(4 tasks)      # never returns
    list(g)

Expected: both calls deliver exactly their values (or a clean error).
The scenario runs in a child process group so that it can be killed.
"""
import os
import signal
import subprocess
import sys
import time
import warnings


def f(i, d=0.1):
    time.sleep(d)
    return i


def child():
    from joblib import Parallel, delayed

    warnings.simplefilter("ignore")
    p1 = Parallel(n_jobs=2, backend="loky", return_as="generator")
    g = p1(delayed(f)(i) for i in range(20))
    first = next(g)
    p2 = Parallel(n_jobs=3, backend="loky")
    try:
        r2 = p2(delayed(f)(i, 0) for i in range(4))
        rest = list(g)
    except Exception:
        os._exit(4)  # a clean error: not the reported violation
    ok = first == 0 and r2 == list(range(4)) and rest == list(range(1, 20))
    os._exit(0 if ok else 3)


if __name__ == "__main__":
    if len(sys.argv) > 1 and sys.argv[1] == "child":
        child()
    proc = subprocess.Popen(
        [sys.executable, os.path.abspath(__file__), "child"],
        stdout=subprocess.DEVNULL,
        stderr=subprocess.DEVNULL,
        start_new_session=True,
    )
    try:
        rc = proc.wait(15)  # the whole scenario needs about 2s
    except subprocess.TimeoutExpired:
        os.killpg(proc.pid, signal.SIGKILL)
        proc.wait()
        print(
            "VIOLATION C16: second loky Parallel (other n_jobs) called while a "
            "generator of the first is open: process dead-locked (15s)"
        )
        sys.exit(1)
    if rc in (0, 4):
        print("ok (child exit code %d)" % rc)
        sys.exit(0)
    print("VIOLATION C16: wrong results, child exit code %r" % rc)
    sys.exit(1)
