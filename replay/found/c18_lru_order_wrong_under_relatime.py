"""
C18: reduce_size evicts the MOST recently used entry on a relatime mount (Linux default).

"Last access" is the st_atime of output.pkl, which joblib never sets itself.
With relatime the kernel refreshes atime on a read only if atime <= mtime (or
it is older than a day): the first cache hit of an entry updates it, later
hits do not. History: store A, store B, hit A, hit B, hit A. A is the most
recently used entry, but its atime is that of its first hit, older than B's:
reduce_size(items_limit=1) evicts A and keeps B instead of the LRU prefix [B].
(On a noatime mount hits never count at all.) Exit 0 on strictatime mounts.
"""
import os, sys, signal, tempfile, warnings
ROOT = os.environ.get("JOBLIB_ROOT", "/repo")
sys.path.insert(0, ROOT)
os.environ["PYTHONPATH"] = ROOT + os.pathsep + os.environ.get("PYTHONPATH", "")
signal.alarm(180)  # guard against hangs
warnings.simplefilter("ignore")
import logging; logging.disable(logging.CRITICAL)
import time
from joblib import Memory

base = os.environ.get("JOBLIB_REPRO_DIR") or os.path.dirname(os.path.abspath(__file__))
d = tempfile.mkdtemp(dir=base)     # a regular disk file system (relatime), not tmpfs
mem = Memory(d, verbose=0)
calls = []

def f(x):
    calls.append(x)
    return x

c = mem.cache(f)
for key in ("A", "B", "A", "B", "A"):     # 2 stores, then hits A, B, A
    c(key)
    time.sleep(0.05)
assert calls == ["A", "B"]
mem.reduce_size(items_limit=1)
kept = [k for k in ("A", "B") if c.check_call_in_cache(k)]
import shutil; shutil.rmtree(d, ignore_errors=True)
if kept != ["A"]:
    print("VIOLATION C18: accesses A,B,A,B,A then reduce_size(items_limit=1) kept %r; the most recently used entry is 'A'" % kept)
    sys.exit(1)
sys.exit(0)
