"""A Parallel(n_jobs=2) call must never run more than 2 tasks at once, also
when an earlier Parallel call in the same process used more workers."""
import os
import shutil
import sys
import tempfile
import time

root = os.environ.get("JOBLIB_ROOT")
if root:
    sys.path.insert(0, root)

from joblib import Parallel, delayed, parallel_config  # noqa: E402


def task(folder, i, bound, patience):
    """Register as running, then watch how many tasks run at the same time.

    Returns the largest number of simultaneously registered tasks seen. Leaves
    early as soon as the bound is exceeded; otherwise stays for `patience`
    seconds so that any extra worker has ample time to show up.
    """
    mine = os.path.join(folder, f"running-{i}-{os.getpid()}")
    with open(mine, "w"):
        pass
    seen = 0
    try:
        deadline = time.monotonic() + patience
        while time.monotonic() < deadline:
            seen = max(seen, len(os.listdir(folder)))
            if seen > bound:
                # let the siblings see it too, then leave
                time.sleep(0.2)
                break
            time.sleep(0.01)
    finally:
        os.unlink(mine)
    return seen, os.getpid()


def run(n_jobs, n_tasks, patience):
    folder = tempfile.mkdtemp(prefix="joblib_c15_")
    try:
        # A fixed inner_max_num_threads gives both calls the same worker
        # environment, so the second call reuses (and resizes) the executor of
        # the first one instead of starting a new one.
        with parallel_config(backend="loky", inner_max_num_threads=1):
            out = Parallel(n_jobs=n_jobs, batch_size=1)(
                delayed(task)(folder, i, n_jobs, patience)
                for i in range(n_tasks)
            )
    finally:
        shutil.rmtree(folder, ignore_errors=True)
    return max(s for s, _ in out), len({p for _, p in out})


def main():
    # 1. a first call with 4 workers (more workers than CPUs is allowed)
    seen, pids = run(4, 8, 0.3)
    if seen > 4:
        print(f"VIOLATION: n_jobs=4 ran {seen} tasks simultaneously")
        return 1
    # 2. then a call with n_jobs=2 in the same process
    seen, pids = run(2, 8, 1.0)
    if seen > 2 or pids > 2:
        print(
            f"VIOLATION: Parallel(n_jobs=2) after Parallel(n_jobs=4) ran "
            f"{seen} tasks simultaneously on {pids} worker processes"
        )
        return 1
    print("OK")
    return 0


if __name__ == "__main__":
    sys.exit(main())
