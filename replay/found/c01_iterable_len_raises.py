"""C01: Parallel calls len(iterable) whenever the input has a __len__ attribute (only to
print progress).  A finite iterable whose __len__ raises (e.g. tqdm(generator) /
objects of unknown length raise TypeError) works in the sequential loop
[f(*a, **k) for f, a, k in tasks] but makes Parallel raise TypeError, for every
n_jobs / backend, with verbose=0."""
import os, sys
JOBLIB_ROOT = os.environ.get("JOBLIB_ROOT", "/repo")
sys.path.insert(0, JOBLIB_ROOT)
os.environ["PYTHONPATH"] = JOBLIB_ROOT + os.pathsep + os.environ.get("PYTHONPATH", "")
from joblib import Parallel, delayed


class UnknownLength:
    """Iterable wrapper a la tqdm: defines __len__, which raises when unknown."""
    def __init__(self, it):
        self.it = it
    def __iter__(self):
        return iter(self.it)
    def __len__(self):
        raise TypeError("object of unknown length")


def sq(i):
    return i * i

tasks = [delayed(sq)(i) for i in range(5)]
expected = [f(*a, **k) for f, a, k in UnknownLength(tasks)]   # the sequential loop works
bad = []
for n_jobs in (1, 2):
    for return_as in ("list", "generator"):
        try:
            r = list(Parallel(n_jobs=n_jobs, backend="threading", return_as=return_as)(UnknownLength(tasks)))
            if r != expected:
                bad.append("n_jobs=%d %s: %r" % (n_jobs, return_as, r))
        except Exception as e:
            bad.append("n_jobs=%d %s: raised %r" % (n_jobs, return_as, e))
if bad:
    print("VIOLATION C01: sequential loop gives %r but Parallel: %s" % (expected, " | ".join(bad)))
    sys.exit(1)
print("ok")
sys.exit(0)
