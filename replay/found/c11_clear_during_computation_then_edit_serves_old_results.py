"""
C11 / C12: Memory.clear() by another user while a call is being computed.

Thread T computes cached f(2). While the function body runs, another user of
the directory calls Memory.clear(). T then stores its result: the function
directory is re-created holding a result but no func_code.py. After f is
edited, the first call re-creates func_code.py with the new code and the
result of the old code is served for f(2).
"""
import os, sys, signal, tempfile, warnings
ROOT = os.environ.get("JOBLIB_ROOT", "/repo")
sys.path.insert(0, ROOT)
os.environ["PYTHONPATH"] = ROOT + os.pathsep + os.environ.get("PYTHONPATH", "")
signal.alarm(180)  # guard against hangs
warnings.simplefilter("ignore")
import logging; logging.disable(logging.CRITICAL)
import threading
from joblib import Memory

d = tempfile.mkdtemp()
mem = Memory(d, verbose=0)
started, go = threading.Event(), threading.Event()

def f(x):
    started.set()
    go.wait(30)
    return ("v1", x)

c1 = mem.cache(f)
t = threading.Thread(target=c1, args=(2,))
t.start()
started.wait(30)
Memory(d, verbose=0).clear(warn=False)     # concurrent user clears the cache
go.set()
t.join(30)

def f(x):
    return ("v2", x)

c2 = mem.cache(f)
got = [c2(1), c2(2)]
if got != [("v2", 1), ("v2", 2)]:
    print("VIOLATION C11/C12: edited function returned %r" % (got,))
    sys.exit(1)
sys.exit(0)
