import os, sys; ROOT = os.environ.get("JOBLIB_ROOT", "/repo"); sys.path.insert(0, ROOT); os.environ["PYTHONPATH"] = ROOT + os.pathsep + os.environ.get("PYTHONPATH", "")
"""Unchanged tree, C05: the process is killed between the rename of
output.pkl and the rename of metadata.json (second os.replace of a cold
call). The entry then has a result but no metadata; get_metadata() returns {}
and _is_in_cache_and_valid passes this empty dict to the
cache_validation_callback. expires_after copes with it, but the callback
documented in doc/memory.rst, 'return metadata["duration"] > 1' (the keys
duration/time/input_args are documented as always present), raises KeyError:
every later call with these arguments raises in every fresh process, the
entry is never repaired."""
import shutil
import subprocess
import tempfile

KILLED = r'''
import os, sys
ROOT = os.environ["JOBLIB_ROOT"]
sys.path.insert(0, ROOT)
calls = {"n": 0}
real_replace = os.replace
def replace(src, dst, *a, **k):
    calls["n"] += 1
    if calls["n"] == 2:
        os._exit(9)            # killed before metadata.json gets its name
    return real_replace(src, dst, *a, **k)
os.replace = replace
import joblib
assert os.path.realpath(joblib.__file__).startswith(os.path.realpath(ROOT))
from joblib import Memory
sys.path.insert(0, os.environ["F_MODDIR"])
import found_c05_mod
Memory(os.environ["F_CACHE"], verbose=0).cache(found_c05_mod.slow)(4)
os._exit(3)
'''

FRESH = r'''
import os, sys, warnings
ROOT = os.environ["JOBLIB_ROOT"]
sys.path.insert(0, ROOT)
warnings.simplefilter("ignore")
import joblib
assert os.path.realpath(joblib.__file__).startswith(os.path.realpath(ROOT))
from joblib import Memory
sys.path.insert(0, os.environ["F_MODDIR"])
import found_c05_mod

def cache_validation_cb(metadata):
    # doc/memory.rst: only retrieve cached results for calls that take more
    # than 1s
    return metadata["duration"] > 1

f = Memory(os.environ["F_CACHE"], verbose=0).cache(
    found_c05_mod.slow, cache_validation_callback=cache_validation_cb)
value = f(4)
print("VALUE", value)
sys.exit(0 if value == 16 else 4)
'''


def main():
    base = tempfile.mkdtemp(prefix="found_c05_")
    try:
        moddir = os.path.join(base, "mod")
        os.makedirs(moddir)
        with open(os.path.join(moddir, "found_c05_mod.py"), "w") as fh:
            fh.write("def slow(x):\n    return x * x\n")
        env = dict(os.environ, JOBLIB_ROOT=ROOT, F_MODDIR=moddir,
                   F_CACHE=os.path.join(base, "cache"),
                   PYTHONDONTWRITEBYTECODE="1")
        kw = dict(env=env, stdout=subprocess.PIPE, stderr=subprocess.PIPE,
                  universal_newlines=True)
        killed = subprocess.run([sys.executable, "-c", KILLED], **kw)
        if killed.returncode != 9:
            print("setup failed (exit %s): %s" % (killed.returncode, killed.stderr))
            return 2
        problems = []
        for attempt in (1, 2):
            fresh = subprocess.run([sys.executable, "-c", FRESH], **kw)
            if fresh.returncode != 0:
                last = (fresh.stderr.strip().splitlines() or ["?"])[-1]
                problems.append("fresh process %d: exit %d %s %s"
                                % (attempt, fresh.returncode,
                                   fresh.stdout.strip(), last))
    finally:
        shutil.rmtree(base, ignore_errors=True)
    if problems:
        print("VIOLATION C05: after a kill between the renames of output.pkl "
              "and metadata.json, calls using the documented validation "
              "callback raise: " + "; ".join(problems))
        return 1
    print("ok")
    return 0


if __name__ == "__main__":
    sys.exit(main())
