"""C09: items are still taken from the input iterable after the output generator
has been closed (Parallel._aborting already True): the abort flag is only
looked at once per slice of n_jobs*batch_size items, not per item, and close()
then blocks until that slice has been pulled.

Parallel(n_jobs=2, backend='threading', return_as='generator', pre_dispatch=2,
batch_size=3)(gen()) where gen() needs 0.3s per item from the 3rd item on; the
consumer takes the first result and closes the generator while a callback
thread is inside its slice of 6 items.
Expected: no item is requested from the iterable once close() has begun.
Actual: several further items are requested (each one observed with
p._aborting == True), and close() takes > 1s.
"""
import sys
import time
import warnings

from joblib import Parallel, delayed

warnings.simplefilter("ignore")


def f(i):
    return i


started_while_aborting = []
start_times = {}


def gen(p):
    for i in range(40):
        # an item is being requested now
        start_times[i] = time.time()
        if getattr(p, "_aborting", False):
            started_while_aborting.append(i)
        if i >= 2:
            time.sleep(0.3)
        yield delayed(f)(i)


p = Parallel(
    n_jobs=2, backend="threading", return_as="generator", pre_dispatch=2, batch_size=3
)
g = p(gen(p))
first = next(g)
time.sleep(0.45)  # a callback thread is now in the middle of its slice
t_close = time.time()
g.close()
t_closed = time.time()
late = sorted(i for i, t in start_times.items() if t > t_close + 0.05)
if late or started_while_aborting:
    print(
        "VIOLATION C09: items %r requested from the iterable after close() began "
        "(%r of them with _aborting already True); close() took %.1fs"
        % (late, started_while_aborting, t_closed - t_close)
    )
    sys.exit(1)
print("ok")
sys.exit(0)
