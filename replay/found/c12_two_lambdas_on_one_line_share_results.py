import os, sys; ROOT = os.environ.get("JOBLIB_ROOT", "/repo"); sys.path.insert(0, ROOT); os.environ["PYTHONPATH"] = ROOT + os.pathsep + os.environ.get("PYTHONPATH", "")
"""C12 - two different lambdas written on the same source line are one function
for Memory: same identifier (<module>/<lambda>), same first line, and the same
"source" (get_func_code returns the whole logical line for either of them).
The second one silently returns the results of the first; not even the
JobLibCollisionWarning that lambdas usually trigger is emitted, because the
stored text and the "current" text are equal.

    inc, dbl = mem.cache(lambda x: x + 1), mem.cache(lambda x: x * 2)
    inc(5) -> 6        dbl(5) -> 6   WRONG (10)

(The two lambdas capture nothing: this is not the closure gotcha.  Lambdas
defined on different lines are told apart - with a warning - and recomputed.)

Property C12: a cached function never returns a value computed by different
source code (quantified over module-level, nested, lambda and __main__
functions).
"""
import shutil
import tempfile
import warnings

import joblib
from joblib import Memory

assert joblib.__file__.startswith(ROOT), joblib.__file__
work = tempfile.mkdtemp(prefix="u2d_")
try:
    mem = Memory(work, verbose=0)
    with warnings.catch_warnings(record=True) as caught:
        warnings.simplefilter("always")
        inc, dbl = mem.cache(lambda x: x + 1), mem.cache(lambda x: x * 2)
        a, b = inc(5), dbl(5)
        again = inc(5)
finally:
    shutil.rmtree(work, ignore_errors=True)

if (a, b, again) != (6, 10, 6):
    print("VIOLATION C12-U2d: inc(5), dbl(5), inc(5) returned %r, expected (6, 10, 6); "
          "warnings emitted: %d" % ((a, b, again), len(caught)))
    sys.exit(1)
print("ok:", (a, b, again))
sys.exit(0)
