"""C04 (loky variant of c04-iterable-baseexception-hang): an exception of the
input iterable that derives from BaseException but not Exception
(KeyboardInterrupt, SystemExit, a custom BaseException subclass) and is raised
while a callback thread pulls the next items is SWALLOWED with backend='loky':
the Parallel call returns normally with the results of the items produced
before the exception, as if the input had simply ended there.

    Parallel(n_jobs=2, backend='loky', pre_dispatch=2, batch_size=1)(gen())
    gen(): yields 6 tasks, then raises KeyboardInterrupt
Expected: KeyboardInterrupt raised in the caller.  Actual: returns [0..5].
"""
import os
import signal
import subprocess
import sys
import time
import warnings


def f(i):
    time.sleep(0.01)
    return i


def gen():
    from joblib import delayed

    for i in range(10):
        if i == 6:
            raise KeyboardInterrupt("from the iterable")
        yield delayed(f)(i)


def child():
    from joblib import Parallel

    warnings.simplefilter("ignore")
    p = Parallel(n_jobs=2, backend="loky", pre_dispatch=2, batch_size=1)
    try:
        r = p(gen())
    except KeyboardInterrupt:
        os._exit(0)
    except BaseException:  # noqa
        os._exit(4)
    with open(sys.argv[2], "w") as fh:
        fh.write(repr(r))
    os._exit(3)


if __name__ == "__main__":
    if len(sys.argv) > 1 and sys.argv[1] == "child":
        child()
    import tempfile

    fd, report = tempfile.mkstemp(suffix=".txt")
    os.close(fd)
    proc = subprocess.Popen(
        [sys.executable, os.path.abspath(__file__), "child", report],
        stdout=subprocess.DEVNULL,
        stderr=subprocess.DEVNULL,
        start_new_session=True,
    )
    try:
        rc = proc.wait(60)
    except subprocess.TimeoutExpired:
        rc = None
    try:
        os.killpg(proc.pid, signal.SIGKILL)
    except OSError:
        pass
    with open(report) as fh:
        out = fh.read()
    os.unlink(report)
    if rc == 0:
        print("ok: KeyboardInterrupt raised in the caller")
        sys.exit(0)
    if rc == 3:
        print(
            "VIOLATION C04: exception of the input iterable swallowed, Parallel "
            "returned %s as if the input had ended" % out
        )
    elif rc is None:
        print("VIOLATION C04: call hangs after the input iterable raised")
    else:
        print("VIOLATION C04: another exception type was raised (rc=%r)" % rc)
    sys.exit(1)
