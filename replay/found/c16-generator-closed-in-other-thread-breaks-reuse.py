"""C16: closing (or dropping) the output generator from a thread other than the
one that called Parallel marks the object as no longer running at once, but
the abort / terminate work is detached to a background thread.  A new call on
the same Parallel object right after close() returned races with that
clean-up: it fails with ValueError('Pool not running') (or loses its pool)
instead of returning the results of the new tasks.

    p = Parallel(n_jobs=2, backend='threading', return_as='generator')
    g = p(50 tasks); next(g)
    (other thread)  g.close()            # returns, p._running is False
    p(40 new tasks)                      # -> ValueError('Pool not running')

Up to 30 trials; each trial fails with probability ~0.7 on the test machine.
"""
import os
import sys
import threading
import time
import warnings

from joblib import Parallel, delayed

warnings.simplefilter("ignore")


def f(i, d=0.01):
    time.sleep(d)
    return i


result = {}


def scenario():
    for trial in range(30):
        p = Parallel(n_jobs=2, backend="threading", return_as="generator")
        box = [p(delayed(f)(i) for i in range(50))]
        next(box[0])

        def drop():
            box.pop().close()

        t = threading.Thread(target=drop)
        t.start()
        t.join()
        try:
            r = list(p(delayed(f)(i, 0.002) for i in range(100, 140)))
        except RuntimeError as e:
            if "already running" in str(e):
                continue  # refusing the call would be acceptable
            result["bad"] = "trial %d raised %r" % (trial, e)
            return
        except BaseException as e:  # noqa
            result["bad"] = "trial %d raised %r" % (trial, e)
            return
        if r != list(range(100, 140)):
            result["bad"] = "trial %d returned %r" % (trial, r)
            return
        time.sleep(0.05)
    result["ok"] = True


th = threading.Thread(target=scenario, daemon=True)
th.start()
th.join(120)
if th.is_alive():
    print("VIOLATION C16: reuse after close() from another thread hangs")
    sys.stdout.flush()
    os._exit(1)
if "bad" in result:
    print("VIOLATION C16: reuse after close() from another thread: " + result["bad"])
    sys.stdout.flush()
    os._exit(1)
print("ok")
os._exit(0)
