"""C01/C16: Parallel objects created inside one parallel_config(backend=...) block share ONE
backend instance.  When a second Parallel object runs to completion while the output
generator of the first is unfinished, the second call's terminate() destroys the pool /
executor handle of the shared instance: the tasks of the first run that were queued or
still to be dispatched are lost and iterating the first generator never ends (its
remaining results are never delivered).  Two *different* Parallel objects are used, so
no RuntimeError protects the user.  (Related to the known shared-ThreadingBackend item,
but here tasks are lost and the call hangs.)"""
import os, sys, subprocess
JOBLIB_ROOT = os.environ.get("JOBLIB_ROOT", "/repo")
sys.path.insert(0, JOBLIB_ROOT)
os.environ["PYTHONPATH"] = JOBLIB_ROOT + os.pathsep + os.environ.get("PYTHONPATH", "")

CHILD = r"""
import sys, time, warnings
sys.path.insert(0, %r)
warnings.simplefilter("ignore")
from joblib import Parallel, delayed, parallel_config
def f(i):
    time.sleep(0.02)
    return i
with parallel_config(backend="threading"):
    g1 = Parallel(n_jobs=2, return_as="generator")(delayed(f)(i) for i in range(30))
    first = next(g1)
    r2 = Parallel(n_jobs=2)(delayed(f)(i) for i in range(4))   # another object, runs to completion
    assert r2 == [0, 1, 2, 3], r2
    rest = list(g1)
assert [first] + rest == list(range(30)), rest
print("RESULT-OK")
""" % JOBLIB_ROOT

try:
    out = subprocess.run([sys.executable, "-c", CHILD], capture_output=True, text=True, timeout=25)
except subprocess.TimeoutExpired:
    print("VIOLATION C16/C01: generator of the first Parallel object never finishes after a "
          "second Parallel object of the same parallel_config block completed (30 tasks of 20ms, >25s)")
    sys.exit(1)
if "RESULT-OK" not in out.stdout:
    last = (out.stderr.strip().splitlines() or ["?"])[-1]
    print("VIOLATION C16/C01: first generator did not deliver its results: " + last)
    sys.exit(1)
print("ok")
sys.exit(0)
