"""C03: an object-dtype array is written with an independent inner
pickle.dump, so objects shared between the array and the rest of the value,
and cycles that go through the array, are not preserved."""
import io
import pickle
import sys

import numpy as np
from _common import check_joblib

joblib = check_joblib()


def roundtrip(value):
    buf = io.BytesIO()
    joblib.dump(value, buf)
    buf.seek(0)
    return joblib.load(buf)


msgs = []
x = [1, 2]
oa = np.empty(2, dtype=object)
oa[0] = x
value = [x, oa]
ref = pickle.loads(pickle.dumps(value))
assert ref[0] is ref[1][0]
out = roundtrip(value)
if out[0] is not out[1][0]:
    msgs.append("list shared between container and object array is duplicated")

# a cycle through an object array
lst = []
ra = np.empty(1, dtype=object)
ra[0] = lst
lst.append(ra)
ref = pickle.loads(pickle.dumps(lst))
assert ref[0][0] is ref
out = roundtrip(lst)
if out[0][0] is not out:
    msgs.append("cycle list -> object array -> list is not preserved")
if msgs:
    print("VIOLATION C03: " + "; ".join(msgs))
    sys.exit(1)
print("ok")
