"""
C06: equal set/dict arguments built in another order (or in another process) miss the cache.

Only `set` gets an order independent hash. 
 a) frozenset is pickled in iteration order: frozenset([0, 8]) and
    frozenset([8, 0]) are equal but iterate differently -> second call
    executes the body again and check_call_in_cache says False;
 b) dict keys that are only partially ordered (frozensets): sorted() keeps the
    insertion order -> {k1: .., k2: ..} and {k2: .., k1: ..} hash differently;
 c) across processes a frozenset of strings iterates in an order that depends
    on PYTHONHASHSEED: a later session recomputes.
"""
import os, sys, signal, tempfile, warnings
ROOT = os.environ.get("JOBLIB_ROOT", "/repo")
sys.path.insert(0, ROOT)
os.environ["PYTHONPATH"] = ROOT + os.pathsep + os.environ.get("PYTHONPATH", "")
signal.alarm(180)  # guard against hangs
warnings.simplefilter("ignore")
import logging; logging.disable(logging.CRITICAL)
import subprocess
from joblib import Memory

d = tempfile.mkdtemp()
mem = Memory(d, verbose=0)
calls = []

def f(s):
    calls.append(1)
    return len(s)

c = mem.cache(f)
bad = []

a, b = frozenset([0, 8]), frozenset([8, 0])
assert a == b
c(a)
in_cache = c.check_call_in_cache(b)
c(b)
if len(calls) != 1 or not in_cache:
    bad.append("a) frozenset([0, 8]) then frozenset([8, 0]): body executed %d times, check_call_in_cache=%r" % (len(calls), in_cache))

del calls[:]
k1, k2 = frozenset({1}), frozenset({2})
d1 = {k1: "a", k2: "b"}
d2 = {k2: "b", k1: "a"}
assert d1 == d2
c(d1); c(d2)
if len(calls) != 1:
    bad.append("b) dict with frozenset keys built in another order: body executed %d times" % len(calls))

PROG = r'''
import sys, warnings
warnings.simplefilter("ignore")
sys.path.insert(0, sys.argv[2])
import modfs
from joblib import Memory
mem = Memory(sys.argv[1], verbose=0)
mem.cache(modfs.f)(frozenset({"alpha", "beta", "gamma", "delta"}))
'''
open(os.path.join(d, "modfs.py"), "w").write("def f(s):\n    print('EXECUTED')\n    return len(s)\n")
runs = []
for seed in ("1", "2", "3", "4"):
    r = subprocess.run([sys.executable, "-c", PROG, d, d], env=dict(os.environ, PYTHONHASHSEED=seed),
                       capture_output=True, text=True, timeout=60, check=True)
    runs.append(r.stdout.count("EXECUTED"))
if sum(runs) != 1:
    bad.append("c) same frozenset of str in 4 processes (PYTHONHASHSEED=1..4): executions %r" % runs)

if bad:
    print("VIOLATION C06: " + "; ".join(bad))
    sys.exit(1)
sys.exit(0)
