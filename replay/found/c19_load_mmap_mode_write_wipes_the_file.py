import os, sys; ROOT = os.environ.get("JOBLIB_ROOT", "/repo"); sys.path.insert(0, ROOT); os.environ["PYTHONPATH"] = ROOT + os.pathsep + os.environ.get("PYTHONPATH", "")
"""U3-12 (C19, lower priority: the mode name is numpy's, not one joblib documents) - needs numpy.

Input: joblib.dump(np.arange(1000.), p) and then joblib.load(p, mmap_mode='write').
mmap_mode is handed unchanged to np.memmap, which accepts the long mode names
'readonly', 'copyonwrite', 'readwrite' and 'write' besides 'r', 'c', 'r+', 'w+'; the
first three load fine through joblib.

What happens: joblib protects the file against numpy's create-and-zero mode only by
the literal test `if unpickler.mmap_mode == "w+": unpickler.mmap_mode = "r+"` (same
test in _strided_from_memmap).  'write' means the same to numpy but slips through:
np.memmap re-creates the file, so load() WIPES the persisted object (all bytes zero),
then raises EOFError, and every later load of the file fails.  Parallel(mmap_mode=
'write') makes each worker wipe the temporary dump of the argument.

Property: C19 - loading an uncompressed file with an mmap mode yields arrays with
identical contents that are views on the file (all mmap modes); loading never destroys
the stored object.
Repair: normalise / validate mmap_mode once in load() (and Parallel), e.g. map numpy's
synonyms to the short names before the 'w+' -> 'r+' substitution, reject anything else.
"""
import tempfile, warnings
import numpy as np
import joblib

assert joblib.__file__.startswith(ROOT), joblib.__file__
warnings.simplefilter("ignore")
a = np.arange(1000.0)
d = tempfile.mkdtemp()
problems = []
# the other numpy spellings are accepted and behave
for mode in ("readonly", "copyonwrite", "readwrite"):
    p = os.path.join(d, mode + ".pkl")
    joblib.dump(a, p)
    r = joblib.load(p, mmap_mode=mode)
    assert isinstance(r, np.memmap) and np.array_equal(r, a), mode
    del r
p = os.path.join(d, "write.pkl")
joblib.dump(a, p)
before = open(p, "rb").read()
try:
    r = joblib.load(p, mmap_mode="write")
    outcome = "returned %s equal=%s" % (type(r).__name__, np.array_equal(r, a))
    del r
except Exception as e:
    outcome = "raised %s" % type(e).__name__
after = open(p, "rb").read()
if after != before:
    problems.append("load(p, mmap_mode='write') %s and left the file %s" % (
        outcome, "all zero bytes" if not any(after) else "modified"))
    try:
        joblib.load(p)
    except Exception as e:
        problems.append("a later plain load(p) raises %s" % type(e).__name__)
if problems:
    print("VIOLATION U3-12: " + " | ".join(problems))
    sys.exit(1)
print("ok")
