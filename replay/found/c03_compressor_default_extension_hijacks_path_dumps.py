import os, sys; ROOT = os.environ.get("JOBLIB_ROOT", "/repo"); sys.path.insert(0, ROOT); os.environ["PYTHONPATH"] = ROOT + os.pathsep + os.environ.get("PYTHONPATH", "")
"""U3-01 (C03 / C19) - needs numpy.

Input: a compressor registered the way joblib's own test-suite and the
CompressorWrapper signature invite to do it - CompressorWrapper(obj=..., prefix=...)
with the `extension` argument left at its default "" - then
    joblib.dump(array, "/some/dir/plain.pkl")            # compress=0, no extension
    Parallel(n_jobs=2, max_nbytes=100)(delayed(np.sum)(array) ...)

What happens: dump() picks the compressor of a path from
`filename.endswith(compressor.extension)`; every file name ends with "", so the
custom compressor is selected for EVERY path (the last registered one wins) and
compress=0 silently becomes "default level of that compressor".  The bytes on disk
are compressed although no compression was asked for, load(..., mmap_mode='r') can
no longer memory-map the file, and automatic memmapping in Parallel (which dumps
the big array to a path and reloads it with mmap_mode) breaks: the worker gets a
plain ndarray, `obj.filename` raises and the call dies with BrokenProcessPool.

Property: C03 - compress=0 to a path without compression extension writes an
uncompressed file (compress-argument resolution / extension-implied compressors);
C19 - loading an uncompressed file with mmap_mode yields memmaps and large arrays
passed to process workers through automatic memmapping present the same values.
"""
import io, tempfile, warnings, zlib
import numpy as np
import joblib
from joblib import dump, load, register_compressor, Parallel, delayed
from joblib.compressor import CompressorWrapper, BinaryZlibFile

assert joblib.__file__.startswith(ROOT), joblib.__file__


class MyFile(BinaryZlibFile):
    """A perfectly valid compressor file object (raw deflate stream with a magic)."""
    wbits = -zlib.MAX_WBITS

    def __init__(self, filename, mode="rb", compresslevel=3):
        BinaryZlibFile.__init__(self, filename, mode, compresslevel)
        if mode == "wb":
            self._fp.write(b"MYZ1")
        else:
            assert self._fp.read(4) == b"MYZ1"

    def _rewind(self):
        BinaryZlibFile._rewind(self)
        self._fp.read(4)


# extension not given: defaults to ""
register_compressor("myz", CompressorWrapper(obj=MyFile, prefix=b"MYZ1"))

d = tempfile.mkdtemp()
a = np.arange(5000.0)
problems = []

# sanity: the compressor itself round-trips when asked for explicitly
p = os.path.join(d, "explicit.bin")
dump(a, p, compress=("myz", 3))
assert np.array_equal(load(p), a)

p = os.path.join(d, "plain.pkl")
dump(a, p)  # compress=0
head = open(p, "rb").read(4)
if head == b"MYZ1":
    problems.append("dump(a, 'plain.pkl') [compress=0] wrote a 'myz'-compressed file (head %r)" % head)
with warnings.catch_warnings():
    warnings.simplefilter("ignore")
    m = load(p, mmap_mode="r")
if not isinstance(m, np.memmap):
    problems.append("load('plain.pkl', mmap_mode='r') -> %s, not a memmap" % type(m).__name__)

try:
    with warnings.catch_warnings():
        warnings.simplefilter("ignore")
        r = Parallel(n_jobs=2, max_nbytes=100)(delayed(np.sum)(a) for _ in range(2))
    if r != [a.sum(), a.sum()]:
        problems.append("Parallel returned %r" % (r,))
except Exception as e:
    problems.append("Parallel with automatic memmapping raised %s: %s" % (type(e).__name__, str(e)[:90]))

if problems:
    print("VIOLATION U3-01: " + " | ".join(problems))
    sys.exit(1)
print("ok")
