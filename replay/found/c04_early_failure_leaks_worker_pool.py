"""C04 - a call that fails before dispatch leaves a live pool of worker processes behind.

Input / configuration
    p = Parallel(n_jobs=2, backend='multiprocessing')
    p(Bad())            # Bad.__iter__ raises ValueError('broken input')
    (the same happens for an input that is not iterable at all, and for an
    invalid pre_dispatch string such as pre_dispatch='2*njobs', which raises
    ValueError from eval_expr)

What happens
    Parallel._call() first builds the backend (_initialize_backend():
    MultiprocessingBackend.configure() forks a MemmappingPool with 2 worker
    processes and 3 handler threads, start_call() is called, _calling = True) and
    only then evaluates iter(iterable) / eval_expr(pre_dispatch).  When one of
    these raises, the exception goes straight through Parallel.__call__ (which
    only resets the _running flag): nobody calls _terminate_and_reset(), so
    backend.stop_call() / backend.terminate() never run.  The exception of the
    input iterable is correctly raised in the caller, but the 2 worker processes
    and the pool's handler threads of the failed call stay alive for as long as
    the Parallel object lives (they are only reaped if the object is called again
    or garbage collected).

What the property demands
    C04: "an exception raised by the input iterable is raised in the caller ...
    afterwards the same Parallel object can be called again ..., with nothing
    left over from the failed call" (observation point: live threads / processes
    after the call).  A failed call has to release what it started, exactly as a
    call whose task failed does (that path goes through _get_outputs' finally).
"""
import os, sys; ROOT = os.environ.get("JOBLIB_ROOT", "/repo"); sys.path.insert(0, ROOT); os.environ["PYTHONPATH"] = ROOT + os.pathsep + os.environ.get("PYTHONPATH", "")

import multiprocessing as mp
import threading
import time
import warnings

warnings.simplefilter("ignore")

from joblib import Parallel, delayed


class Bad:
    def __iter__(self):
        raise ValueError("broken input")


def main():
    findings = []
    threads_before = threading.active_count()

    # 1. the input iterable raises in __iter__
    p = Parallel(n_jobs=2, backend="multiprocessing")
    try:
        p(Bad())
        print("unexpected: no exception")
        return 0
    except ValueError as e:
        assert e.args == ("broken input",)
    time.sleep(0.5)
    kids = [c.pid for c in mp.active_children()]
    extra_threads = threading.active_count() - threads_before
    if kids or extra_threads:
        findings.append(
            f"__iter__ raising: {len(kids)} worker processes {kids} and "
            f"{extra_threads} pool threads alive after the failed call "
            f"(backend._pool={p._backend._pool!r})"
        )

    # 2. invalid pre_dispatch expression, new object
    p2 = Parallel(n_jobs=2, backend="multiprocessing", pre_dispatch="2*njobs")
    before = set(c.pid for c in mp.active_children())
    try:
        p2(delayed(abs)(i) for i in range(3))
    except ValueError:
        pass
    time.sleep(0.5)
    kids2 = sorted(set(c.pid for c in mp.active_children()) - before)
    if kids2:
        findings.append(
            f"invalid pre_dispatch: {len(kids2)} more worker processes {kids2} alive"
        )

    # clean up what the library left behind
    for q in (p, p2):
        try:
            q._backend.terminate()
        except Exception:
            pass

    if findings:
        print("VIOLATION C04: a Parallel call that failed before dispatching left its "
              "worker pool running: " + "; ".join(findings))
        return 1
    print("no leftover processes/threads")
    return 0


if __name__ == "__main__":
    sys.exit(main())
