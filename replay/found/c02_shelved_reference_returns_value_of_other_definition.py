"""
C02 / C12: a shelved reference obtained from the old definition returns the new definition's value.

A MemorizedResult only records (func_id, args_id). After the function has been
redefined under the same name and called with the same arguments, the old
reference's get() returns the value computed by the NEW code, not the value
of the call that produced the reference (nor an error).
"""
import os, sys, signal, tempfile, warnings
ROOT = os.environ.get("JOBLIB_ROOT", "/repo")
sys.path.insert(0, ROOT)
os.environ["PYTHONPATH"] = ROOT + os.pathsep + os.environ.get("PYTHONPATH", "")
signal.alarm(180)  # guard against hangs
warnings.simplefilter("ignore")
import logging; logging.disable(logging.CRITICAL)
from joblib import Memory
mem = Memory(tempfile.mkdtemp(), verbose=0)

def g(x):
    return ("old", x)
g_old = g
ref = mem.cache(g_old).call_and_shelve(1)

def g(x):
    return ("new", x)
mem.cache(g)(1)

try:
    got = ref.get()
except KeyError:
    sys.exit(0)         # an invalidated reference would be acceptable
if got != g_old(1):
    print("VIOLATION C02/C12: reference shelved by the old definition returns %r, the call it stands for returned %r" % (got, g_old(1)))
    sys.exit(1)
sys.exit(0)
