"""C17 (prefer is only a hint): when multiprocessing is disabled with the
documented switch JOBLIB_MULTIPROCESSING=0 (only the 'threading' and
'sequential' backends exist), the soft hint prefer='processes' makes Parallel
crash with KeyError('loky') instead of falling back to the available backend:

    JOBLIB_MULTIPROCESSING=0
    Parallel(n_jobs=2, prefer='processes')(delayed(abs)(-i) for i in range(3))
    with parallel_config(prefer='processes'): Parallel(n_jobs=2)

Expected: [0, 1, 2] computed with the default (thread) backend.
"""
import os
import sys

os.environ["JOBLIB_MULTIPROCESSING"] = "0"

from joblib import Parallel, delayed, parallel_config  # noqa: E402

bad = []
try:
    r = Parallel(n_jobs=2, prefer="processes")(delayed(abs)(-i) for i in range(3))
    if r != [0, 1, 2]:
        bad.append("wrong result %r" % (r,))
except BaseException as e:  # noqa
    bad.append("Parallel(prefer='processes') raised %r" % (e,))
try:
    with parallel_config(prefer="processes"):
        r = Parallel(n_jobs=2)(delayed(abs)(-i) for i in range(3))
    if r != [0, 1, 2]:
        bad.append("wrong result %r" % (r,))
except BaseException as e:  # noqa
    bad.append("parallel_config(prefer='processes') raised %r" % (e,))

if bad:
    print("VIOLATION C17: " + "; ".join(bad))
    sys.exit(1)
print("ok")
sys.exit(0)
