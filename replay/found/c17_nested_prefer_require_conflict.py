"""C17: prefer='processes' set by one parallel_config block and
require='sharedmem' set by another (nested) block make Parallel() raise
ValueError instead of yielding a thread-based backend (require is a hard
constraint, prefer only a hint; innermost context should win over outer)."""
import os, sys
JOBLIB_ROOT = os.environ.get("JOBLIB_ROOT", "/repo")
sys.path.insert(0, JOBLIB_ROOT)
os.environ["PYTHONPATH"] = JOBLIB_ROOT + os.pathsep + os.environ.get("PYTHONPATH", "")
from joblib import Parallel, delayed, parallel_config

bad = []
for outer, inner in [
    (dict(prefer="processes"), dict(require="sharedmem")),
    (dict(require="sharedmem"), dict(prefer="processes")),
]:
    try:
        with parallel_config(**outer):
            with parallel_config(**inner):
                p = Parallel(n_jobs=2)
                r = p(delayed(abs)(-i) for i in range(3))
        if not getattr(p._backend, "supports_sharedmem", False) or r != [0, 1, 2]:
            bad.append("outer=%r inner=%r -> backend %s, result %r"
                       % (outer, inner, type(p._backend).__name__, r))
    except ValueError as e:
        bad.append("outer=%r inner=%r -> ValueError(%s)" % (outer, inner, e))
if bad:
    print("VIOLATION C17: " + " | ".join(bad))
    sys.exit(1)
print("ok")
sys.exit(0)
