"""C07: for a bound method whose function receives the instance through
*args (``def m(*args, **kw)``), filter_args invents a parameter named after
the var-positional ('args') bound to the instance, and drops the instance
from '*'.  Python binds args == (instance, 1, 2)."""
import sys

from _common import check_joblib

check_joblib()
from joblib.func_inspect import filter_args  # noqa


class C:
    def m(*args, **kw):
        return args, kw


c = C()
py_args, py_kw = c.m(1, 2, x=3)
assert py_args == (c, 1, 2) and py_kw == {"x": 3}
expected = {"*": [c, 1, 2], "**": {"x": 3}}
got = filter_args(c.m, [], (1, 2), {"x": 3})
msgs = []
if got != expected:
    msgs.append("filter_args(c.m, [], (1, 2), {'x': 3}) == %r, expected %r" % (got, expected))
# ignoring '*' must remove all surplus positionals, i.e. everything but '**'
got = filter_args(c.m, ["*"], (1, 2), {"x": 3})
if got != {"**": {"x": 3}}:
    msgs.append("with ignore=['*'] got %r" % (got,))
if msgs:
    print("VIOLATION C07: " + "; ".join(msgs))
    sys.exit(1)
print("ok")
