"""C04: inside `with Parallel(n_jobs=2, backend='loky', initializer=...)`, a
call whose task raises makes the backend rebuild its executor WITHOUT the
settings of the Parallel object (LokyBackend.abort_everything re-configures
with n_jobs only).  The next call on the same object then runs in workers that
were never initialised and returns different results.

before failure: [42, 42, 42, 42]; after failure: [None, None, None, None]
"""
import sys
import time
import warnings

from joblib import Parallel, delayed

warnings.simplefilter("ignore")


def init(v):
    import builtins

    builtins._G1_INIT = v


def f(i):
    import builtins

    return getattr(builtins, "_G1_INIT", None)


def boom(i):
    if i == 1:
        raise ValueError("x")
    time.sleep(0.1)
    return f(i)


if __name__ == "__main__":
    with Parallel(n_jobs=2, backend="loky", initializer=init, initargs=(42,)) as p:
        before = p(delayed(f)(i) for i in range(4))
        try:
            p(delayed(boom)(i) for i in range(4))
        except ValueError:
            pass
        after = p(delayed(f)(i) for i in range(4))
    if before == [42] * 4 and after != [42] * 4:
        print(
            "VIOLATION C04: after a failed call the same Parallel returns %r "
            "instead of %r" % (after, before)
        )
        sys.exit(1)
    print("ok", before, after)
    sys.exit(0)
