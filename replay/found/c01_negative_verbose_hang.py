"""C01: a negative verbose level (an int, 'non zero -> progress messages') with
0 < n_tasks <= |verbose| makes print_progress divide by zero
(frequency = total_tasks // verbose + 1 == 0).  In a parallel run the
ZeroDivisionError is raised inside the completion callback (backend thread): the
thread-pool's result handler dies, the remaining tasks are never accounted for and
Parallel(...)(tasks) never returns (n_jobs=1 is checked too, for reference)."""
import os, sys, subprocess
JOBLIB_ROOT = os.environ.get("JOBLIB_ROOT", "/repo")
sys.path.insert(0, JOBLIB_ROOT)
os.environ["PYTHONPATH"] = JOBLIB_ROOT + os.pathsep + os.environ.get("PYTHONPATH", "")

CHILD = r"""
import sys, time
sys.path.insert(0, %r)
from joblib import Parallel, delayed
def f(i):
    time.sleep(0.01)
    return i
n_jobs = int(sys.argv[1])
r = Parallel(n_jobs=n_jobs, backend="threading", verbose=-10)(delayed(f)(i) for i in range(5))
assert r == list(range(5)), r
print("RESULT-OK")
""" % JOBLIB_ROOT

bad = []
for n_jobs in (2, 1):
    try:
        out = subprocess.run([sys.executable, "-c", CHILD, str(n_jobs)], capture_output=True,
                             text=True, timeout=20)
        if "RESULT-OK" not in out.stdout:
            last = (out.stderr.strip().splitlines() or ["?"])[-1]
            bad.append("n_jobs=%d: no result (%s)" % (n_jobs, last))
    except subprocess.TimeoutExpired:
        bad.append("n_jobs=%d: call did not return within 20s (5 tasks of 10ms)" % n_jobs)
if bad:
    print("VIOLATION C01: Parallel(verbose=-10) on 5 tasks: " + " | ".join(bad))
    sys.exit(1)
print("ok")
sys.exit(0)
