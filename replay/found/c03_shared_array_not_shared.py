"""C03: shared references to a numpy array are not preserved by dump/load.

NumpyPickler.save() never memoizes the array: [a, a] is written as two
independent copies and comes back as two distinct arrays (pickle itself
returns the same object twice).  Writing through one alias after load no
longer shows through the other one.
"""
import io
import pickle
import sys

import numpy as np
from _common import check_joblib

joblib = check_joblib()
a = np.arange(5)
value = {"x": a, "y": a}
ref = pickle.loads(pickle.dumps(value))
assert ref["x"] is ref["y"]
msgs = []
for compress in (0, 3):
    buf = io.BytesIO()
    joblib.dump(value, buf, compress=compress)
    size = len(buf.getvalue())
    buf.seek(0)
    out = joblib.load(buf)
    if out["x"] is not out["y"]:
        msgs.append("compress=%r: out['x'] is not out['y']" % (compress,))
if msgs:
    print("VIOLATION C03: shared array reference lost: " + "; ".join(msgs))
    sys.exit(1)
print("ok")
