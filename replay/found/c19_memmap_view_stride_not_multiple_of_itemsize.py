import os, sys; ROOT = os.environ.get("JOBLIB_ROOT", "/repo"); sys.path.insert(0, ROOT); os.environ["PYTHONPATH"] = ROOT + os.pathsep + os.environ.get("PYTHONPATH", "")
"""U3-03 (C19) - needs numpy.

Input: a user np.memmap of a packed record dtype [('b','<i4'),('a','u1')] (item size
5) with 820 records, and the field view m['b'] (int32, stride 5, i.e. a stride that is
not a multiple of the item size) passed to a process worker:
    Parallel(n_jobs=2)(delayed(last_and_sum)(m['b']) ...)

What happens: _reduce_memmap_backed sends a non-contiguous view as (offset, strides,
total_buffer_len) with total_buffer_len = (a_end - a_start) // a.itemsize.  The byte
extent of the view is (820-1)*5 + 4 = 4099 bytes, the floor division gives 1024 items
= 4096 bytes, so _strided_from_memmap maps 3 bytes too few and as_strided reads the
last element beyond the mapping (here: beyond the mapped page).  The task sees a
garbage last element (or the worker segfaults); nothing is raised.

Property: C19 - arrays passed to process workers through memmapping (memmap-backed
views are re-opened in the worker) present the same values to the task.
Repair: round the buffer length up (-(-(a_end - a_start) // itemsize)) or map the
enclosing buffer as bytes.
"""
import subprocess, tempfile
import numpy as np
import joblib

assert joblib.__file__.startswith(ROOT), joblib.__file__

if len(sys.argv) > 1:
    # child: rebuild the view exactly as a worker would and look at it
    import pickle
    f, args = pickle.load(open(sys.argv[1], "rb"))
    b = f(*args)
    print("RESULT", int(b[-1]), int(b.sum()))
    sys.exit(0)

from joblib._memmapping_reducer import ArrayMemmapForwardReducer
import pickle

d = tempfile.mkdtemp()
fn = os.path.join(d, "records.bin")
n = 820
m = np.memmap(fn, dtype=np.dtype([("b", "<i4"), ("a", "u1")]), mode="w+", shape=(n,))
m["a"] = 7
m["b"] = np.arange(n) + 1000
m.flush()
v = m["b"]
expected = (int(v[-1]), int(v.sum()))

problems = []
# 1. what the reducer used for process workers produces, rebuilt in a fresh process
red = ArrayMemmapForwardReducer(None, lambda: d, "r", False)
pk = os.path.join(d, "reduced.pkl")
pickle.dump(red(v), open(pk, "wb"))
cp = subprocess.run([sys.executable, __file__, pk], capture_output=True, text=True, timeout=60)
line = [l for l in cp.stdout.splitlines() if l.startswith("RESULT")]
if cp.returncode != 0 or not line:
    problems.append("rebuilding the view crashed the process (exit %s)" % cp.returncode)
else:
    got = tuple(int(x) for x in line[0].split()[1:])
    if got != expected:
        problems.append("rebuilt view: (last, sum) = %r, expected %r" % (got, expected))

# 2. end to end through Parallel
def last_and_sum(x):
    return int(x[-1]), int(x.sum())

try:
    from joblib import Parallel, delayed
    r = Parallel(n_jobs=2)(delayed(last_and_sum)(v) for _ in range(2))
    if any(x != expected for x in r):
        problems.append("tasks saw (last, sum) = %r, parent has %r" % (r, expected))
except Exception as e:
    problems.append("Parallel raised %s: %s" % (type(e).__name__, str(e)[:80]))

if problems:
    print("VIOLATION U3-03: " + " | ".join(problems))
    sys.exit(1)
print("ok")
