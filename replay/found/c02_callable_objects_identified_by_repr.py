"""
C02 (C12): callables that are not plain functions are identified by repr() only.

For functools.partial objects and callable instances the func_id is
"<module>/unknown" and the stored "code" is repr(callable); the state of the
callable (bound partial arguments, instance attributes) is not hashed.
 a) two partials whose bound arguments have the same repr share results;
 b) a callable instance allocated at the address of a freed one (same
    "<C object at 0x...>" repr) is served the results of the dead instance.
"""
import os, sys, signal, tempfile, warnings
ROOT = os.environ.get("JOBLIB_ROOT", "/repo")
sys.path.insert(0, ROOT)
os.environ["PYTHONPATH"] = ROOT + os.pathsep + os.environ.get("PYTHONPATH", "")
signal.alarm(180)  # guard against hangs
warnings.simplefilter("ignore")
import logging; logging.disable(logging.CRITICAL)
import functools, dataclasses
from joblib import Memory

mem = Memory(tempfile.mkdtemp(), verbose=0)
bad = []

@dataclasses.dataclass
class Cfg:
    name: str
    power: int = dataclasses.field(default=1, repr=False)

def power(cfg, x):
    return x ** cfg.power

p1 = functools.partial(power, Cfg("a", 1))
p2 = functools.partial(power, Cfg("a", 2))
c1, c2 = mem.cache(p1), mem.cache(p2)
got = (c1(3), c2(3))
if got != (p1(3), p2(3)):
    bad.append("partials: cached %r, plain %r" % (got, (p1(3), p2(3))))

class Scale:
    def __init__(self, k):
        self.k = k
    def __call__(self, x):
        return self.k * x

for k in range(1, 20):
    s = Scale(k)
    got = mem.cache(s)(5)
    if got != s(5):
        bad.append("callable instance Scale(%d): cached %r, plain %r" % (k, got, s(5)))
        break
    del s

if bad:
    print("VIOLATION C02: " + "; ".join(bad))
    sys.exit(1)
sys.exit(0)
