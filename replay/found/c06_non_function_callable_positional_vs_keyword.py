"""
C06: for callables that are not plain functions the call form is part of the hash.

filter_args() does not bind the arguments of functools.partial objects (or
other non-function callables): p(2) and p(b=2) are the same call but are
hashed as {'*': [2], '**': {}} and {'*': [], '**': {'b': 2}}: the second form
executes the body again.
"""
import os, sys, signal, tempfile, warnings
ROOT = os.environ.get("JOBLIB_ROOT", "/repo")
sys.path.insert(0, ROOT)
os.environ["PYTHONPATH"] = ROOT + os.pathsep + os.environ.get("PYTHONPATH", "")
signal.alarm(180)  # guard against hangs
warnings.simplefilter("ignore")
import logging; logging.disable(logging.CRITICAL)
import functools
from joblib import Memory

mem = Memory(tempfile.mkdtemp(), verbose=0)
calls = []

def g(a, b):
    calls.append(1)
    return a + b

p = functools.partial(g, 1)
c = mem.cache(p)
c(2)
in_cache = c.check_call_in_cache(b=2)
c(b=2)
if len(calls) != 1 or not in_cache:
    print("VIOLATION C06: partial p(2) then p(b=2): body executed %d times, check_call_in_cache=%r" % (len(calls), in_cache))
    sys.exit(1)
sys.exit(0)
