"""C19/C03: arrays whose dtype has itemsize 0 ('V0', the empty structured
dtype) are picklable but joblib.dump raises ZeroDivisionError
(buffersize = 16 MiB // array.itemsize in NumpyArrayWrapper.write_array)."""
import io
import pickle
import sys

import numpy as np
from _common import check_joblib

joblib = check_joblib()
msgs = []
for dt in ("V0", np.dtype([])):
    a = np.zeros(3, dtype=dt)
    b = pickle.loads(pickle.dumps(a))
    assert b.dtype == a.dtype and b.shape == a.shape
    try:
        buf = io.BytesIO()
        joblib.dump(a, buf)
        buf.seek(0)
        out = joblib.load(buf)
        if out.dtype != a.dtype or out.shape != a.shape:
            msgs.append("%r: came back as %r %r" % (dt, out.dtype, out.shape))
    except Exception as exc:  # noqa
        msgs.append("dtype %r: %r" % (dt, exc))
if msgs:
    print("VIOLATION C19: " + "; ".join(msgs))
    sys.exit(1)
print("ok")
