import os, sys; ROOT = os.environ.get("JOBLIB_ROOT", "/repo"); sys.path.insert(0, ROOT); os.environ["PYTHONPATH"] = ROOT + os.pathsep + os.environ.get("PYTHONPATH", "")
# A resource name containing a newline (a legal POSIX file name) is written
# verbatim into the line-based request pipe: the resource tracker reads it as
# two requests. The registered file is never tracked, and a path that was never
# registered ("victim") gets registered and is deleted when the client exits.
import subprocess
import tempfile

import joblib

assert os.path.abspath(joblib.__file__).startswith(os.path.abspath(ROOT)), joblib.__file__

CLIENT = r"""
import os, sys
sys.path.insert(0, os.environ["JOBLIB_ROOT_RESOLVED"])
from joblib.externals.loky.backend import resource_tracker as rt
base = sys.argv[1]
victim = os.path.join(base, "victim.txt")                 # never registered
odd = os.path.join(base, "a:file\nREGISTER:" + victim)    # registered (legal file name)
os.makedirs(os.path.dirname(odd), exist_ok=True)
open(odd, "wb").write(b"tmp")
rt.register(odd, "file")
# the client exits with `odd` registered: the tracker must delete `odd` and nothing else
"""

env = dict(os.environ, JOBLIB_ROOT_RESOLVED=ROOT)
with tempfile.TemporaryDirectory() as base:
    victim = os.path.join(base, "victim.txt")
    with open(victim, "w") as f:
        f.write("user data, never registered")
    res = subprocess.run([sys.executable, "-c", CLIENT, base], env=env,
                         capture_output=True, text=True, timeout=60)
    odd = os.path.join(base, "a:file\nREGISTER:" + victim)
    victim_deleted = not os.path.exists(victim)
    odd_left = os.path.exists(odd)
# a registration that is REFUSED (the client gets an exception) registers nothing: then only the bystander matters
refused = res.returncode != 0 and "ValueError" in res.stderr
if victim_deleted or (odd_left and not refused):
    print("VIOLATION C20: register(%r, 'file') then client exit: unregistered file deleted=%s, "
          "registered file left on disk=%s" % ("<base>/a:file\\nREGISTER:<base>/victim.txt", victim_deleted, odd_left))
    sys.exit(1)
print("ok")
sys.exit(0)
