import os, sys
ROOT = os.environ.get("JOBLIB_ROOT", "/repo")
sys.path.insert(0, ROOT)
os.environ["PYTHONPATH"] = ROOT + os.pathsep + os.environ.get("PYTHONPATH", "") if os.environ.get("PYTHONPATH") else ROOT
# C08: a numpy dtype object is fed straight into the digest and leaves NOTHING in the
# pickle stream that is hashed at the end, so its position among non-array leaves is lost:
# hash([dtype, 1]) == hash([1, dtype]).
import numpy as np
import joblib
dt = np.dtype("f4")
pairs = [([dt, 1], [1, dt]), ((dt, "a"), ("a", dt)), ([dt, None, "x"], [None, "x", dt])]
for a, b in pairs:
    if joblib.hash(a) == joblib.hash(b):
        print("VIOLATION C08: joblib.hash(%r) == joblib.hash(%r)" % (a, b))
        sys.exit(1)
sys.exit(0)
