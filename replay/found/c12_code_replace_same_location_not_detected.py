"""
C12: a swapped code object that still points to the same file/line is not detected.

When func.__code__ is replaced, MemorizedFunc re-reads the "source of the new
code" from co_filename at co_firstlineno. A code object derived with
code.replace(...) (or compiled from an edited copy of the source with the
original file name, as hot-reloaders and patching tools do) keeps the file
name and first line of the original: the text read from disk is the OLD
source, equal to the stored func_code.py, and the values cached by the old
code are returned for the new code.
"""
import os, sys, signal, tempfile, warnings
ROOT = os.environ.get("JOBLIB_ROOT", "/repo")
sys.path.insert(0, ROOT)
os.environ["PYTHONPATH"] = ROOT + os.pathsep + os.environ.get("PYTHONPATH", "")
signal.alarm(180)  # guard against hangs
warnings.simplefilter("ignore")
import logging; logging.disable(logging.CRITICAL)
from joblib import Memory
mem = Memory(tempfile.mkdtemp(), verbose=0)

def f(x):
    return x + 1000

c = mem.cache(f)
r1 = c(1)                                              # 1001
consts = tuple(2000 if k == 1000 else k for k in f.__code__.co_consts)
f.__code__ = f.__code__.replace(co_consts=consts)      # f now computes x + 2000
r2 = c(1)
if r2 != f(1):
    print("VIOLATION C12: after swapping f.__code__ the cached call returned %r, the function returns %r" % (r2, f(1)))
    sys.exit(1)
sys.exit(0)
