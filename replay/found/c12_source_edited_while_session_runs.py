"""
C12: results of the running (old) code are filed under the source text found on disk.

get_func_code() reads the function's source from its file at call time, not
the source of the code object that is actually running. Session 1 imports
mod.f (version 1); the file is then edited to version 2 while the session is
still running; session 1 makes its first cached call f(1): the value is
computed by version 1 but func_code.py records the text of version 2.
Session 2 (which really runs version 2) finds "unchanged" code and returns
the value computed by version 1.
"""
import os, sys, signal, tempfile, warnings
ROOT = os.environ.get("JOBLIB_ROOT", "/repo")
sys.path.insert(0, ROOT)
os.environ["PYTHONPATH"] = ROOT + os.pathsep + os.environ.get("PYTHONPATH", "")
signal.alarm(180)  # guard against hangs
warnings.simplefilter("ignore")
import logging; logging.disable(logging.CRITICAL)
import subprocess
d = tempfile.mkdtemp()
S1 = r'''
import sys, warnings
warnings.simplefilter("ignore")
d = sys.argv[1]; sys.path.insert(0, d)
import modx                                   # version 1 is loaded
from joblib import Memory
mem = Memory(d + "/cache", verbose=0)
open(d + "/modx.py", "w").write("def f(x):\n    return ('v2', x)\n")   # user saves an edit
print(mem.cache(modx.f)(1))
'''
S2 = r'''
import sys, warnings
warnings.simplefilter("ignore")
d = sys.argv[1]; sys.path.insert(0, d)
import modx                                   # version 2 is loaded
from joblib import Memory
mem = Memory(d + "/cache", verbose=0)
print(mem.cache(modx.f)(1)); print(modx.f(1))
'''
open(d + "/modx.py", "w").write("def f(x):\n    return ('v1', x)\n")
env = dict(os.environ, PYTHONDONTWRITEBYTECODE="1")
subprocess.run([sys.executable, "-c", S1, d], env=env, check=True, timeout=60, capture_output=True)
r = subprocess.run([sys.executable, "-c", S2, d], env=env, check=True, timeout=60, capture_output=True, text=True)
cached, plain = r.stdout.split("\n")[:2]
if cached != plain:
    print("VIOLATION C12: session 2 runs code returning %s but the cached call returned %s" % (plain, cached))
    sys.exit(1)
sys.exit(0)
