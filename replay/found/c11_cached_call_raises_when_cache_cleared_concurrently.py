"""
C11: a cached call raises FileNotFoundError because another user clears the cache.

_check_previous_func_code() -> _write_func_code() -> store_cached_func_code()
does "if not exists(func_dir): makedirs(func_dir)" and then
open(func_dir/func_code.py, 'wb') with no protection: when another user of the
directory runs Memory.clear() in between (or between the creation of the
parent and of the child directory inside makedirs), FileNotFoundError escapes
from the cached call although the function could simply have been computed.

Default mode forces the interleaving deterministically: the caller's store
backend opens func_code.py only after another thread has run Memory.clear()
(i.e. the clear is scheduled between the exists() check and the open()).
`--stress SECONDS` runs the unforced race instead (1 clearing process, 4
calling processes; it showed up once per ~100 000 calls here).
"""
import os, sys, signal, tempfile, warnings
ROOT = os.environ.get("JOBLIB_ROOT", "/repo")
sys.path.insert(0, ROOT)
os.environ["PYTHONPATH"] = ROOT + os.pathsep + os.environ.get("PYTHONPATH", "")
signal.alarm(180)  # guard against hangs
warnings.simplefilter("ignore")
import logging; logging.disable(logging.CRITICAL)
import threading, time, types, traceback
from joblib import Memory

def f(x):
    return 2 * x

def forced():
    d = tempfile.mkdtemp()
    mem = Memory(d, verbose=0)
    c = mem.cache(f)
    backend = c.store_backend
    real_open = backend._open_item
    def open_after_concurrent_clear(name, mode="r", *a, **k):
        if str(name).endswith("func_code.py") and "w" in mode:
            t = threading.Thread(target=lambda: Memory(d, verbose=0).clear(warn=False))
            t.start(); t.join(30)          # the other user's clear() runs exactly now
        return real_open(name, mode, *a, **k)
    backend._open_item = open_after_concurrent_clear
    try:
        r = c(3)
    except OSError as e:
        return "cached call raised %r" % (e,)
    return None if r == 6 else "wrong value %r" % (r,)

def stress(seconds):
    import multiprocessing as mp
    d = tempfile.mkdtemp()
    stop, q = mp.Event(), mp.Queue()
    def clearer():
        m = Memory(d, verbose=0)
        while not stop.is_set():
            try: m.clear(warn=False)
            except OSError: pass
    def caller():
        m = Memory(d, verbose=0)
        i = 0
        while not stop.is_set():
            i += 1
            try:
                # a fresh function object each time, as in a freshly started process
                g = types.FunctionType(f.__code__, globals(), "f")
                if m.cache(g)(i % 5) != 2 * (i % 5): q.put("wrong value")
            except Exception:
                q.put(traceback.format_exc().strip().splitlines()[-1])
    ps = [mp.Process(target=clearer)] + [mp.Process(target=caller) for _ in range(4)]
    for p in ps: p.start()
    found = None
    t0 = time.time()
    while time.time() - t0 < seconds and found is None:
        try: found = q.get(timeout=0.2)
        except Exception: pass
    stop.set()
    for p in ps:
        p.join(5)
        if p.is_alive(): p.terminate()
    return found and "cached call raised: " + found

if __name__ == "__main__":
    if len(sys.argv) > 2 and sys.argv[1] == "--stress":
        signal.alarm(int(float(sys.argv[2])) + 60)
        msg = stress(float(sys.argv[2]))
    else:
        msg = forced()
    if msg:
        print("VIOLATION C11: " + msg)
        sys.exit(1)
    sys.exit(0)
