"""7f14f4d: a user compressor registered without a magic number (the documented
default prefix=b'') can still be used to *dump* (compress=('name', level)), but
the file it wrote can no longer be loaded: _detect_compressor now never
recognises it, the raw compressed bytes are fed to the Unpickler.
Before 7f14f4d the dump/load round trip worked."""
import os
import sys
import tempfile

ROOT = os.environ.get("JOBLIB_ROOT", "/repo")
sys.path.insert(0, ROOT)
os.environ["PYTHONPATH"] = ROOT + os.pathsep + os.environ.get("PYTHONPATH", "")

import lzma  # noqa: E402

import joblib  # noqa: E402
from joblib import register_compressor  # noqa: E402
from joblib.compressor import CompressorWrapper  # noqa: E402

FILTERS = [{"id": lzma.FILTER_LZMA2, "preset": 1}]


class RawLZMAFile(lzma.LZMAFile):
    """A header-less format: raw LZMA2 stream (no magic number)."""

    def __init__(self, fileobj, mode="rb", compresslevel=None):
        super().__init__(fileobj, mode, format=lzma.FORMAT_RAW, filters=FILTERS)


def main():
    # documented extension API: CompressorWrapper(obj, prefix=b'', extension='')
    register_compressor("rawlzma", CompressorWrapper(RawLZMAFile))
    d = tempfile.mkdtemp()
    path = os.path.join(d, "obj.pkl")
    obj = {"a": list(range(100)), "b": "text"}
    joblib.dump(obj, path, compress=("rawlzma", 3))  # accepted silently
    try:
        back = joblib.load(path)
    except Exception as e:
        print(
            "VIOLATION: file dumped with a registered prefix-less compressor "
            "cannot be loaded back: %s: %s" % (type(e).__name__, e)
        )
        return 1
    if back != obj:
        print("VIOLATION: round trip returned another object")
        return 1
    print("ok")
    return 0


if __name__ == "__main__":
    sys.exit(main())
