"""C17 - temp_folder (explicit argument or parallel_config setting) is silently ignored by the loky backend once any earlier Parallel call of the process has created the executor.

Input / configuration (history of two calls, default backend)
    Parallel(n_jobs=2)(...)                                  # any earlier call, e.g. made by a library
    with Parallel(n_jobs=2, temp_folder=B) as p: p(...)      # explicit setting
    with parallel_config(temp_folder=B): Parallel(n_jobs=2)  # setting from a context
    (also: first call with temp_folder=A, second with temp_folder=B)

What happens
    Parallel resolves the setting correctly (p._backend_kwargs['temp_folder'] == B),
    but MemmappingExecutor.get_memmapping_executor() decides whether loky's reusable
    executor can be re-used by comparing `executor_args`, which contains max_nbytes,
    mmap_mode, verbose, env, timeout ... but NOT temp_folder (it is a named
    parameter, not part of **backend_args).  The executor is therefore re-used
    together with its reducers and its TemporaryResourcesManager, whose
    _temp_folder_root is the one of the FIRST call: the freshly built manager for B
    is thrown away.  The folder in which this Parallel object's large arrays are
    memmapped - executor._temp_folder_manager.resolve_temp_folder_name(), the
    resolver the reducers call - lies under the first call's root (/dev/shm or the
    system tmp dir by default), not under B.  (Changing max_nbytes or mmap_mode does
    create a new executor, and the JOBLIB_TEMP_FOLDER environment variable is honoured
    per call; only the explicit setting is lost.)  numpy is not needed to see it: the
    folder name is chosen before anything is dumped.

What the property demands
    C17: "For every setting a value passed explicitly to Parallel wins over the
    innermost enclosing context, which wins over outer contexts, which win over the
    defaults" - temp_folder is one of the eight settings.  Here an explicit value
    loses against whatever an unrelated earlier call happened to use.
"""
import os, sys; ROOT = os.environ.get("JOBLIB_ROOT", "/repo"); sys.path.insert(0, ROOT); os.environ["PYTHONPATH"] = ROOT + os.pathsep + os.environ.get("PYTHONPATH", "")

import shutil
import tempfile
import warnings

warnings.simplefilter("ignore")

from joblib import Parallel, delayed, parallel_config


def ident(i):
    return i


def folder_used_by(p):
    """Folder handed to the memmapping reducers for the calls of `p`."""
    manager = p._backend._workers._temp_folder_manager
    manager.set_current_context(p._id)  # what the BatchedCalls reducer callback does
    return manager.resolve_temp_folder_name()


def main():
    base = tempfile.mkdtemp(prefix="joblib_u1_tf_")
    folder_b = os.path.join(base, "B")
    os.makedirs(folder_b)
    problems = []
    try:
        # an earlier, unrelated call with default settings
        assert Parallel(n_jobs=2)(delayed(ident)(i) for i in range(2)) == [0, 1]

        with Parallel(n_jobs=2, temp_folder=folder_b) as p:
            assert p(delayed(ident)(i) for i in range(2)) == [0, 1]
            assert p._backend_kwargs["temp_folder"] == folder_b
            used = folder_used_by(p)
        if not used.startswith(folder_b):
            problems.append(f"explicit temp_folder={folder_b!r}: arrays would be dumped "
                            f"in {used!r}")

        with parallel_config(temp_folder=folder_b):
            with Parallel(n_jobs=2) as p:
                assert p(delayed(ident)(i) for i in range(2)) == [0, 1]
                assert p._backend_kwargs["temp_folder"] == folder_b
                used = folder_used_by(p)
        if not used.startswith(folder_b):
            problems.append(f"parallel_config(temp_folder={folder_b!r}): arrays would be "
                            f"dumped in {used!r}")

        # control: a setting that is part of executor_args is honoured
        with Parallel(n_jobs=2, temp_folder=folder_b, max_nbytes=12345) as p:
            p(delayed(ident)(i) for i in range(2))
            control = folder_used_by(p)
        control_ok = control.startswith(folder_b)
    finally:
        try:
            from joblib.externals.loky import get_reusable_executor
            get_reusable_executor().shutdown(wait=True, kill_workers=True)
        except Exception:
            pass
        shutil.rmtree(base, ignore_errors=True)

    if problems:
        print("VIOLATION C17: temp_folder is resolved by Parallel but not applied when "
              "the loky executor is re-used: " + "; ".join(problems)
              + f" (control with a changed max_nbytes, which forces a new executor: "
                f"{'honoured' if control_ok else 'also ignored'})")
        return 1
    print("temp_folder honoured")
    return 0


if __name__ == "__main__":
    sys.exit(main())
