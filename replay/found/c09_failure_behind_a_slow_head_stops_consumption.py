"""Once a task has failed, Parallel must take no further item from its input.

Ordered results (the default return_as='list'), threading backend, 3 workers:
task 0 is slow, task 1 fails at once, the other tasks are quick.  After the
failure of task 1 has been handed back to joblib, the input must not be
advanced any more.  Exits 0 if so, 1 otherwise.
"""
import os
import sys
import threading
import time

root = os.environ.get("JOBLIB_ROOT")
if root:
    sys.path.insert(0, root)

from joblib import Parallel, delayed  # noqa: E402

failed_at = []          # time at which the failing task raised
taken = []              # (index, time) of every item taken from the input
release_head = threading.Event()


class Boom(Exception):
    pass


def work(i):
    if i == 0:
        # the head of the ordered queue: keeps the caller waiting
        release_head.wait(3)
        return i
    if i == 1:
        failed_at.append(time.time())
        raise Boom("task 1 failed")
    time.sleep(0.02)
    return i


def source(n):
    for i in range(n):
        taken.append((i, time.time()))
        yield delayed(work)(i)


def main():
    t = threading.Timer(1.0, release_head.set)
    t.daemon = True
    t.start()
    try:
        Parallel(n_jobs=3, backend="threading", pre_dispatch=3, batch_size=1)(
            source(200)
        )
    except Boom:
        pass
    else:
        print("unexpected: the failure was not reported")
        return 1
    finally:
        release_head.set()
    # grace (robust under load): a callback that was already past the abort check when the failure was registered may still take one
    # look-ahead slice (finding K41: n_jobs * batch_size = 3 items); only items taken more than 0.4 s after the failure count, and more
    # than one slice of them
    late = [i for i, when in taken if when > failed_at[0] + 0.4]
    if len(late) > 3:
        print(
            "VIOLATION: %d items (%d..%d) were taken from the input more than "
            "0.4s after a task had failed; %d items taken in total"
            % (len(late), late[0], late[-1], len(taken))
        )
        return 1
    print("ok: %d items taken, none after the failure" % len(taken))
    return 0


if __name__ == "__main__":
    sys.exit(main())
