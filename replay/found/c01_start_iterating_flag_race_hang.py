"""Pre-existing schedule-dependent violation of C01 / C04 ("the call always
terminates") on the unchanged tree.

Parallel._start does

    if self.dispatch_one_batch(iterator):
        self._iterating = self._original_iterator is not None

without holding self._lock.  If, between the evaluation of
`self._original_iterator is not None` (True) and the assignment to
`self._iterating`, the completion callback of the first batch runs
dispatch_next(), finds the input exhausted and executes
`self._iterating = False; self._original_iterator = None`, the caller thread
then overwrites the flag with True.  Nothing ever resets it:
_wait_retrieval() returns True for ever and the call never returns although
every task has completed and every result has been retrieved.

The window is a couple of bytecodes wide, so this script forces the schedule:
a subclass turns `_original_iterator` into a property whose getter, when called
by the thread running _start, reads the value and then waits for the callback
thread to reset the attribute before returning the value it read.  Nothing else
is changed; all the code that runs is joblib's.
"""
import os, sys; ROOT = os.environ.get("JOBLIB_ROOT", "/repo"); sys.path.insert(0, ROOT); os.environ["PYTHONPATH"] = ROOT + os.pathsep + os.environ.get("PYTHONPATH", "")
import threading

import joblib
from joblib import Parallel, delayed

assert os.path.abspath(joblib.__file__).startswith(os.path.abspath(ROOT)), joblib.__file__


class ScheduledParallel(Parallel):
    """Parallel + a delay between one attribute read and the next statement."""

    _in_start = False
    _reset_seen = None

    @property
    def _original_iterator(self):
        value = self.__dict__.get("_orig_it")
        if (
            self._in_start
            and value is not None
            and threading.current_thread() is self._start_thread
            and sys._getframe(1).f_code.co_name == "_start"
        ):
            # the value has been read; let the callback thread run now
            self._reset_seen.wait(5)
        return value

    @_original_iterator.setter
    def _original_iterator(self, value):
        self.__dict__["_orig_it"] = value
        if value is None and self._reset_seen is not None:
            self._reset_seen.set()

    def _start(self, iterator, pre_dispatch):
        self._start_thread = threading.current_thread()
        self._reset_seen = threading.Event()
        self._in_start = True
        try:
            return super()._start(iterator, pre_dispatch)
        finally:
            self._in_start = False


def work(i):
    return i * i


result = {}


def run():
    p = ScheduledParallel(n_jobs=2, backend="threading")
    result["parallel"] = p
    result["out"] = p(delayed(work)(i) for i in range(1))


t = threading.Thread(target=run, daemon=True)
t.start()
t.join(8)
if t.is_alive():
    p = result["parallel"]
    print(
        "VIOLATION C01: Parallel(n_jobs=2, backend='threading') on a 1-task input "
        "does not return: the task has completed (n_completed_tasks=%d, "
        "n_dispatched_tasks=%d, remaining jobs=%d) but _iterating=%r for ever "
        "(flag overwritten by Parallel._start after the callback thread had "
        "cleared it)"
        % (p.n_completed_tasks, p.n_dispatched_tasks, len(p._jobs), p._iterating)
    )
    sys.stdout.flush()
    os._exit(1)
print("returned", result.get("out"))
sys.exit(0 if result.get("out") == [0] else 1)
