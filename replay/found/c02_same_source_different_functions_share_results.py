"""
C02: two different functions with the same func_id and the same source text share results.

The identity of a cached function is (module path, qualname) + the text of its
source block. Functions produced by one factory (different closure values) and
two lambdas written on the same source line are indistinguishable, so the
second one returns the values computed by the first one. No collision warning
is emitted because the stored code text is "unchanged".
"""
import os, sys, signal, tempfile, warnings
ROOT = os.environ.get("JOBLIB_ROOT", "/repo")
sys.path.insert(0, ROOT)
os.environ["PYTHONPATH"] = ROOT + os.pathsep + os.environ.get("PYTHONPATH", "")
signal.alarm(180)  # guard against hangs
warnings.simplefilter("ignore")
import logging; logging.disable(logging.CRITICAL)
from joblib import Memory

mem = Memory(tempfile.mkdtemp(), verbose=0)
bad = []

def make_adder(k):
    def add(x):
        return x + k
    return add

add1, add2 = make_adder(1), make_adder(2)
c1, c2 = mem.cache(add1), mem.cache(add2)
got = (c1(1), c2(1))
if got != (add1(1), add2(1)):
    bad.append("closures from one factory: cached %r, plain %r" % (got, (add1(1), add2(1))))

inc, dbl = (lambda x: x + 1), (lambda x: x * 2)   # two lambdas on one line
ci, cd = mem.cache(inc), mem.cache(dbl)
got = (ci(5), cd(5))
if got != (inc(5), dbl(5)):
    bad.append("lambdas on one line: cached %r, plain %r" % (got, (inc(5), dbl(5))))

if bad:
    print("VIOLATION C02: " + "; ".join(bad))
    sys.exit(1)
sys.exit(0)
