"""Pre-existing violation of C16 (and of C01's 'whatever the interleaving') on
the UNCHANGED tree.

With return_as='generator_unordered', Parallel._retrieve picks its "timeout
control job" with

    timeout_control_job = next(iter(self._jobs_set), None)

in the consumer thread WITHOUT holding Parallel._lock, while the callback
threads add the newly dispatched batches to the same set
(Parallel._register_new_job, under the lock).  If a batch is dispatched between
`iter(...)` and `next(...)`, the consumer gets

    RuntimeError: Set changed size during iteration

out of the generator instead of the results (each exactly once, in completion
order).  This happens whether or not a timeout was requested.

Part 1 forces the interleaving: the (empty) `_jobs_set` of a fresh Parallel
object is replaced by a set subclass whose __iter__ builds the real iterator
and then pauses for 0.1 s - i.e. the consumer thread is descheduled between
iter() and next() - which leaves the callback threads time to dispatch.
Part 2 uses no instrumentation at all: tiny switch interval, many short tasks,
up to 60 s.

Exit 1 with a line starting with 'VIOLATION C16:' when the behaviour shows.
"""
import os, sys; ROOT = os.environ.get("JOBLIB_ROOT", "/repo"); sys.path.insert(0, ROOT); os.environ["PYTHONPATH"] = ROOT + os.pathsep + os.environ.get("PYTHONPATH", "")

import time

import joblib
from joblib import Parallel, delayed

assert os.path.realpath(joblib.__file__).startswith(os.path.realpath(ROOT)), joblib.__file__


class DescheduledBetweenIterAndNext(set):
    def __iter__(self):
        it = super().__iter__()
        time.sleep(0.1)
        return it


def work(i):
    time.sleep(0.02)
    return i


def part1():
    p = Parallel(n_jobs=2, backend="threading", return_as="generator_unordered")
    p._jobs_set = DescheduledBetweenIterAndNext()
    try:
        out = sorted(p(delayed(work)(i) for i in range(20)))
    except RuntimeError as e:
        return f"forced interleaving: the generator raised RuntimeError({e})"
    if out != list(range(20)):
        return f"forced interleaving: wrong results {out}"
    return None


def part2(budget=float(os.environ.get("STRESS_S", "8"))):
    old = sys.getswitchinterval()
    sys.setswitchinterval(1e-6)
    try:
        t0 = time.time()
        runs = 0
        while time.time() - t0 < budget:
            runs += 1
            try:
                out = sorted(
                    Parallel(n_jobs=4, backend="threading", return_as="generator_unordered")(
                        delayed(abs)(-i) for i in range(400)
                    )
                )
            except RuntimeError as e:
                return (
                    f"no instrumentation, switch interval 1e-6: run {runs} of 400 tasks "
                    f"raised RuntimeError({e}) after {time.time() - t0:.1f}s"
                )
            if out != list(range(400)):
                return f"no instrumentation: run {runs} returned wrong results"
        return None
    finally:
        sys.setswitchinterval(old)


if __name__ == "__main__":
    msgs = [m for m in (part1(), part2()) if m]
    sys.stdout.flush()
    if msgs:
        print("VIOLATION C16: generator_unordered raises instead of delivering each result once:")
        for m in msgs:
            print("  -", m)
        sys.stdout.flush()
        os._exit(1)
    print("OK")
    os._exit(0)
