"""C03: load() from a file object without peek() (io.BytesIO, or a raw
unbuffered file) rewinds it to offset 0 instead of the offset it had
(_detect_compressor: read(prefix) then seek(0)).

* an object dumped after a header cannot be loaded back from that offset;
* two objects dumped one after the other: the second load() silently returns
  the FIRST object again.
"""
import io
import os
import sys
import tempfile

from _common import check_joblib

joblib = check_joblib()
msgs = []

buf = io.BytesIO()
buf.write(b"HEADER")
joblib.dump({"k": 1}, buf)
buf.seek(6)
try:
    out = joblib.load(buf)
    if out != {"k": 1}:
        msgs.append("BytesIO with header: loaded %r" % (out,))
except Exception as exc:  # noqa
    msgs.append("BytesIO with header: load raised %r" % (exc,))

buf = io.BytesIO()
joblib.dump("first", buf)
joblib.dump("second", buf)
buf.seek(0)
got = (joblib.load(buf), joblib.load(buf))
if got != ("first", "second"):
    msgs.append("BytesIO with two dumps: loads returned %r" % (got,))

path = os.path.join(tempfile.mkdtemp(), "two.pkl")
with open(path, "wb") as f:
    joblib.dump("first", f)
    joblib.dump("second", f)
with open(path, "rb", buffering=0) as f:
    got = (joblib.load(f), joblib.load(f))
if got != ("first", "second"):
    msgs.append("unbuffered file with two dumps: loads returned %r" % (got,))
with open(path, "rb") as f:  # buffered file: has peek(), works
    assert (joblib.load(f), joblib.load(f)) == ("first", "second")

if msgs:
    print("VIOLATION C03: " + "; ".join(msgs))
    sys.exit(1)
print("ok")
