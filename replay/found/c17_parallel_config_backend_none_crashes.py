"""C17 - parallel_config(backend=None, ...) raises AttributeError instead of meaning "backend not set".

Input / configuration
    with parallel_config(backend=None, n_jobs=2):      # or parallel_backend(None)
        Parallel()(...)
    typically written as   with parallel_config(backend=self.backend, n_jobs=self.n_jobs):
    by a library whose own `backend` parameter defaults to None.

What happens
    None is the documented default of the parameter ("backend: str or
    ParallelBackendBase instance, default=None") and Parallel(backend=None) is
    accepted and means "use the active / default backend".  The signature default of
    parallel_config however is a private sentinel, and _check_backend() only treats
    that sentinel as "unset": an explicit None falls through to
    `backend.nesting_level`, so the constructor dies with
        AttributeError: 'NoneType' object has no attribute 'nesting_level'
    No context is installed, the block never runs.

What the property demands
    C17: settings made with parallel_config apply within their block, for all
    contexts "setting arbitrary subsets of {backend, n_jobs, ...}"; a value passed
    explicitly to Parallel wins over the context, which wins over the defaults.
    The documented value None for `backend` has to be a valid setting: like
    Parallel(backend=None) it must leave the backend choice to the outer context /
    the default (LokyBackend here) while n_jobs=2 of the same context applies.
"""
import os, sys; ROOT = os.environ.get("JOBLIB_ROOT", "/repo"); sys.path.insert(0, ROOT); os.environ["PYTHONPATH"] = ROOT + os.pathsep + os.environ.get("PYTHONPATH", "")

import warnings

warnings.simplefilter("ignore")

from joblib import Parallel, parallel_backend, parallel_config


def main():
    problems = []
    # reference: the explicit argument of Parallel accepts None
    ref = Parallel(backend=None, n_jobs=2)
    ref_name = type(ref._backend).__name__

    for name, make in [
        ("parallel_config(backend=None, n_jobs=2)",
         lambda: parallel_config(backend=None, n_jobs=2)),
        ("parallel_backend(None, n_jobs=2)",
         lambda: parallel_backend(None, n_jobs=2)),
    ]:
        try:
            with make():
                p = Parallel()
                got = (type(p._backend).__name__, p.n_jobs)
            if got != (ref_name, 2):
                problems.append(f"{name}: Parallel() resolved to {got}, expected {(ref_name, 2)}")
        except AttributeError as e:
            problems.append(f"{name} raised AttributeError({e})")

    # nested: an inner block that passes None must keep the outer backend
    try:
        with parallel_config(backend="threading"):
            with parallel_config(backend=None, n_jobs=3):
                p = Parallel()
                got = (type(p._backend).__name__, p.n_jobs)
        if got != ("ThreadingBackend", 3):
            problems.append(f"nested: got {got}")
    except AttributeError as e:
        problems.append(f"nested parallel_config(backend=None) raised AttributeError({e})")

    if problems:
        print("VIOLATION C17: the documented default value backend=None is not accepted "
              "by the context managers (Parallel(backend=None) resolves to "
              f"{ref_name}): " + "; ".join(problems))
        return 1
    print("backend=None accepted")
    return 0


if __name__ == "__main__":
    sys.exit(main())
