import os, sys; ROOT = os.environ.get("JOBLIB_ROOT", "/repo"); sys.path.insert(0, ROOT); os.environ["PYTHONPATH"] = ROOT + os.pathsep + os.environ.get("PYTHONPATH", "")
"""U3-07 (C14 "never lie" / C03 file-object targets) - no numpy needed.

Input: an uncompressed joblib file holding x = b'.' * 100000 (or '.' * 100000, or a
list holding such a leaf), loaded from a seekable RAW stream (io.RawIOBase semantics:
read(n) may return fewer than n bytes before EOF - here at most 64 KiB per call, like
a pipe / socket / network file system or FileIO for requests above 2 GiB).

What happens: for uncompressed data load() hands the caller's file object directly to
the pure-Python pickle._Unpickler, whose opcode handlers use `self.read(n)` without
checking the length returned.  The first short read makes BINBYTES / BINUNICODE build a
65536 byte object, the next opcode is fetched from the middle of the payload ('.' is
STOP) and load() RETURNS b'.' * 65536 - a different object, no exception.  (The C
unpickler raises "pickle data was truncated" in this situation, and joblib's own
_read_bytes loops for array payloads; compressed files are safe because they are read
through io.BufferedReader.)

Property: C14 - load either raises or returns exactly the original object; C03 -
load(dump(x)) == x for open file objects.
Repair: in load(), wrap file objects that are not io.BufferedIOBase in
io.BufferedReader (when they offer readinto) or in a small adapter whose read loops
until n bytes or EOF.
"""
import io
import joblib

assert joblib.__file__.startswith(ROOT), joblib.__file__


class RawStream(io.RawIOBase):
    """Seekable raw stream returning at most `chunk` bytes per read, as raw streams may."""

    def __init__(self, data, chunk=65536):
        self._b, self._chunk = io.BytesIO(data), chunk

    def readable(self):
        return True

    def seekable(self):
        return True

    def seek(self, *a):
        return self._b.seek(*a)

    def tell(self):
        return self._b.tell()

    def readinto(self, buf):
        data = self._b.read(min(len(buf), self._chunk))
        buf[: len(data)] = data
        return len(data)


problems = []
for x in (b"." * 100000, "." * 100000, [b"." * 70000, 5]):
    for proto in (2, 4):
        buf = io.BytesIO()
        joblib.dump(x, buf, protocol=proto)
        try:
            r = joblib.load(RawStream(buf.getvalue()))
        except Exception:
            continue  # raising is acceptable
        if r != x:
            problems.append("protocol %d, %s of %d: load returned %s of length %d" % (
                proto, type(x).__name__, len(x), type(r).__name__, len(r)))
if problems:
    print("VIOLATION U3-07: " + " | ".join(problems[:4]) + " (%d cases)" % len(problems))
    sys.exit(1)
print("ok")
