"""
C12: swapped __code__ object not noticed when the new code object re-uses the id of a freed one.

MemorizedFunc remembers id(func.__code__) to know when its cached source
information must be refreshed. ids of freed objects are re-used by CPython:
   f.__code__ = A ; cached f(1) ; f.__code__ = original   (A is freed)
   f.__code__ = B   (B often allocated at A's address) ; cached f(1)
-> func_code_info is still that of A, equal to the stored func_code.py, and
the value computed by A is returned for code B.
Functions here have no source file (exec), as when defined interactively.
"""
import os, sys, signal, tempfile, warnings
ROOT = os.environ.get("JOBLIB_ROOT", "/repo")
sys.path.insert(0, ROOT)
os.environ["PYTHONPATH"] = ROOT + os.pathsep + os.environ.get("PYTHONPATH", "")
signal.alarm(180)  # guard against hangs
warnings.simplefilter("ignore")
import logging; logging.disable(logging.CRITICAL)
import gc
from joblib import Memory

mem = Memory(tempfile.mkdtemp(), verbose=0)

def make_code(k):
    ns = {}
    exec("def f(x):\n    return ('v%d', x)\n" % k, ns)
    return ns["f"].__code__

def f(x):
    return ("v0", x)

orig = f.__code__
c = mem.cache(f)
c(1)
for k in range(1, 40):
    f.__code__ = make_code(k)
    c(1)
    f.__code__ = orig          # the code object of version k is freed
    gc.collect()
    f.__code__ = make_code(k + 1000)
    got, want = c(1), f(1)
    if got != want:
        print("VIOLATION C12: after swapping __code__ the cached call returned %r, the new code returns %r" % (got, want))
        sys.exit(1)
    f.__code__ = orig
sys.exit(0)
