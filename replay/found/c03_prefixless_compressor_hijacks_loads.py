import os, sys; ROOT = os.environ.get("JOBLIB_ROOT", "/repo"); sys.path.insert(0, ROOT); os.environ["PYTHONPATH"] = ROOT + os.pathsep + os.environ.get("PYTHONPATH", "")
"""C03: register_compressor(name, CompressorWrapper(obj)) - the magic number left at its default b"" - must not change how files are
recognised: every file "starts with" the empty string, so every later load of an uncompressed (or otherwise compressed) file was
handed to that compressor's reader."""
import tempfile
import joblib
from joblib.compressor import BinaryZlibFile, CompressorWrapper

assert joblib.__file__.startswith(ROOT), joblib.__file__
joblib.register_compressor("noprefix", CompressorWrapper(BinaryZlibFile))
d = tempfile.mkdtemp()
for comp in (0, 3, ("gzip", 3)):
    p = os.path.join(d, "f%s.pkl" % (comp if isinstance(comp, int) else comp[0]))
    joblib.dump({"k": [1, 2, 3]}, p, compress=comp)
    try:
        got = joblib.load(p)
    except Exception as e:  # noqa
        print("VIOLATION C03: after registering a compressor without magic number, load of a file dumped with compress=%r raised %r" % (comp, e))
        sys.exit(1)
    if got != {"k": [1, 2, 3]}:
        print("VIOLATION C03: wrong object %r" % (got,))
        sys.exit(1)
print("ok")
