"""C03: dumping a numpy array into an open, non-seekable file object (a pipe,
e.g. sys.stdout.buffer of a pipeline) fails with OSError(ESPIPE).

NumpyPickler._create_array_wrapper only expects io.UnsupportedOperation from
file_handle.tell(); a pipe raises OSError(29, 'Illegal seek').  Objects
without arrays go through the same pipe without problem, and load() can read
from a pipe.
"""
import os
import sys
import threading

import numpy as np
from _common import check_joblib

joblib = check_joblib()

r, w = os.pipe()
wf, rf = os.fdopen(w, "wb"), os.fdopen(r, "rb")
result = {}


def reader():
    try:
        result["out"] = joblib.load(rf)
    except Exception as exc:  # noqa
        result["exc"] = exc


t = threading.Thread(target=reader, daemon=True)
t.start()
a = np.arange(10)
err = None
try:
    joblib.dump(a, wf)
except Exception as exc:  # noqa
    err = exc
finally:
    wf.close()
t.join(20)
if err is not None:
    print("VIOLATION C03: joblib.dump(array, <pipe file object>) raised %r" % (err,))
    sys.exit(1)
if "out" not in result or not np.array_equal(result["out"], a):
    print("VIOLATION C03: array not read back from pipe: %r" % (result,))
    sys.exit(1)
print("ok")
