import os, sys; ROOT = os.environ.get("JOBLIB_ROOT", "/repo"); sys.path.insert(0, ROOT); os.environ["PYTHONPATH"] = ROOT + os.pathsep + os.environ.get("PYTHONPATH", "")
"""Unchanged tree, C12 ("a still-referenced older definition keeps returning
its own values"), two sessions alive at the same time on one cache directory:

  session A (this process) imports version 1 of work(), calls work(3) -> 30;
      the function is now vouched for by memory._FUNCTION_HASHES
  the module is edited; session B (a fresh process) imports version 2 and
      calls work(3): it wipes the function's cache, stores its code and 300
  session A, which never reloaded anything and still runs version 1, calls
      work(3) again: the in-memory table short-cuts the comparison with
      func_code.py and A is served 300, a value computed by code it does not
      run. (Nothing in A re-reads the edited source: this is not the
      'source text as code identity' issue, it is the in-memory table
      trusting a store that another session rewrote.)
Borderline for the quantifier of C12, which speaks of fresh processes: the two
sessions overlap in time, but every call is sequential.
"""
import shutil
import subprocess
import tempfile
import warnings

SESSION_B = r'''
import os, sys, warnings
ROOT = os.environ["JOBLIB_ROOT"]
sys.path.insert(0, ROOT)
sys.path.insert(0, os.environ["F_MODDIR"])
warnings.simplefilter("ignore")
import joblib
from joblib import Memory
import found_c12_mod
assert Memory(os.environ["F_CACHE"], verbose=0).cache(found_c12_mod.work)(3) == 300
'''


def main():
    warnings.simplefilter("ignore")
    base = tempfile.mkdtemp(prefix="found_c12_")
    try:
        moddir = os.path.join(base, "mod")
        os.makedirs(moddir)
        modfile = os.path.join(moddir, "found_c12_mod.py")
        with open(modfile, "w") as fh:
            fh.write("def work(x):\n    return x * 10\n")
        sys.path.insert(0, moddir)
        sys.dont_write_bytecode = True
        import joblib
        from joblib import Memory
        assert os.path.realpath(joblib.__file__).startswith(os.path.realpath(ROOT))
        import found_c12_mod

        cache = os.path.join(base, "cache")
        work = Memory(cache, verbose=0).cache(found_c12_mod.work)
        assert work(3) == 30

        with open(modfile, "w") as fh:
            fh.write("def work(x):\n    return x * 100\n")
        env = dict(os.environ, JOBLIB_ROOT=ROOT, F_MODDIR=moddir, F_CACHE=cache,
                   PYTHONDONTWRITEBYTECODE="1")
        other = subprocess.run([sys.executable, "-c", SESSION_B], env=env,
                               stdout=subprocess.PIPE, stderr=subprocess.PIPE,
                               universal_newlines=True)
        if other.returncode != 0:
            print("setup failed: " + other.stderr)
            return 2

        assert found_c12_mod.work(3) == 30      # A still runs version 1
        got = work(3)
    finally:
        shutil.rmtree(base, ignore_errors=True)
    if got != 30:
        print("VIOLATION C12: the live version 1 of work(3) returned %r, a "
              "value computed by version 2 in another session; its own code "
              "computes 30" % (got,))
        return 1
    print("ok")
    return 0


if __name__ == "__main__":
    sys.exit(main())
