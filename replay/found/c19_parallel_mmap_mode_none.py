import os, sys; ROOT = os.environ.get("JOBLIB_ROOT", "/repo"); sys.path.insert(0, ROOT); os.environ["PYTHONPATH"] = ROOT + os.pathsep + os.environ.get("PYTHONPATH", "")
"""U3-04 (C19) - needs numpy.

Input: Parallel(n_jobs=2, mmap_mode=None, max_nbytes=100)(delayed(np.sum)(a) ...) with
a = np.arange(10000.) - mmap_mode=None is one of the documented values
("mmap_mode: {None, 'r+', 'r', 'w+', 'c'}, default: 'r'").

What happens: the array is above max_nbytes, so the parent dumps it to the temporary
folder and sends (load_temporary_memmap, (filename, None, ...)).  In the worker
load(filename, mmap_mode=None) returns a plain ndarray and the next statement
`JOBLIB_MMAPS.add(obj.filename)` raises AttributeError: with the loky backend the call
fails with BrokenProcessPool ("A task has failed to un-serialize"), with the
multiprocessing backend the pool worker dies while unpickling the task and the
Parallel call never returns.

Property: C19 - large arrays passed to process workers through automatic memmapping
present the same values to the task, for all mmap modes.
Repair: in load_temporary_memmap only touch obj.filename / add the finalizer when
the result is a memmap (or treat mmap_mode=None as "do not memmap" in the reducer).
"""
import subprocess, signal
import numpy as np
import joblib

assert joblib.__file__.startswith(ROOT), joblib.__file__

CHILD = r"""
import sys, numpy as np
from joblib import Parallel, delayed
a = np.arange(10000.)
r = Parallel(n_jobs=2, backend=sys.argv[1], mmap_mode=None, max_nbytes=100)(delayed(np.sum)(a) for _ in range(2))
print("RESULT", r == [a.sum(), a.sum()])
"""
problems = []
for backend, tmo in (("loky", 30), ("multiprocessing", 12)):
    p = subprocess.Popen([sys.executable, "-c", CHILD, backend], stdout=subprocess.PIPE,
                         stderr=subprocess.PIPE, text=True, start_new_session=True)
    try:
        out, err = p.communicate(timeout=tmo)
        if "RESULT True" not in out:
            last = [l for l in err.strip().splitlines() if l.strip()][-1:] or [""]
            problems.append("%s: failed (%s)" % (backend, last[0][:100]))
    except subprocess.TimeoutExpired:
        os.killpg(p.pid, signal.SIGKILL)  # only the process group started above
        out, err = p.communicate()
        hint = "AttributeError" if "has no attribute 'filename'" in err else ""
        problems.append("%s: call still blocked after %d s (worker died: %s)" % (backend, tmo, hint))

if problems:
    print("VIOLATION U3-04: " + " | ".join(problems))
    sys.exit(1)
print("ok")
