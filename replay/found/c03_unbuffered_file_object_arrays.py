import os, sys; ROOT = os.environ.get("JOBLIB_ROOT", "/repo"); sys.path.insert(0, ROOT); os.environ["PYTHONPATH"] = ROOT + os.pathsep + os.environ.get("PYTHONPATH", "")
"""C03 / C19 (needs numpy): load() from an unbuffered file object whose read(n) answers with fewer bytes than asked for (io.RawIOBase:
pipes, sockets, network file systems) - objects that CONTAIN ARRAYS.  The array readers pull the padding length, the padding, the
array bytes and the nested pickle of object arrays from the unpickler's file handle: it has to be as exact as the unpickler's own reader."""
import io
import numpy as np
import joblib

assert joblib.__file__.startswith(ROOT), joblib.__file__


class Short(io.RawIOBase):
    def __init__(self, data, chunk):
        self._b, self._c = io.BytesIO(data), chunk

    def readable(self):
        return True

    def seekable(self):
        return True

    def readinto(self, b):
        got = self._b.read(min(len(b), self._c))
        b[:len(got)] = got
        return len(got)

    def seek(self, pos, whence=0):
        return self._b.seek(pos, whence)

    def tell(self):
        return self._b.tell()


def same(a, b):
    if isinstance(a, np.ndarray):
        return isinstance(b, np.ndarray) and a.dtype == b.dtype and a.shape == b.shape and (a.tolist() == b.tolist())
    if isinstance(a, list):
        return isinstance(b, list) and len(a) == len(b) and all(same(x, y) for x, y in zip(a, b))
    if isinstance(a, dict):
        return isinstance(b, dict) and a.keys() == b.keys() and all(same(a[k], b[k]) for k in a)
    return a == b


objs = [[np.arange(5), "x"], np.array([1, "a", None], dtype=object), {"a": np.zeros((3, 4), order="F"), "b": np.arange(3, dtype="i2")},
        np.arange(10), [np.arange(100000, dtype="u1"), b"tail"]]
for obj in objs:
    for comp in (0, 3, ("gzip", 3)):
        buf = io.BytesIO()
        joblib.dump(obj, buf, compress=comp)
        for chunk in (1, 3, 7, 4096):
            try:
                got = joblib.load(Short(buf.getvalue(), chunk))
            except Exception as e:  # noqa
                print("VIOLATION C03: load(dump(%s, compress=%r)) from an unbuffered file object answering %d bytes per read raised %r" % (type(obj).__name__, comp, chunk, e))
                sys.exit(1)
            if not same(obj, got):
                print("VIOLATION C03: load(dump(%s, compress=%r)) from an unbuffered file object answering %d bytes per read returned another object" % (type(obj).__name__, comp, chunk))
                sys.exit(1)
print("ok")
