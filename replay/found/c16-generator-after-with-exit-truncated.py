"""C16/C01: leaving a `with Parallel(...)` block while an output generator is
unfinished, then consuming that generator: with return_as='generator_unordered'
the generator ends *normally* after delivering only the already finished
results (2 of 20, no exception); with return_as='generator' it raises an
internal AttributeError("... has no attribute '_result'").
Expected: every result exactly once, or a clean error telling the run was
aborted - never a silently truncated output.
"""
import sys
import time
import warnings

from joblib import Parallel, delayed

warnings.simplefilter("ignore")


def f(i):
    time.sleep(0.05)
    return i


bad = []
for return_as in ("generator_unordered", "generator"):
    with Parallel(n_jobs=2, backend="threading", return_as=return_as) as p:
        g = p(delayed(f)(i) for i in range(20))
        got = [next(g)]
    try:
        got += list(g)
    except AttributeError as e:
        bad.append((return_as, "internal error " + repr(e)))
        continue
    except Exception:
        continue  # a clean, explicit error would be acceptable
    if sorted(got) != list(range(20)):
        bad.append((return_as, "generator ended normally with only %r" % got))
if bad:
    print("VIOLATION C16: %r" % bad)
    sys.exit(1)
print("ok")
sys.exit(0)
