"""C14 (borderline): with a truncated output.pkl, MemorizedFunc.__call__
recomputes, but call_and_shelve() hands out a MemorizedResult for the damaged
entry without recomputing; .get() then fails (EOFError / KeyError)."""
import glob
import os
import sys
import tempfile
import warnings

import numpy as np
from _common import check_joblib

joblib = check_joblib()
warnings.simplefilter("ignore")
calls = []


def f(x):
    calls.append(x)
    return np.arange(10) * x


d = tempfile.mkdtemp()
cf = joblib.Memory(d, verbose=0).cache(f)
cf(2)
(out,) = glob.glob(os.path.join(d, "joblib", "**", "output.pkl"), recursive=True)
data = open(out, "rb").read()
with open(out, "wb") as fh:
    fh.write(data[: len(data) // 2])
shelved = cf.call_and_shelve(2)
try:
    value = shelved.get()
    ok = np.array_equal(value, np.arange(10) * 2)
    err = None
except Exception as exc:  # noqa
    ok, err = False, exc
if not ok:
    print(
        "VIOLATION C14: call_and_shelve on a truncated entry did not recompute "
        "(calls=%r) and .get() raised %r" % (calls, err)
    )
    sys.exit(1)
print("ok")
