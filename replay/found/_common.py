"""Shared helper of the audit scenarios: import the joblib named by JOBLIB_ROOT (default /repo)."""
import os
import sys

ROOT = os.environ.get("JOBLIB_ROOT", "/repo")
sys.path.insert(0, ROOT)
os.environ["PYTHONPATH"] = ROOT + os.pathsep + os.environ.get("PYTHONPATH", "")


def check_joblib():
    import joblib

    assert os.path.realpath(os.path.dirname(os.path.dirname(joblib.__file__))) == os.path.realpath(ROOT), joblib.__file__
    return joblib
