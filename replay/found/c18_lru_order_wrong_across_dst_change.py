"""
C18: access times are compared as naive LOCAL datetimes: wrong LRU order around a DST change.

get_items() converts st_atime with datetime.fromtimestamp() (naive local time)
and _get_items_to_delete sorts / compares these values (and
datetime.now() - age_limit). When clocks are set back, an entry accessed
AFTER the change gets a smaller naive time than one accessed shortly before
it: reduce_size evicts the most recently used entry. (age_limit is likewise
off by one hour across a change.)

Entry A is accessed at 02:50 CEST, entry B 15 minutes later at 02:05 CET
(Europe/Paris, 2025-10-26). The access times are set with os.utime to place
them around that change. reduce_size(items_limit=1) must keep B.
Exit 0 if the time zone database is not available.
"""
import os, sys, signal, tempfile, warnings
ROOT = os.environ.get("JOBLIB_ROOT", "/repo")
sys.path.insert(0, ROOT)
os.environ["PYTHONPATH"] = ROOT + os.pathsep + os.environ.get("PYTHONPATH", "")
signal.alarm(180)  # guard against hangs
warnings.simplefilter("ignore")
import logging; logging.disable(logging.CRITICAL)
import time, calendar, glob
if not os.path.exists("/usr/share/zoneinfo/Europe/Paris"):
    sys.exit(0)
os.environ["TZ"] = "Europe/Paris"
time.tzset()
import joblib
from joblib import Memory

d = tempfile.mkdtemp()
mem = Memory(d, verbose=0)

def f(x):
    return x

c = mem.cache(f)
c("A"); c("B")
change = calendar.timegm((2025, 10, 26, 1, 0, 0))     # 03:00 CEST -> 02:00 CET
t_a = change - 10 * 60                                 # 02:50 CEST
t_b = change + 5 * 60                                  # 02:05 CET, 15 minutes later
for p in glob.glob(os.path.join(d, "joblib", "*", "f", "*", "output.pkl")):
    t = t_a if joblib.load(p) == "A" else t_b
    os.utime(p, (t, t))
mem.reduce_size(items_limit=1)
kept = [k for k in ("A", "B") if c.check_call_in_cache(k)]
if kept != ["B"]:
    print("VIOLATION C18: B was accessed 15 min after A (across the DST change) but reduce_size(items_limit=1) kept %r" % kept)
    sys.exit(1)
sys.exit(0)
