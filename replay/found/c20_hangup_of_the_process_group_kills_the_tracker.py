import os, sys; ROOT = os.environ.get("JOBLIB_ROOT", "/repo"); sys.path.insert(0, ROOT); os.environ["PYTHONPATH"] = ROOT + os.pathsep + os.environ.get("PYTHONPATH", "")
"""U3-13 (C20, lower priority) - no numpy needed.

Input (fault sequence): a client process registers a temporary file with the resource
tracker and is then killed by a signal delivered to its whole process group - what the
kernel does with SIGHUP when the terminal / ssh session of an interactive run is
closed (likewise SIGQUIT from Ctrl-backslash).  Control: the same with SIGTERM.

What happens: the tracker is started in the client's process group and only shields
itself from SIGINT and SIGTERM (_IGNORED_SIGNALS).  SIGHUP therefore kills the tracker
together with the client, before it can see EOF on the request pipe: everything still
registered (the memmapping folders under /dev/shm, i.e. RAM) is left behind for good.
With SIGTERM the client dies, the tracker survives, sees EOF and deletes the file.

Property: C20 - whatever is still registered when the last client process exits,
normally or by being killed, is deleted then.
Repair: add SIGHUP (and SIGQUIT) to _IGNORED_SIGNALS, or start the tracker in its own
session; it still terminates through EOF on its pipe.
"""
import signal, subprocess, tempfile, time
import joblib

assert joblib.__file__.startswith(ROOT), joblib.__file__
CLIENT = r"""
import sys, time
from joblib.externals.loky.backend import resource_tracker
f = sys.argv[1]
open(f, 'w').close()
resource_tracker.register(f, 'file')
print('ready', resource_tracker._resource_tracker._pid, flush=True)
time.sleep(30)
"""
d = tempfile.mkdtemp()
left = {}
for sig in (signal.SIGTERM, signal.SIGHUP):
    f = os.path.join(d, "registered_%s" % sig.name)
    # private session: the signal below reaches only this client and its own tracker
    p = subprocess.Popen([sys.executable, "-c", CLIENT, f], stdout=subprocess.PIPE,
                         stderr=subprocess.DEVNULL, text=True, start_new_session=True)
    tracker_pid = int(p.stdout.readline().split()[1])
    os.killpg(p.pid, sig)
    p.wait(20)
    for _ in range(100):            # wait for the tracker of this client to be gone
        try:
            os.kill(tracker_pid, 0)
        except ProcessLookupError:
            break
        time.sleep(0.1)
    else:
        os.kill(tracker_pid, signal.SIGKILL)
    left[sig.name] = os.path.exists(f)

if left["SIGHUP"] and not left["SIGTERM"]:
    print("VIOLATION U3-13: client group killed by SIGHUP: the registered file is left behind "
          "(tracker died with it); with SIGTERM it is deleted")
    sys.exit(1)
print("ok", left)
