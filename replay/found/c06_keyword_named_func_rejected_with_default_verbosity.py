"""
C06: with the default verbosity a cached function rejects a keyword argument named `func`.

Memory(...) defaults to verbose=1. Before computing, MemorizedFunc prints
format_call(self.func, args, kwargs), which calls
format_signature(func, *args, **kwargs): a keyword argument called `func`
collides with format_signature's own first parameter and the cached call
raises TypeError although the plain function accepts f(func=...). (The same
collision exists on the verbose >= 20 query path and in the warning emitted
when a cached result fails to load.) With verbose=0 the call works.
"""
import os, sys, signal, tempfile, warnings
ROOT = os.environ.get("JOBLIB_ROOT", "/repo")
sys.path.insert(0, ROOT)
os.environ["PYTHONPATH"] = ROOT + os.pathsep + os.environ.get("PYTHONPATH", "")
signal.alarm(180)  # guard against hangs
warnings.simplefilter("ignore")
import logging; logging.disable(logging.CRITICAL)
import io, contextlib
from joblib import Memory
mem = Memory(tempfile.mkdtemp())          # default verbosity

def apply(x, func=abs):
    return func(x)

assert apply(-3, func=abs) == 3
c = mem.cache(apply)
try:
    with contextlib.redirect_stdout(io.StringIO()):
        r = c(-3, func=abs)
except TypeError as e:
    print("VIOLATION C06: cached apply(-3, func=abs) raised TypeError: %s" % e)
    sys.exit(1)
sys.exit(0 if r == 3 else 1)
