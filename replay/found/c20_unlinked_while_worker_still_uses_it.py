"""C20: a temporary memmap file is deleted while a registered user remains.

Every end of a Parallel call (LokyBackend.terminate ->
TemporaryResourcesManager._clean_temporary_resources(force=False)) sends one
MAYBE_UNLINK for *every file found in the context folder*, but the matching
extra REGISTER is only sent once, when the file is created.  Re-using the same
Parallel object therefore decrements the count once too often:

  call 1: worker keeps the memmapped argument alive   -> refcount 2, then 1
  call 2: any other work with the same Parallel object -> refcount 0: unlink

The worker that still holds the memmap (a registered user whose finalizer has
not run) loses its file; when it finally releases it the tracker gets an
unbalanced MAYBE_UNLINK (KeyError traceback on stderr).
"""
import os
import sys
import time

import numpy as np
from _common import check_joblib

joblib = check_joblib()
from joblib import Parallel, delayed  # noqa


def keep(a):
    import builtins

    builtins._KEPT = a  # the worker stays a user of the temporary memmap
    return a.filename


def noop(i):
    time.sleep(0.05)
    return i


def still_there(i):
    import builtins

    time.sleep(0.1)
    kept = getattr(builtins, "_KEPT", None)
    if kept is None:
        return None
    return os.path.exists(kept.filename)


a = np.ones(300000)
p = Parallel(n_jobs=2, backend="loky", timeout=120)
(filename,) = p([delayed(keep)(a)])
exists_after_1 = os.path.exists(filename)
p(delayed(noop)(i) for i in range(4))
deadline = time.time() + 5
while os.path.exists(filename) and time.time() < deadline:
    time.sleep(0.1)
exists_after_2 = os.path.exists(filename)
seen_by_workers = p(delayed(still_there)(i) for i in range(8))
holder_alive = any(s is not None for s in seen_by_workers)

if exists_after_1 and not exists_after_2 and holder_alive:
    print(
        "VIOLATION C20: %s was unlinked after an unrelated 2nd call although a "
        "worker still holds the memmap (workers report exists=%r)"
        % (os.path.basename(filename), [s for s in seen_by_workers if s is not None])
    )
    sys.exit(1)
print("ok", exists_after_1, exists_after_2, seen_by_workers)
