"""
C06: the argument hash depends on object identity (pickle memoization), not only on values.

f(a, a) (same list object twice) and f(a, list(a)) (equal copy) are the same
call for the function, but the Hasher memoizes non-string objects by id: the
second occurrence of the same object is pickled as a back-reference. The
repeated call misses the cache and executes the body again, and
check_call_in_cache answers False for it.
"""
import os, sys, signal, tempfile, warnings
ROOT = os.environ.get("JOBLIB_ROOT", "/repo")
sys.path.insert(0, ROOT)
os.environ["PYTHONPATH"] = ROOT + os.pathsep + os.environ.get("PYTHONPATH", "")
signal.alarm(180)  # guard against hangs
warnings.simplefilter("ignore")
import logging; logging.disable(logging.CRITICAL)
from joblib import Memory

mem = Memory(tempfile.mkdtemp(), verbose=0)
calls = []

def f(a, b):
    calls.append(1)
    return a + b

c = mem.cache(f)
x = [1, 2]
c(x, x)
in_cache = c.check_call_in_cache([1, 2], [1, 2])
c([1, 2], [1, 2])
if len(calls) != 1 or not in_cache:
    print("VIOLATION C06: f(x, x) then f([1, 2], [1, 2]) with x == [1, 2]: body executed %d times, check_call_in_cache=%r"
          % (len(calls), in_cache))
    sys.exit(1)
sys.exit(0)
