"""4e5b3af: re-raising the PicklingError out of write_func keeps the truncated
file from being published as output.pkl, but nobody removes the temporary
file 'output.pkl.thread-<id>-pid-<pid>' that write_func was writing: it stays
in the item directory.  The call is never cached, so every process that makes
the call leaves one more (partial, possibly large) orphan that the store never
reuses.  Before 4e5b3af no orphan was left (the file was renamed)."""
import os
import subprocess
import sys
import tempfile

ROOT = os.environ.get("JOBLIB_ROOT", "/repo")

CHILD = r"""
import os, sys, warnings
sys.path.insert(0, os.environ["JOBLIB_ROOT_"])
warnings.simplefilter("ignore")
import joblib
mem = joblib.Memory(sys.argv[1], verbose=0)
def f(x):
    # a big picklable part followed by something pickle refuses
    return [bytes(200000), (lambda: x)]
cf = mem.cache(f)
r = cf(1)
assert r[1]() == 1
"""


def main():
    d = tempfile.mkdtemp()
    env = dict(os.environ)
    env["JOBLIB_ROOT_"] = ROOT
    env["PYTHONPATH"] = ROOT + os.pathsep + env.get("PYTHONPATH", "")
    n_runs = 3
    script = os.path.join(d, "prog.py")
    with open(script, "w") as fh:
        fh.write(CHILD)
    d = os.path.join(d, "cache")
    for _ in range(n_runs):
        subprocess.run(
            [sys.executable, script, d], env=env, check=True, timeout=120
        )
    orphans = []
    for root, _, files in os.walk(d):
        for name in files:
            if ".thread-" in name and "-pid-" in name:
                path = os.path.join(root, name)
                orphans.append((name, os.path.getsize(path)))
    if orphans:
        print(
            "VIOLATION: %d temporary files left behind after %d processes made "
            "the same call with an unpicklable result (total %d bytes): %s"
            % (len(orphans), n_runs, sum(s for _, s in orphans), orphans[0][0])
        )
        return 1
    print("ok")
    return 0


if __name__ == "__main__":
    sys.exit(main())
