"""C06 / C12: the directory of a nested function (module/outer/<locals>/inner)
lives INSIDE the directory of the enclosing function (module/outer).  Clearing
the cache of `outer` (outer.clear(), or automatically because the code of outer
changed) removes the results AND the func_code.py of `inner`:
 (1) inner(1), completed before and never cleared/evicted/invalidated itself,
     executes again;
 (2) the result is then stored without func_code.py (the in-memory table still
     vouches), so in a fresh process check_call_in_cache(1) answers False while
     the next identical call is served from the cache without executing;
 (3) and if the code of inner was edited meanwhile, the fresh process returns
     the value computed by the old code.
"""
import os
import subprocess
import sys
import tempfile

ROOT = os.environ.get("JOBLIB_ROOT", "/repo")
d = tempfile.mkdtemp()
MOD = """
CALLS = []
def make():
    def inner(x):
        CALLS.append(x)
        return (%r, x)
    return inner
"""
DRIVER = """
import sys, warnings; warnings.simplefilter('ignore')
sys.path.insert(0, %r); sys.path.insert(0, %r)
from joblib import Memory
import modnest
mem = Memory(%r + sys.argv[2], verbose=0)
outer = mem.cache(modnest.make)
inner = mem.cache(modnest.make())
phase = sys.argv[1]
if phase == '1':
    inner(1)
    n0 = len(modnest.CALLS)
    inner(1)
    assert len(modnest.CALLS) == n0 == 1
    outer.clear(warn=False)          # clears ANOTHER function
    inner(1)
    print('executed_again=%%d' %% (len(modnest.CALLS) - n0))
else:
    chk = inner.check_call_in_cache(1)
    val = inner(1)
    print('check=%%s executed=%%d value=%%r' %% (chk, len(modnest.CALLS), val))
""" % (d, ROOT, os.path.join(d, "cache"))
env = dict(os.environ, PYTHONPATH=ROOT, PYTHONDONTWRITEBYTECODE="1")


def run(phase, tag, cache="A"):
    with open(os.path.join(d, "modnest.py"), "w") as fh:
        fh.write(MOD % tag)
    p = subprocess.run([sys.executable, "-c", DRIVER, phase, cache], env=env,
                       capture_output=True, text=True, timeout=120)
    if p.returncode:
        print(p.stderr[-2000:])
    return p.stdout.strip()


o1 = run("1", "old")
o2 = run("2", "old")   # same code, fresh process
bad = []
if o1 != "executed_again=0":
    bad.append("inner(1) executed again after outer.clear(): " + o1)
if o2.startswith("check=False executed=0"):
    bad.append("check_call_in_cache said False but the call was served from cache: " + o2)
run("1", "old", "B")
o3 = run("2", "new", "B")   # the code of inner was edited between the sessions
if "'new'" not in o3:
    bad.append("edited inner returned a value of the old code: " + o3)
if bad:
    print("VIOLATION: " + " | ".join(bad))
    sys.exit(1)
print("ok")
