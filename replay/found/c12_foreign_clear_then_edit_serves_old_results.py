"""
C12 (also C06/C11): results stored without the code that computed them.

Purely sequential history, two processes sharing one cache directory:
  1. process A calls cached f(1)           (f is now vouched by _FUNCTION_HASHES)
  2. process B runs Memory(dir).clear() and exits
  3. process A calls cached f(2)           -> result stored, but func_code.py is
                                              NOT re-written (in-memory shortcut)
  4. f is edited (here: redefined), and called: f(1) then f(2)
In step 4 the missing func_code.py is simply re-created with the NEW code and
the results already lying in the directory are kept: f(2) returns the value
computed by the OLD code.
"""
import os, sys, signal, tempfile, warnings
ROOT = os.environ.get("JOBLIB_ROOT", "/repo")
sys.path.insert(0, ROOT)
os.environ["PYTHONPATH"] = ROOT + os.pathsep + os.environ.get("PYTHONPATH", "")
signal.alarm(180)  # guard against hangs
warnings.simplefilter("ignore")
import logging; logging.disable(logging.CRITICAL)
import subprocess
from joblib import Memory

d = tempfile.mkdtemp()
mem = Memory(d, verbose=0)

def f(x):
    return ("v1", x)

c1 = mem.cache(f)
c1(1)
subprocess.run(
    [sys.executable, "-c",
     "import sys; from joblib import Memory; Memory(sys.argv[1], verbose=0).clear(warn=False)", d],
    check=True, timeout=60)
c1(2)

def f(x):
    return ("v2", x)

c2 = mem.cache(f)
got = [c2(1), c2(2)]
want = [f(1), f(2)]
if got != want:
    print("VIOLATION C12: edited function returned %r, new code gives %r" % (got, want))
    sys.exit(1)
sys.exit(0)
