import os, sys
ROOT = os.environ.get("JOBLIB_ROOT", "/repo")
sys.path.insert(0, ROOT)
os.environ["PYTHONPATH"] = ROOT + os.pathsep + os.environ.get("PYTHONPATH", "") if os.environ.get("PYTHONPATH") else ROOT
# C19/C20: a tracker request must fit in 512 bytes (inherited _send: "msg too long"); the
# name of the per-call temporary folder alone is ~110 characters, so a legal temp_folder
# path of ~400+ characters (PATH_MAX is 4096) cannot be registered: Parallel fails with
# ValueError('msg too long') before any task runs.
import subprocess, tempfile, shutil
CHILD = r'''
import os, sys
sys.path.insert(0, os.environ["JOBLIB_ROOT_"])
import numpy as np
from joblib import Parallel, delayed
def s(a): return float(a.sum())
if __name__ == "__main__":
    a = np.arange(300000.)
    try:
        r = Parallel(n_jobs=2, temp_folder=sys.argv[1])(delayed(s)(a) for _ in range(2))
        print("RESULT", r == [float(a.sum())] * 2)
    except Exception as e:
        print("EXC", type(e).__name__, str(e)[:80])
'''
tmp = tempfile.mkdtemp()
try:
    d = os.path.join(tmp, *(["d" * 100] * 5))
    os.makedirs(d)
    script = os.path.join(tmp, "child.py")
    open(script, "w").write(CHILD)
    env = dict(os.environ, JOBLIB_ROOT_=ROOT)
    try:
        p = subprocess.run([sys.executable, script, d], env=env, capture_output=True, text=True, timeout=120)
    except subprocess.TimeoutExpired:
        print("VIOLATION C19/C20: hang with long temp folder"); sys.exit(1)
    out = p.stdout.strip()
    if "RESULT True" not in out:
        print("VIOLATION C19/C20: Parallel with a %d-character temp_folder fails:" % len(d), out or p.stderr[-200:])
        sys.exit(1)
finally:
    shutil.rmtree(tmp, ignore_errors=True)
sys.exit(0)
