import os, sys; ROOT = os.environ.get("JOBLIB_ROOT", "/repo"); sys.path.insert(0, ROOT); os.environ["PYTHONPATH"] = ROOT + os.pathsep + os.environ.get("PYTHONPATH", "")
"""C06 - a populated cache directory that the current user may read but not
write (shared cache filled by another account, read-only mount, image layer)
cannot even be opened: Memory(location) raises PermissionError.

FileSystemStoreBackend.configure unconditionally re-creates
<location>/.gitignore with open(..., "w") every time a Memory is constructed.
Every other write of the cache path is tolerant (dump_item -> CacheWarning,
store_metadata -> ignored): if only that .gitignore is made writable, the very
same read-only store serves hits and computes misses with a warning (checked
below as the control), which is the behaviour the code base intends
("warnings instead of errors").

History
  process 1 (owner)      : g = Memory(d).cache(modr.f); g(1)     -> entry stored
  chmod -R a-w d
  process 2 (no write permission; when this script runs as root the child
             drops to uid/gid 65534 after its imports)
                          : Memory(d)                            -> PermissionError
                            expected: g(1) served from the cache, g(2) computed

Property C06: once a call has completed, repeating it - within one process or
across processes sharing a cache directory - is served from the cache; every
call that the plain function accepts is accepted by the cached wrapper.
"""
import shutil
import stat
import subprocess
import tempfile
import textwrap

work = os.path.realpath(tempfile.mkdtemp(prefix="u2ro_"))
os.chmod(work, 0o755)
cache = os.path.join(work, "cache")
with open(os.path.join(work, "modr.py"), "w") as fh:
    fh.write("import os\ndef f(x):\n"
             "    open(os.environ['U2_LOG'], 'a').write('x')\n    return x + 1\n")
log = os.path.join(work, "log.txt")
open(log, "w").close()
os.chmod(log, 0o666)
env = dict(os.environ, PYTHONDONTWRITEBYTECODE="1", U2_LOG=log)

CHILD = textwrap.dedent("""
    import sys, os, warnings
    sys.path.insert(0, %r); sys.path.insert(0, %r)
    import joblib, joblib.memory, joblib.numpy_pickle, joblib._store_backends
    import json, pickle, traceback, logging, tokenize, inspect, pydoc, modr
    assert joblib.__file__.startswith(%r), joblib.__file__
    from joblib import Memory
    if os.environ.get("U2_DROP") and os.getuid() == 0:
        os.setgroups([]); os.setgid(65534); os.setuid(65534)
    warnings.simplefilter("ignore")
    try:
        g = Memory(%r, verbose=0).cache(modr.f)
        print("VALUES", g(1), g(2))
    except OSError as e:
        print("OSERROR", type(e).__name__, e)
""") % (ROOT, work, ROOT, cache)


def child(drop):
    e = dict(env)
    if drop:
        e["U2_DROP"] = "1"
    r = subprocess.run([sys.executable, "-c", CHILD], env=e, cwd="/",
                       capture_output=True, text=True, timeout=30)
    return r.stdout.strip() or ("NO OUTPUT " + r.stderr[-400:])


def set_mode(gitignore_writable):
    for dirpath, _, files in os.walk(cache):
        os.chmod(dirpath, 0o555)
        for name in files:
            writable = gitignore_writable and name == ".gitignore"
            os.chmod(os.path.join(dirpath, name), 0o666 if writable else 0o444)


try:
    assert child(False) == "VALUES 2 3", "population failed"
    executed_before = os.path.getsize(log)           # 2 executions: f(1), f(2)
    set_mode(gitignore_writable=False)
    observed = child(True)
    set_mode(gitignore_writable=True)
    control = child(True)
    executed_after = os.path.getsize(log)
finally:
    for dirpath, _, _ in os.walk(cache):
        os.chmod(dirpath, 0o755)
    shutil.rmtree(work, ignore_errors=True)

if observed.startswith("OSERROR"):
    print("VIOLATION C06-U2c: opening a populated cache without write permission: %s "
          "| control (same store, only .gitignore writable): %s, %d extra executions"
          % (observed, control, executed_after - executed_before))
    sys.exit(1)
if observed != "VALUES 2 3":
    print("unexpected child output:", observed)
    sys.exit(2)
print("ok:", observed)
sys.exit(0)
