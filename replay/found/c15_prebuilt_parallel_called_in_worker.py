"""C15: the backend and its nesting level are fixed when a Parallel object is CONSTRUCTED.
A Parallel object built in the main thread (level 0, default loky) and CALLED from inside
the workers of another Parallel call is not recognised as nested: instead of running on
threads (first nesting level) it runs its tasks in loky worker processes."""
import os, sys, time, warnings
JOBLIB_ROOT = os.environ.get("JOBLIB_ROOT", "/repo")
sys.path.insert(0, JOBLIB_ROOT)
os.environ["PYTHONPATH"] = JOBLIB_ROOT + os.pathsep + os.environ.get("PYTHONPATH", "")
import faulthandler
faulthandler.dump_traceback_later(120, exit=True)
warnings.simplefilter("ignore")
from joblib import Parallel, delayed


def where(i):
    time.sleep(0.05)
    return os.getpid()

inner = Parallel(n_jobs=2)            # built outside any worker, default backend


def outer_task_prebuilt():
    return inner(delayed(where)(i) for i in range(4))


def outer_task_fresh():
    return Parallel(n_jobs=2)(delayed(where)(i) for i in range(4))

if __name__ == "__main__":
    me = os.getpid()
    # reference: Parallel object created inside the worker -> threads of this process
    ref = Parallel(n_jobs=2, backend="threading")([delayed(outer_task_fresh)()])[0]
    got = Parallel(n_jobs=2, backend="threading")([delayed(outer_task_prebuilt)()])[0]
    if set(ref) != {me}:
        print("unexpected reference", ref, me)
        sys.exit(0)
    if set(got) != {me}:
        print("VIOLATION C15: nested call of a pre-built Parallel object ran in %d other "
              "process(es) %s (parent %d) instead of on threads"
              % (len(set(got) - {me}), sorted(set(got) - {me}), me))
        sys.exit(1)
    print("ok")
    sys.exit(0)
