"""C01 / C04 - Parallel (default loky backend) never returns in a forked, non-daemonic child of a process that has already used loky.

Input / configuration
    parent:  Parallel(n_jobs=2)(delayed(sq)(i) for i in range(4))        # fine
             child = multiprocessing.get_context('fork').Process(target=work)   # daemon=False
             (the same holds for os.fork() and for the workers of
              concurrent.futures.ProcessPoolExecutor, which are non-daemonic and
              forked by default on Linux with Python <= 3.13)
    child:   Parallel(n_jobs=2)(delayed(sq)(i) for i in range(4))        # never returns

What happens
    The module-global reusable executor of loky (reusable_executor._executor) is
    inherited by fork together with its bookkeeping (_executor_manager_thread,
    _processes, queues), but neither the manager / queue-feeder threads nor the
    parent-child relation with the workers exist in the child.  Nothing in
    joblib/loky notices the pid change (no os.register_at_fork, no pid check):
    LokyBackend.configure() "re-uses" the inherited executor, submit() enqueues the
    batches, no thread ever ships them, and Parallel._retrieve() polls forever.
    (A daemonic child is protected by the daemon guard in
    LokyBackend.effective_n_jobs; backend='threading'/'multiprocessing' work.)

What the property demands
    C01: Parallel(...)(tasks) yields exactly [f(*a, **k) ...] for every backend and
    n_jobs; C04: "The call always terminates".  The child is an ordinary top-level
    caller (nesting level 0, main thread, not daemonic), so it must either get its
    own executor or fall back to another backend - not hang.
"""
import os, sys; ROOT = os.environ.get("JOBLIB_ROOT", "/repo"); sys.path.insert(0, ROOT); os.environ["PYTHONPATH"] = ROOT + os.pathsep + os.environ.get("PYTHONPATH", "")

import multiprocessing as mp
import time
import warnings

warnings.simplefilter("ignore")

from joblib import Parallel, delayed

CHILD_BUDGET = 15  # seconds; the same call takes well under a second in the parent


def sq(x):
    return x * x


def child(conn):
    res = Parallel(n_jobs=2)(delayed(sq)(i) for i in range(4))
    conn.send(res)
    conn.close()


def kill_tree(pid):
    # only kill what this script started: the child and its own descendants
    try:
        out = os.popen(f"pgrep -P {pid}").read().split()
    except Exception:
        out = []
    for c in out:
        kill_tree(int(c))
    try:
        os.kill(pid, 9)
    except OSError:
        pass


def main():
    t0 = time.time()
    first = Parallel(n_jobs=2)(delayed(sq)(i) for i in range(4))
    assert first == [0, 1, 4, 9]
    parent_time = time.time() - t0

    ctx = mp.get_context("fork")
    recv, send = ctx.Pipe(duplex=False)
    proc = ctx.Process(target=child, args=(send,))  # daemon=False: a plain child
    proc.start()
    send.close()
    got = None
    if recv.poll(CHILD_BUDGET):
        try:
            got = recv.recv()
        except EOFError:
            got = "child died"
    hung = got is None
    if hung:
        kill_tree(proc.pid)
    proc.join(5)

    # leave no loky workers of the parent behind
    try:
        from joblib.externals.loky import get_reusable_executor
        get_reusable_executor().shutdown(wait=True, kill_workers=True)
    except Exception:
        pass

    if hung:
        print(f"VIOLATION C01: Parallel(n_jobs=2) (loky) called in a forked non-daemonic "
              f"child did not return within {CHILD_BUDGET}s (the identical call took "
              f"{parent_time:.2f}s in the parent, expected [0, 1, 4, 9])")
        return 1
    if got != [0, 1, 4, 9]:
        print(f"VIOLATION C01: child got {got!r}")
        return 1
    print("child returned", got)
    return 0


if __name__ == "__main__":
    sys.exit(main())
