"""
C12 / C11: a result computed by the old code is stored after the new code took over.

Thread T runs cached f_old(2) (slow). Meanwhile f is redefined and f_new(1) is
called: the code change is detected, the cache wiped and func_code.py now
holds the new code. T finishes and stores its result in the directory without
re-checking the stored code. f_new(2) then returns the value computed by the
old code. (Same thing across processes: an old session still running while an
edited session starts.)
"""
import os, sys, signal, tempfile, warnings
ROOT = os.environ.get("JOBLIB_ROOT", "/repo")
sys.path.insert(0, ROOT)
os.environ["PYTHONPATH"] = ROOT + os.pathsep + os.environ.get("PYTHONPATH", "")
signal.alarm(180)  # guard against hangs
warnings.simplefilter("ignore")
import logging; logging.disable(logging.CRITICAL)
import threading
from joblib import Memory

d = tempfile.mkdtemp()
mem = Memory(d, verbose=0)
started, go = threading.Event(), threading.Event()

def f(x):
    started.set()
    go.wait(30)
    return ("v1", x)

c_old = mem.cache(f)
t = threading.Thread(target=c_old, args=(2,))
t.start()
started.wait(30)

def f(x):
    return ("v2", x)

c_new = mem.cache(f)
r1 = c_new(1)
go.set()
t.join(30)
r2 = c_new(2)
if (r1, r2) != (("v2", 1), ("v2", 2)):
    print("VIOLATION C12: new definition returned %r for f(2)" % (r2,))
    sys.exit(1)
sys.exit(0)
