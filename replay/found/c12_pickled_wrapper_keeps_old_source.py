import os, sys; ROOT = os.environ.get("JOBLIB_ROOT", "/repo"); sys.path.insert(0, ROOT); os.environ["PYTHONPATH"] = ROOT + os.pathsep + os.environ.get("PYTHONPATH", "")
"""C12 on the unchanged tree: a MemorizedFunc that is pickled in one session and
unpickled in the next keeps the source text captured at pickling time
(__getstate__ forces func_code_info, the unpickled copy never re-reads it
because _func_code_id is None -> set to the current code without
invalidating _func_code_info).  If the function was edited between the
sessions, the unpickled wrapper compares the OLD source with the stored (old)
source, finds them equal and serves values computed by the old code, while
`wrapper.func` is the new function.

session 1: c12mod.f version 1; cf = Memory(d).cache(f); cf(1); pickle cf to disk
edit c12mod.f -> version 2
session 2: cf = unpickle; cf(1) must be what version 2 computes.
"""
import shutil
import subprocess
import tempfile
import textwrap

SRC = "def f(x):\n    return ('v%d', x)\n"
CHILD = textwrap.dedent(
    r'''
    import os, sys, pickle, warnings
    ROOT, moddir, cache, pkl, mode = sys.argv[1:6]
    sys.path.insert(0, ROOT); sys.path.insert(0, moddir)
    warnings.simplefilter("ignore")
    import joblib
    assert os.path.dirname(os.path.abspath(joblib.__file__)) == os.path.join(ROOT, "joblib"), joblib.__file__
    from joblib import Memory
    import c12mod
    if mode == "dump":
        cf = Memory(cache, verbose=0).cache(c12mod.f)
        print(repr(cf(1)))
        with open(pkl, "wb") as fh:
            pickle.dump(cf, fh)
    else:
        with open(pkl, "rb") as fh:
            cf = pickle.load(fh)
        assert cf.func is c12mod.f
        print(repr((cf(1), c12mod.f(1))))
    '''
)


def main():
    tmp = tempfile.mkdtemp(prefix="c12_found_")
    try:
        moddir = os.path.join(tmp, "mod")
        os.mkdir(moddir)
        modfile = os.path.join(moddir, "c12mod.py")
        with open(modfile, "w") as fh:
            fh.write(SRC % 1)
        args = [sys.executable, "-c", CHILD, ROOT, moddir, os.path.join(tmp, "cache"), os.path.join(tmp, "cf.pkl")]
        r = subprocess.run(args + ["dump"], capture_output=True, text=True, timeout=60)
        assert r.returncode == 0 and r.stdout.strip() == repr(("v1", 1)), (r.stdout, r.stderr)
        with open(modfile, "w") as fh:
            fh.write(SRC % 2)
        shutil.rmtree(os.path.join(moddir, "__pycache__"), ignore_errors=True)
        r = subprocess.run(args + ["load"], capture_output=True, text=True, timeout=60)
        assert r.returncode == 0, r.stderr
        got, plain = eval(r.stdout.strip())
    finally:
        shutil.rmtree(tmp, ignore_errors=True)
    if got != plain:
        print("VIOLATION C12: after editing f between two sessions, the unpickled cached wrapper returned %r "
              "(computed by the previous source) while its func now computes %r" % (got, plain))
        return 1
    print("ok: the unpickled wrapper ran the new code")
    return 0


if __name__ == "__main__":
    sys.exit(main())
