import os, sys; ROOT = os.environ.get("JOBLIB_ROOT", "/repo"); sys.path.insert(0, ROOT); os.environ["PYTHONPATH"] = ROOT + os.pathsep + os.environ.get("PYTHONPATH", "")
"""C02 - when the result of a call cannot be written to the store,
call_and_shelve() still returns a MemorizedResult - a reference to an entry that
does not exist.  The computed value is dropped, .get() raises KeyError.

A plain call in the same situation is fine: dump_item turns the write error
into a CacheWarning and the computed value is returned.  call_and_shelve goes
through the same _after_call, ignores that nothing was stored and builds the
reference anyway.

Input / environment: the store cannot take the result - here a file-size quota
(RLIMIT_FSIZE = 64 KiB, the write fails with EFBIG exactly like ENOSPC / EDQUOT
on a full disk) and a 1 MB result.  An un-picklable result (a function that
returns a lambda or an open file) gives the same outcome without any quota.

    big(1_000_000)                      -> 1 MB of bytes, CacheWarning   (fine)
    big.call_and_shelve(2_000_000)      -> MemorizedResult(...)          (no error)
        .get()                          -> KeyError: Non-existing item   WRONG

In addition every failed write leaves its partial temporary file
output.pkl.thread-<id>-pid-<pid> behind in the entry directory for ever
(concurrency_safe_write never unlinks it), so a full disk stays full.

Property C02: a function wrapped by Memory.cache always returns a value equal
to what the undecorated function returns for the same arguments, over any
history of calls ... and shelved references (call_and_shelve(...).get()).
"""
import shutil
import subprocess
import tempfile
import textwrap

work = os.path.realpath(tempfile.mkdtemp(prefix="u2full_"))
CHILD = textwrap.dedent("""
    import sys, os, resource, warnings
    sys.path.insert(0, %r)
    import joblib
    assert joblib.__file__.startswith(%r), joblib.__file__
    from joblib import Memory
    warnings.simplefilter("ignore")
    mem = Memory(%r, verbose=0)

    def big(n):
        return b"x" * n
    big = mem.cache(big)
    assert len(big(10)) == 10
    resource.setrlimit(resource.RLIMIT_FSIZE, (65536, 65536))
    plain_len = len(big(1000000))
    try:
        ref = big.call_and_shelve(2000000)
    except Exception as e:
        print("RAISED", type(e).__name__); sys.exit(0)
    try:
        print("GET", plain_len, len(ref.get()))
    except KeyError as e:
        print("KEYERROR", plain_len, type(ref).__name__)
""") % (ROOT, ROOT, work)
try:
    r = subprocess.run([sys.executable, "-c", CHILD], capture_output=True, text=True,
                       timeout=35, cwd=work)
    leaked = [name for _, _, files in os.walk(work) for name in files if ".thread-" in name]
finally:
    shutil.rmtree(work, ignore_errors=True)
out = r.stdout.strip()
if out.startswith("KEYERROR"):
    print("VIOLATION C02-U2a: with a 64 KiB file-size quota on the store, the plain cached "
          "call returned its %s-byte result, but call_and_shelve(2000000) returned a %s "
          "whose .get() raises KeyError (expected the 2000000-byte value, or an error from "
          "call_and_shelve itself); partial temporary files left behind: %d"
          % (out.split()[1], out.split()[2], len(leaked)))
    sys.exit(1)
if out.startswith("RAISED"):
    print("ok: call_and_shelve reported the failed store itself:", out)
    sys.exit(0)
if not out.startswith("GET 1000000 2000000"):
    print("unexpected child output:", out, r.stderr[-500:])
    sys.exit(2)
print("ok:", out)
sys.exit(0)
