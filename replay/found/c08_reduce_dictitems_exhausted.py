import os, sys
ROOT = os.environ.get("JOBLIB_ROOT", "/repo")
sys.path.insert(0, ROOT)
os.environ["PYTHONPATH"] = ROOT + os.pathsep + os.environ.get("PYTHONPATH", "") if os.environ.get("PYTHONPATH") else ROOT
# C08: Hasher._batch_setitems does sorted(items); for objects pickled through __reduce__
# (OrderedDict, ...) `items` is a one-shot iterator.  With unorderable keys sorted()
# consumes it and raises TypeError, the fallback then iterates an EXHAUSTED iterator:
# no item is hashed at all, so OrderedDicts with different contents collide.
import collections
import joblib
a = collections.OrderedDict([(1, "x"), ("a", "y")])
b = collections.OrderedDict([(1, "COMPLETELY"), ("a", "DIFFERENT")])
c = collections.OrderedDict([(2, "other keys"), ("b", "too")])
if joblib.hash(a) == joblib.hash(b) or joblib.hash(a) == joblib.hash(c):
    print("VIOLATION C08: OrderedDicts with mixed-type keys and different items share digest",
          joblib.hash(a), joblib.hash(b), joblib.hash(c))
    sys.exit(1)
sys.exit(0)
