"""
C02: bound methods passed as arguments are hashed as (function __name__, instance, class).

Two different methods of one instance whose underlying functions have the same
__name__ (methods produced by a decorator that does not use functools.wraps,
lambdas assigned in the class body, ...) are different argument values but get
the same hash: the second call returns the result of the first.
"""
import os, sys, signal, tempfile, warnings
ROOT = os.environ.get("JOBLIB_ROOT", "/repo")
sys.path.insert(0, ROOT)
os.environ["PYTHONPATH"] = ROOT + os.pathsep + os.environ.get("PYTHONPATH", "")
signal.alarm(180)  # guard against hangs
warnings.simplefilter("ignore")
import logging; logging.disable(logging.CRITICAL)
from joblib import Memory

mem = Memory(tempfile.mkdtemp(), verbose=0)

def logged(fn):
    def wrapper(self, *args):
        return fn(self, *args)
    return wrapper

class K:
    @logged
    def one(self):
        return 1
    @logged
    def two(self):
        return 2

def apply(method):
    return method()

c = mem.cache(apply)
k = K()
got = (c(k.one), c(k.two))
if got != (apply(k.one), apply(k.two)):
    print("VIOLATION C02: cached (apply(k.one), apply(k.two)) = %r, plain %r" % (got, (1, 2)))
    sys.exit(1)
sys.exit(0)
