"""
C12: a still-referenced older definition must keep returning its own values.

f is defined, cached and called; f is redefined under the same name (same
module, same func_id) and called; then the still-referenced OLD definition is
called again. The in-memory table _FUNCTION_HASHES still vouches for the old
function although func_code.py now holds the new code, so the old definition
is served the value computed by the new code.
"""
import os, sys, signal, tempfile, warnings
ROOT = os.environ.get("JOBLIB_ROOT", "/repo")
sys.path.insert(0, ROOT)
os.environ["PYTHONPATH"] = ROOT + os.pathsep + os.environ.get("PYTHONPATH", "")
signal.alarm(180)  # guard against hangs
warnings.simplefilter("ignore")
import logging; logging.disable(logging.CRITICAL)
from joblib import Memory

mem = Memory(tempfile.mkdtemp(), verbose=0)

def f(x):
    return ("old", x)
f_old = f

def f(x):
    return ("new", x)
f_new = f

c_old, c_new = mem.cache(f_old), mem.cache(f_new)
r1 = c_old(1)      # ('old', 1)
r2 = c_new(1)      # code changed: cache wiped, ('new', 1)
r3 = c_old(1)      # must be ('old', 1)
if r3 != f_old(1):
    print("VIOLATION C12: old definition returned %r, its own value is %r" % (r3, f_old(1)))
    sys.exit(1)
sys.exit(0)
