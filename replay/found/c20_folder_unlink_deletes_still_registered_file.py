import os, sys; ROOT = os.environ.get("JOBLIB_ROOT", "/repo"); sys.path.insert(0, ROOT); os.environ["PYTHONPATH"] = ROOT + os.pathsep + os.environ.get("PYTHONPATH", "")
"""Pre-existing behaviour (C20 by the letter, 'folders containing tracked files'):

A file registered with the tracker (count 1) that lives in a registered folder
is deleted as soon as the count of the *folder* returns to zero (MAYBE_UNLINK of
the folder runs shutil.rmtree), although the file still has a registered user.
joblib itself never sends MAYBE_UNLINK for a folder (it empties and deletes its
folders itself), so this needs a direct use of resource_tracker.maybe_unlink /
the raw protocol, as done here.
"""
import subprocess
import tempfile
import time

import joblib

assert os.path.abspath(joblib.__file__).startswith(os.path.abspath(ROOT)), joblib.__file__

with tempfile.TemporaryDirectory() as d:
    folder = os.path.join(d, "folder")
    os.mkdir(folder)
    inside = os.path.join(folder, "a.pkl")
    sentinel = os.path.join(d, "sentinel")
    for p in (inside, sentinel):
        open(p, "wb").close()
    r, w = os.pipe()
    code = "from joblib.externals.loky.backend.resource_tracker import main; main(%d)" % r
    proc = subprocess.Popen([sys.executable, "-c", code], pass_fds=[r], stderr=subprocess.DEVNULL)
    os.close(r)
    for line in (
        "REGISTER:%s:folder" % folder,
        "REGISTER:%s:file" % inside,  # one registered user of the file
        "MAYBE_UNLINK:%s:folder" % folder,  # last user of the folder goes away
        "REGISTER:%s:file" % sentinel,
        "MAYBE_UNLINK:%s:file" % sentinel,  # synchronisation
    ):
        os.write(w, (line + "\n").encode("ascii"))
    deadline = time.time() + 30
    while os.path.exists(sentinel) and time.time() < deadline and proc.poll() is None:
        time.sleep(0.01)
    synced = not os.path.exists(sentinel)
    deleted_early = not os.path.exists(inside)
    os.close(w)
    proc.wait(timeout=60)

if not synced:
    print("tracker did not answer")
    sys.exit(2)
if deleted_early:
    print("VIOLATION C20: file folder/a.pkl (reference count 1, never maybe_unlink'ed) was deleted together with its folder when the folder's count returned to zero")
    sys.exit(1)
print("ok")
sys.exit(0)
