"""C04 (loky, the default backend): a task raising an exception whose class cannot be rebuilt
from .args by pickle (its __init__ needs two arguments, .args carries one) makes Parallel
raise BrokenProcessPool('A result has failed to un-serialize') - not an exception of the
type raised by the task - and the whole executor is torn down.  An exception class whose
__init__ formats its argument comes back with different args (('msg msg 1',) for
('msg 1',)).  The same tasks under backend='threading' raise E(1) / E2 with the right args.
(The known item about such exceptions concerns backend='multiprocessing', where the call
hangs; here the call returns but with the wrong exception.)"""
import os, sys, warnings
JOBLIB_ROOT = os.environ.get("JOBLIB_ROOT", "/repo")
sys.path.insert(0, JOBLIB_ROOT)
os.environ["PYTHONPATH"] = JOBLIB_ROOT + os.pathsep + os.environ.get("PYTHONPATH", "")
import faulthandler
faulthandler.dump_traceback_later(120, exit=True)
warnings.simplefilter("ignore")
from joblib import Parallel, delayed


class E(Exception):
    def __init__(self, a, b):
        super().__init__(a)
        self.b = b


class E2(Exception):
    def __init__(self, x):
        super().__init__("msg %s" % x)


def raise_E(i):
    raise E(1, 2)


def raise_E2(i):
    raise E2(1)


def ident(i):
    return i


def outcome(backend, bad_task):
    try:
        Parallel(n_jobs=2, backend=backend)([delayed(ident)(0), bad_task, delayed(ident)(2)])
        return ("returned",)
    except BaseException as e:
        return (type(e).__name__, e.args if type(e) in (E, E2) else "...")

if __name__ == "__main__":
    bad = []
    for name, task, want in [("E(1, 2)", delayed(raise_E)(1), ("E", (1,))),
                             ("E2(1)", delayed(raise_E2)(1), ("E2", ("msg 1",)))]:
        ref = outcome("threading", task)
        got = outcome("loky", task)
        if ref != want:
            print("unexpected reference outcome", ref)
            sys.exit(0)
        if got != want:
            bad.append("task raises %s -> loky call raises %s%s (threading: %s%s)"
                       % (name, got[0], got[1] if got[1] != "..." else "", ref[0], ref[1]))
    if bad:
        print("VIOLATION C04: " + " | ".join(bad))
        sys.exit(1)
    print("ok")
    sys.exit(0)
