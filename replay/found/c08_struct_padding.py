import os, sys
ROOT = os.environ.get("JOBLIB_ROOT", "/repo")
sys.path.insert(0, ROOT)
os.environ["PYTHONPATH"] = ROOT + os.pathsep + os.environ.get("PYTHONPATH", "") if os.environ.get("PYTHONPATH") else ROOT
# C08: for structured dtypes with padding (align=True / explicit offsets) the raw buffer,
# padding bytes included, is hashed.  Padding is not part of the value (numpy leaves it
# uninitialised, == ignores it): equal arrays get different digests, and
# np.array([(1, 2.0)], dtype=dt) hashes differently from run to run.
import numpy as np
import joblib
dt = np.dtype([("a", "i1"), ("b", "f8")], align=True)
a = np.zeros(4, dtype=dt)
a["a"] = [1, 2, 3, 4]; a["b"] = [.5, 1.5, 2.5, 3.5]
b = np.frombuffer(bytearray(b"\xff" * a.nbytes), dtype=dt).copy()
b["a"] = a["a"]; b["b"] = a["b"]
assert (a == b).all() and a.dtype == b.dtype and a.tolist() == b.tolist()
if joblib.hash(a) != joblib.hash(b):
    print("VIOLATION C08: equal structured arrays (same dtype, same field values) hash differently:",
          joblib.hash(a), joblib.hash(b))
    sys.exit(1)
sys.exit(0)
