"""C04/C01: with backend='loky' a task failure (or an early generator close) in
one Parallel object kills the shared executor, so an independent, concurrently
running Parallel object - none of whose tasks failed - raises RuntimeError("The
executor underlying Parallel has been shutdown...") instead of delivering its
values.

    g = Parallel(n_jobs=2, backend='loky', return_as='generator')(20 ok tasks)
    next(g)
    Parallel(n_jobs=2, backend='loky')(failing tasks)   -> ValueError (fine)
    list(g)                         -> RuntimeError, expected [1, ..., 19]
"""
import os
import signal
import subprocess
import sys
import time
import warnings


def f(i, d=0.1):
    time.sleep(d)
    return i


def boom(i):
    raise ValueError("x")


def child():
    from joblib import Parallel, delayed

    warnings.simplefilter("ignore")
    p1 = Parallel(n_jobs=2, backend="loky", return_as="generator")
    g = p1(delayed(f)(i) for i in range(20))
    first = next(g)
    p2 = Parallel(n_jobs=2, backend="loky")
    try:
        p2(delayed(boom)(i) for i in range(4))
    except ValueError:
        pass
    try:
        rest = list(g)
    except RuntimeError as e:
        with open(sys.argv[2], "w") as fh:
            fh.write(repr(e)[:120])
        os._exit(5)
    os._exit(0 if [first] + rest == list(range(20)) else 3)


if __name__ == "__main__":
    if len(sys.argv) > 1 and sys.argv[1] == "child":
        child()
    import tempfile

    fd, report = tempfile.mkstemp(suffix=".txt")
    os.close(fd)
    proc = subprocess.Popen(
        [sys.executable, os.path.abspath(__file__), "child", report],
        stdout=subprocess.DEVNULL,
        stderr=subprocess.DEVNULL,
        start_new_session=True,
    )
    try:
        rc = proc.wait(60)
    except subprocess.TimeoutExpired:
        os.killpg(proc.pid, signal.SIGKILL)
        os.unlink(report)
        print("VIOLATION C04: hang")
        sys.exit(1)
    with open(report, "rb") as fh:
        out = fh.read()
    os.unlink(report)
    try:
        os.killpg(proc.pid, signal.SIGKILL)
    except OSError:
        pass
    if rc == 0:
        print("ok")
        sys.exit(0)
    print(
        "VIOLATION C04: Parallel whose tasks all succeed raised because another "
        "Parallel's task failed (child rc=%r): %s" % (rc, out.decode()[:160])
    )
    sys.exit(1)
