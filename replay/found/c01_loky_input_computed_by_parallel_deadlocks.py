"""C01 / C04 - a Parallel call whose input iterable is (lazily) produced by another Parallel call dead-locks with the default backend.

Input / configuration (one thread, list results, same n_jobs, nothing fails)
    def chunks():
        for c in range(6):
            yield from Parallel(n_jobs=2)(delayed(prep)(i) for i in range(3*c, 3*c+3))
    Parallel(n_jobs=2)(delayed(work)(x) for x in chunks())
    i.e. a two-stage pipeline.  Second witness, the streaming form of the same
    pipeline (what return_as='generator' is meant for):
    stage1 = Parallel(n_jobs=2, return_as='generator')(delayed(prep)(i) for i in range(40))
    Parallel(n_jobs=2)(delayed(work)(x) for x in stage1)

What happens
    The outer call pulls its input inside dispatch_one_batch(), holding the outer
    Parallel._lock (in the calling thread during pre-dispatch, later in the
    completion callback).  Pulling an item runs the inner Parallel call, which
    submits to loky's single reusable executor and polls for its results.  As soon
    as one of the outer tasks already dispatched completes, the executor's only
    manager thread runs the outer BatchCompletionCallBack, which blocks on the outer
    _lock - held by the thread that waits for the inner results, which only that
    manager thread can deliver.  Neither side can progress: the call never
    returns (no exception, no timeout).  Every combination with
    backend='threading' or 'multiprocessing' on either side returns the 18 results.

What the property demands
    C01: for any finite iterable of delayed calls Parallel(...)(tasks) yields
    [f(*a, **k) for f, a, k in tasks] for every backend / n_jobs, whatever the
    interleaving of completion callbacks with the dispatching thread; C04: the call
    always terminates.  `[work(x) for x in chunks()]` is a perfectly finite input.
"""
import os, sys; ROOT = os.environ.get("JOBLIB_ROOT", "/repo"); sys.path.insert(0, ROOT); os.environ["PYTHONPATH"] = ROOT + os.pathsep + os.environ.get("PYTHONPATH", "")

import subprocess
import time

BUDGET = 12  # seconds for a job that needs < 2 s with any other backend pair

CHILD = r'''
import sys, warnings
warnings.simplefilter("ignore")
sys.path.insert(0, {root!r})
from joblib import Parallel, delayed

def prep(i):
    return i

def work(x):
    return x * x

def chunks(backend):
    for c in range(6):
        yield from Parallel(n_jobs=2, backend=backend)(
            delayed(prep)(i) for i in range(3 * c, 3 * c + 3))

outer, inner, shape = sys.argv[1], sys.argv[2], sys.argv[3]
if shape == "chunks":
    source, n = chunks(inner), 18
else:
    n = 40
    source = Parallel(n_jobs=2, backend=inner, return_as="generator")(
        delayed(prep)(i) for i in range(n))
out = Parallel(n_jobs=2, backend=outer)(delayed(work)(x) for x in source)
assert out == [i * i for i in range(n)], out
print("RESULT-OK")
'''


def run(outer, inner, shape="chunks"):
    """Run one pipeline in its own process group; return (status, seconds)."""
    t0 = time.time()
    proc = subprocess.Popen(
        [sys.executable, "-c", CHILD.format(root=ROOT), outer, inner, shape],
        stdout=subprocess.PIPE, stderr=subprocess.DEVNULL, text=True,
        start_new_session=True,
    )
    try:
        out, _ = proc.communicate(timeout=BUDGET)
        status = "ok" if "RESULT-OK" in out else f"failed rc={proc.returncode}"
    except subprocess.TimeoutExpired:
        status = "hang"
        # kill only the process group created above (child + its loky workers)
        try:
            os.killpg(proc.pid, 9)
        except OSError:
            pass
        proc.wait()
    return status, time.time() - t0


def main():
    ref_status, ref_time = run("loky", "threading", "chunks")  # controls: must work
    ref2_status, ref2_time = run("loky", "threading", "generator")
    status, seconds = run("loky", "loky", "chunks")     # the default backend twice
    status2, seconds2 = run("loky", "loky", "generator")
    print(f"controls loky<-threading: chunks {ref_status} in {ref_time:.1f}s, generator "
          f"{ref2_status} in {ref2_time:.1f}s; loky<-loky: chunks {status} in "
          f"{seconds:.1f}s, generator {status2} in {seconds2:.1f}s")
    hung = [name for name, st in (("lazy chunks", status), ("generator pipeline", status2))
            if st == "hang"]
    if hung and ref_status == "ok" and ref2_status == "ok":
        print(f"VIOLATION C01: Parallel(n_jobs=2)(delayed(work)(x) for x in source) whose "
              f"source yields the results of inner Parallel(n_jobs=2) calls did not return "
              f"within {BUDGET}s with the default loky backend for: {', '.join(hung)} "
              f"(the same pipelines with inner backend='threading' returned all results in "
              f"{ref_time:.1f}s / {ref2_time:.1f}s)")
        return 1
    if status != "ok" or status2 != "ok":
        print(f"VIOLATION C01: pipeline {status} / {status2}")
        return 1
    return 0


if __name__ == "__main__":
    sys.exit(main())
