"""77389fc: SIGHUP was added to resource_tracker._IGNORED_SIGNALS, which is
also the set that ResourceTracker.ensure_running() blocks around the spawn of
the tracker and then *unconditionally unblocks* in the calling (client)
thread.  A program that keeps SIGHUP blocked (pthread_sigmask + sigwait /
signalfd thread, the usual way to handle 'reload' signals in threaded
daemons) finds SIGHUP unblocked after its first Parallel call / first use of
the tracker: the next SIGHUP kills it (default action) instead of staying
pending for its sigwait thread.  Before 77389fc the mask was left alone for
SIGHUP."""
import os
import subprocess
import sys

ROOT = os.environ.get("JOBLIB_ROOT", "/repo")

CHILD = r"""
import os, signal, sys
sys.path.insert(0, os.environ["JOBLIB_ROOT_"])
if not hasattr(signal, "pthread_sigmask") or not hasattr(signal, "SIGHUP"):
    print("SKIP"); sys.exit(0)
signal.pthread_sigmask(signal.SIG_BLOCK, {signal.SIGHUP})
from joblib import Parallel, delayed
import math
if __name__ == "__main__":
    out = Parallel(n_jobs=2)(delayed(math.sqrt)(i) for i in range(4))
    blocked = signal.SIGHUP in signal.pthread_sigmask(signal.SIG_BLOCK, [])
    print("BLOCKED_AFTER=%s" % blocked, flush=True)
    # what the program would experience on a real hang-up:
    os.kill(os.getpid(), signal.SIGHUP)
    print("SURVIVED", flush=True)
"""


def main():
    env = dict(os.environ)
    env["JOBLIB_ROOT_"] = ROOT
    env["PYTHONPATH"] = ROOT + os.pathsep + env.get("PYTHONPATH", "")
    import signal
    import tempfile

    with tempfile.TemporaryFile("w+") as log:
        # own session: the workers that outlive a killed child are reaped below
        p = subprocess.Popen(
            [sys.executable, "-c", CHILD],
            env=env,
            stdout=log,
            stderr=subprocess.DEVNULL,
            start_new_session=True,
        )
        try:
            p.wait(timeout=120)
        except subprocess.TimeoutExpired:
            os.killpg(p.pid, signal.SIGKILL)
            print("VIOLATION: child timed out")
            return 1
        finally:
            try:
                os.killpg(p.pid, signal.SIGKILL)
            except OSError:
                pass
        log.seek(0)
        out = log.read()
    if "SKIP" in out:
        print("skipped (no pthread_sigmask / SIGHUP)")
        return 0
    if "BLOCKED_AFTER=True" in out and "SURVIVED" in out:
        print("ok")
        return 0
    print(
        "VIOLATION: SIGHUP blocked by the program is unblocked after a Parallel "
        "call; child output=%r returncode=%s" % (out.strip(), p.returncode)
    )
    return 1


if __name__ == "__main__":
    sys.exit(main())
