"""
C06: check_call_in_cache() answers False although the next identical call does not execute the function.

When a function directory holds results but no func_code.py (state produced
by a clear() of another process followed by a store, see
c12_foreign_clear_then_edit_serves_old_results.py, or by a kill during
Memory.clear()), the first check in a fresh process re-creates func_code.py
and answers False; the results lying there are kept, so the next identical
call is served from the cache without executing the body.
"""
import os, sys, signal, tempfile, warnings
ROOT = os.environ.get("JOBLIB_ROOT", "/repo")
sys.path.insert(0, ROOT)
os.environ["PYTHONPATH"] = ROOT + os.pathsep + os.environ.get("PYTHONPATH", "")
signal.alarm(180)  # guard against hangs
warnings.simplefilter("ignore")
import logging; logging.disable(logging.CRITICAL)
import subprocess
d = tempfile.mkdtemp()
open(os.path.join(d, "modc.py"), "w").write("def f(x):\n    print('EXECUTED')\n    return x\n")
S1 = r'''
import sys, subprocess, warnings
warnings.simplefilter("ignore")
sys.path.insert(0, sys.argv[1])
import modc
from joblib import Memory
mem = Memory(sys.argv[1] + "/cache", verbose=0)
c = mem.cache(modc.f)
c(1)
subprocess.run([sys.executable, "-c",
    "import sys; from joblib import Memory; Memory(sys.argv[1] + '/cache', verbose=0).clear(warn=False)", sys.argv[1]], check=True)
c(2)
'''
S2 = r'''
import sys, warnings
warnings.simplefilter("ignore")
sys.path.insert(0, sys.argv[1])
import modc
from joblib import Memory
mem = Memory(sys.argv[1] + "/cache", verbose=0)
c = mem.cache(modc.f)
print("CHECK", c.check_call_in_cache(2))
c(2)
'''
subprocess.run([sys.executable, "-c", S1, d], check=True, capture_output=True, timeout=60)
r = subprocess.run([sys.executable, "-c", S2, d], check=True, capture_output=True, text=True, timeout=60)
check = "CHECK True" in r.stdout
executed = "EXECUTED" in r.stdout
if check == executed:      # True <=> not executed
    print("VIOLATION C06: check_call_in_cache(2) returned %r and the next call f(2) %s the function"
          % (check, "executed" if executed else "did NOT execute"))
    sys.exit(1)
sys.exit(0)
