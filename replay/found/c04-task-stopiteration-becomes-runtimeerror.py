"""C04: a task that raises StopIteration does not surface as StopIteration:
Parallel raises RuntimeError('generator raised StopIteration') instead - for
n_jobs=1 and n_jobs=2 alike (the exception crosses joblib's internal
generators).  The sequential loop [f(*a, **k) ...] raises StopIteration('stop', 2).
"""
import sys

from joblib import Parallel, delayed


def f(i):
    if i == 2:
        raise StopIteration("stop", i)
    return i


bad = []
for n_jobs in (1, 2):
    p = Parallel(n_jobs=n_jobs, backend="threading")
    try:
        p(delayed(f)(i) for i in range(5))
        bad.append((n_jobs, "returned"))
    except StopIteration as e:
        if e.args != ("stop", 2):
            bad.append((n_jobs, repr(e)))
    except BaseException as e:  # noqa
        bad.append((n_jobs, repr(e)))
if bad:
    print("VIOLATION C04: task raised StopIteration('stop', 2) but got %r" % bad)
    sys.exit(1)
print("ok")
sys.exit(0)
