"""
C12 (last sentence) / C06 across processes: unchanged code does not keep its cache.

For a function without retrievable source (python -c, stdin, exec) the stored
code is str(hash(code object)), which depends on the per-process string hash
seed: every new session sees "changed" code, wipes the function's cache and
executes the body again although nothing changed.
"""
import os, sys, signal, tempfile, warnings
ROOT = os.environ.get("JOBLIB_ROOT", "/repo")
sys.path.insert(0, ROOT)
os.environ["PYTHONPATH"] = ROOT + os.pathsep + os.environ.get("PYTHONPATH", "")
signal.alarm(180)  # guard against hangs
warnings.simplefilter("ignore")
import logging; logging.disable(logging.CRITICAL)
import subprocess
d = tempfile.mkdtemp()
PROG = r'''
import sys, warnings
warnings.simplefilter("ignore")
from joblib import Memory
mem = Memory(sys.argv[1], verbose=0)
def f(x):
    print("EXECUTED")
    return x + 1
mem.cache(f)(1)
'''
runs = []
for seed in ("1", "2", "3"):
    env = dict(os.environ, PYTHONHASHSEED=seed)   # default is a random seed per process
    r = subprocess.run([sys.executable, "-c", PROG, d], env=env, capture_output=True, text=True, timeout=60, check=True)
    runs.append(r.stdout.count("EXECUTED"))
if runs[1:] != [0, 0]:
    print("VIOLATION C12/C06: unchanged function body executed again in later sessions: executions per session = %r" % runs)
    sys.exit(1)
sys.exit(0)
