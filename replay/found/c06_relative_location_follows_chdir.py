import os, sys; ROOT = os.environ.get("JOBLIB_ROOT", "/repo"); sys.path.insert(0, ROOT); os.environ["PYTHONPATH"] = ROOT + os.pathsep + os.environ.get("PYTHONPATH", "")
"""C06 - Memory keeps a relative `location` relative: the store is wherever the
current working directory happens to be at each file-system access.

History, one process:
    os.chdir(A);  mem = Memory("cache");  f = mem.cache(double)
    f(1)                          executes the body, entry under A/cache/joblib
    ref = f.call_and_shelve(1)    (reference to that entry)
    os.chdir(B)
    f.check_call_in_cache(1)      -> False                       (expected True)
    ref.get()                     -> KeyError                    (expected 2)
    f(1)                          executes the body AGAIN and silently creates a
                                  second cache tree B/cache/joblib/...
                                  (without the .gitignore of a real cache dir)
    Memory.reduce_size / clear now act on B/cache, never on A/cache.

The same holds for a pickled Memory / MemorizedFunc / MemorizedResult used by a
process with another working directory.

Property C06: once a call has completed, repeating it is served from the cache
without executing the function body again, as long as the entry has not been
evicted, cleared or invalidated; check_call_in_cache answers True exactly when
the next identical call would not execute the function.
"""
import shutil
import tempfile
import warnings

import joblib
from joblib import Memory

assert joblib.__file__.startswith(ROOT), joblib.__file__
warnings.simplefilter("ignore")
work = os.path.realpath(tempfile.mkdtemp(prefix="u2rel_"))
dir_a, dir_b = os.path.join(work, "a"), os.path.join(work, "b")
os.mkdir(dir_a)
os.mkdir(dir_b)
executions = []


def double(x):
    executions.append(x)
    return 2 * x


old_cwd = os.getcwd()
problems = []
try:
    os.chdir(dir_a)
    mem = Memory("cache", verbose=0)
    f = mem.cache(double)
    assert f(1) == 2 and f(1) == 2 and executions == [1]
    ref = f.call_and_shelve(1)
    assert f.check_call_in_cache(1)

    os.chdir(dir_b)
    if not f.check_call_in_cache(1):
        problems.append("check_call_in_cache(1) is False after os.chdir")
    try:
        ref.get()
    except KeyError:
        problems.append("MemorizedResult.get() raises KeyError after os.chdir")
    f(1)
    if executions != [1]:
        problems.append("f(1) executed the body again (executions=%r)" % executions)
    if os.path.isdir(os.path.join(dir_b, "cache")):
        problems.append("a second cache tree appeared in the new working directory: %r"
                        % sorted(os.listdir(os.path.join(dir_b, "cache"))))
finally:
    os.chdir(old_cwd)
    shutil.rmtree(work, ignore_errors=True)

if problems:
    print("VIOLATION C06-U2a: Memory('cache') created in directory a/, then os.chdir(b/): "
          + "; ".join(problems))
    sys.exit(1)
print("ok: the cache stayed where it was created")
sys.exit(0)
