"""
C05: a kill during the (in place, non atomic) write of func_code.py can make every later call raise.

func_code.py is written directly under its final name. If the process dies
while the bytes are being written, the file can end in the middle of a
multi-byte UTF-8 character when the function's source contains non-ASCII
text (comment, docstring, string literal). get_cached_func_code() then raises
UnicodeDecodeError, which _check_previous_func_code does not catch (it only
handles OSError): every call of the cached function in a fresh process raises
instead of recomputing.

The kill is simulated in the child process: the file object used for
func_code.py writes a prefix of the data, flushes and the process dies
(os._exit) - the state a SIGKILL leaves when it lands inside the write.
"""
import os, sys, signal, tempfile, warnings
ROOT = os.environ.get("JOBLIB_ROOT", "/repo")
sys.path.insert(0, ROOT)
os.environ["PYTHONPATH"] = ROOT + os.pathsep + os.environ.get("PYTHONPATH", "")
signal.alarm(180)  # guard against hangs
warnings.simplefilter("ignore")
import logging; logging.disable(logging.CRITICAL)
import subprocess
d = tempfile.mkdtemp()
open(os.path.join(d, "modu.py"), "w", encoding="utf-8").write(
    "def f(x):\n    'valeur doublée'\n    return 2 * x\n")
SESSION1 = r'''
import sys, os, warnings, builtins
warnings.simplefilter("ignore")
sys.path.insert(0, sys.argv[1])
import modu
from joblib import Memory
from joblib._store_backends import FileSystemStoreBackend
real_open = builtins.open
class DyingFile:
    def __init__(self, f): self.f = f
    def __enter__(self): return self
    def __exit__(self, *a): self.f.close()
    def write(self, data):
        cut = data.index("é".encode("utf-8")) + 1      # inside the 2-byte character
        self.f.write(data[:cut]); self.f.flush()
        os._exit(9)                                           # SIGKILL lands here
def dying_open(name, mode="r", *a, **k):
    f = real_open(name, mode, *a, **k)
    return DyingFile(f) if str(name).endswith("func_code.py") and "w" in mode else f
FileSystemStoreBackend._open_item = staticmethod(dying_open)
mem = Memory(sys.argv[1] + "/cache", verbose=0)
mem.cache(modu.f)(1)
'''
SESSION2 = r'''
import sys, warnings
warnings.simplefilter("ignore")
sys.path.insert(0, sys.argv[1])
import modu
from joblib import Memory
mem = Memory(sys.argv[1] + "/cache", verbose=0)
print(mem.cache(modu.f)(1))
'''
r1 = subprocess.run([sys.executable, "-c", SESSION1, d], timeout=60)
assert r1.returncode == 9
r2 = subprocess.run([sys.executable, "-c", SESSION2, d], capture_output=True, text=True, timeout=60)
if r2.returncode != 0 or r2.stdout.strip() != "2":
    last = (r2.stderr.strip().splitlines() or ["?"])[-1]
    print("VIOLATION C05: after a kill while func_code.py was written, a fresh process raises: %s" % last)
    sys.exit(1)
sys.exit(0)
