import os, sys; ROOT = os.environ.get("JOBLIB_ROOT", "/repo"); sys.path.insert(0, ROOT); os.environ["PYTHONPATH"] = ROOT + os.pathsep + os.environ.get("PYTHONPATH", "")
"""U3-11 (C19) - needs numpy.

Input: a np.memmap created on an anonymous temporary file (the classic scratch-array
idiom), passed to a process worker:
    m = np.memmap(tempfile.TemporaryFile(), dtype='f8', mode='w+', shape=(100,))
    Parallel(n_jobs=2)(delayed(np.sum)(m) for _ in range(2))
numpy sets m.filename to None for such a file (its name is a file descriptor number).

What happens: ArrayMemmapForwardReducer sees a memmap-backed array and always sends
(_strided_from_memmap, (m.filename, ...)) - here filename None - instead of the array
contents; the worker cannot open "None" (TypeError in np.memmap), the task fails to
unpickle and the whole call dies with BrokenProcessPool ("A task has failed to
un-serialize").  The size of the array does not matter (100 float64 here).

Property: C19 - memmap-backed arrays passed to process workers present the same
values to the task.
Repair: in ArrayMemmapForwardReducer.__call__ / reduce_array_memmap_backward treat a
backing memmap whose filename is None like a plain in-memory array (pickle by value).
"""
import tempfile, warnings
import numpy as np
import joblib
from joblib import Parallel, delayed

assert joblib.__file__.startswith(ROOT), joblib.__file__
m = np.memmap(tempfile.TemporaryFile(), dtype="f8", mode="w+", shape=(100,))
m[:] = np.arange(100.0)
try:
    with warnings.catch_warnings():
        warnings.simplefilter("ignore")
        r = Parallel(n_jobs=2)(delayed(np.sum)(m) for _ in range(2))
    ok = [float(x) for x in r] == [4950.0, 4950.0]
    msg = "tasks returned %r" % (r,)
except Exception as e:
    ok, msg = False, "%s: %s" % (type(e).__name__, str(e)[:100])
if not ok:
    print("VIOLATION U3-11: memmap with filename=%r sent to workers -> %s" % (m.filename, msg))
    sys.exit(1)
print("ok")
