"""
C12: redefinition not detected for functions without retrievable source.

When the source cannot be read (functions typed in the plain REPL, exec,
python -c) the stored "code" is str(hash(func.__code__)). hash(-1) == hash(-2)
in CPython, so two code objects differing only by these constants have the
same hash: `return x * -1` redefined as `return x * -2` keeps returning the
values of the first definition.
"""
import os, sys, signal, tempfile, warnings
ROOT = os.environ.get("JOBLIB_ROOT", "/repo")
sys.path.insert(0, ROOT)
os.environ["PYTHONPATH"] = ROOT + os.pathsep + os.environ.get("PYTHONPATH", "")
signal.alarm(180)  # guard against hangs
warnings.simplefilter("ignore")
import logging; logging.disable(logging.CRITICAL)
from joblib import Memory

mem = Memory(tempfile.mkdtemp(), verbose=0)

def define(src):
    ns = {"__name__": "replmod"}
    exec(compile(src, "<stdin>", "single"), ns)
    return ns["f"]

f1 = define("def f(x):\n    return x * -1\n")
c1 = mem.cache(f1)
r1 = c1(3)
f2 = define("def f(x):\n    return x * -2\n")      # the user redefines f
c2 = mem.cache(f2)
r2 = c2(3)
if r2 != f2(3):
    print("VIOLATION C12: redefined function returned %r, its code returns %r" % (r2, f2(3)))
    sys.exit(1)
sys.exit(0)
