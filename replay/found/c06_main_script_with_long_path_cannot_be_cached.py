import os, sys; ROOT = os.environ.get("JOBLIB_ROOT", "/repo"); sys.path.insert(0, ROOT); os.environ["PYTHONPATH"] = ROOT + os.pathsep + os.environ.get("PYTHONPATH", "")
"""C06 - a function defined in a script (module __main__) whose absolute path
is longer than ~245 characters cannot be cached at all.

get_func_name turns the whole absolute path of the script into ONE path
component ("__main__-" + the path with every "/" replaced by "-"), and
_build_func_identifier uses it as a directory name.  File systems limit a
component to 255 bytes (NAME_MAX) while the path itself may be 4096 bytes long,
so for a script six directories deep with ordinary 40-character directory names

    mem.cache(f)        raises OSError: [Errno 36] File name too long

at decoration time (MemorizedFunc.__init__ -> store_cached_func_code ->
mkdirp), i.e. the script cannot even be started with its @mem.cache decorators
although every one of its path components is far below the limit.  (The same
mkdir also fails for an identifier - function or class name - longer than 255
bytes.)

Property C06: every call that the plain function accepts is accepted by the
cached wrapper.
"""
import shutil
import subprocess
import tempfile
import textwrap

work = os.path.realpath(tempfile.mkdtemp(prefix="u2long_"))
deep = work
for i in range(6):
    deep = os.path.join(deep, "project_directory_with_a_rather_long_name_%02d" % i)
os.makedirs(deep)
script = os.path.join(deep, "analysis_script.py")
with open(script, "w") as fh:
    fh.write(textwrap.dedent("""
        import sys
        sys.path.insert(0, %r)
        import joblib
        assert joblib.__file__.startswith(%r), joblib.__file__
        from joblib import Memory
        mem = Memory(%r, verbose=0)
        def f(x):
            return x + 1
        assert f(1) == 2
        try:
            g = mem.cache(f)
            print("RESULT", g(1), g(1))
        except OSError as e:
            print("OSERROR", e.errno, str(e)[:70])
    """) % (ROOT, ROOT, os.path.join(work, "cache")))
try:
    r = subprocess.run([sys.executable, script], capture_output=True, text=True, timeout=30)
finally:
    shutil.rmtree(work, ignore_errors=True)
out = r.stdout.strip()
if out.startswith("OSERROR"):
    print("VIOLATION C06-U2b: script path of %d characters (longest component %d): "
          "Memory.cache(f) for a __main__ function raised %s"
          % (len(script), max(map(len, script.split(os.sep))), out))
    sys.exit(1)
if not out.startswith("RESULT 2 2"):
    print("unexpected child output:", out, r.stderr[-500:])
    sys.exit(2)
print("ok:", out)
sys.exit(0)
