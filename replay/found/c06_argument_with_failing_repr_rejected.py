"""
C06: a call accepted by the plain function raises in the cached wrapper (after computing).

With verbose=0 the wrapper still calls repr() on every argument to write
metadata.json (_persist_input), outside any try block. An argument whose
__repr__ raises makes the FIRST cached call raise - after the function ran and
its result was stored - while the plain function accepts the call; the second
identical call then succeeds from the cache.
"""
import os, sys, signal, tempfile, warnings
ROOT = os.environ.get("JOBLIB_ROOT", "/repo")
sys.path.insert(0, ROOT)
os.environ["PYTHONPATH"] = ROOT + os.pathsep + os.environ.get("PYTHONPATH", "")
signal.alarm(180)  # guard against hangs
warnings.simplefilter("ignore")
import logging; logging.disable(logging.CRITICAL)
from joblib import Memory

mem = Memory(tempfile.mkdtemp(), verbose=0)

class NoRepr:
    def __repr__(self):
        raise RuntimeError("repr not available")

def f(o):
    return 42

assert f(NoRepr()) == 42
c = mem.cache(f)
try:
    c(NoRepr())
except RuntimeError as e:
    second = c(NoRepr())
    print("VIOLATION C06: cached f(NoRepr()) raised %r although f accepts the call (second identical call returned %r)" % (e, second))
    sys.exit(1)
sys.exit(0)
