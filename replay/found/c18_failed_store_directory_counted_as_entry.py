"""
C18 (minor): the directory left by a failed or interrupted store counts as a cache entry.

A call whose result cannot be pickled (or a process killed inside dump_item)
leaves <args_hash>/ with metadata.json and/or a partial
output.pkl.thread-..-pid-.. temp file but no output.pkl. It is not an entry
(contains_item is False, the call is recomputed every time) yet get_items()
counts it, with the recent atime of the directory: with 2 loadable entries
A, B, reduce_size(items_limit=2) sees 3 items and evicts A, which did not
have to be evicted.
"""
import os, sys, signal, tempfile, warnings
ROOT = os.environ.get("JOBLIB_ROOT", "/repo")
sys.path.insert(0, ROOT)
os.environ["PYTHONPATH"] = ROOT + os.pathsep + os.environ.get("PYTHONPATH", "")
signal.alarm(180)  # guard against hangs
warnings.simplefilter("ignore")
import logging; logging.disable(logging.CRITICAL)
import time
from joblib import Memory
mem = Memory(tempfile.mkdtemp(), verbose=0)

def f(x):
    return (lambda: x) if x == "U" else x      # f("U") returns an unpicklable object

c = mem.cache(f)
c("A"); time.sleep(0.05)
c("B"); time.sleep(0.05)
c("U")                                          # store fails (warning), directory stays
assert not c.check_call_in_cache("U")
mem.reduce_size(items_limit=2)                  # only 2 entries exist
kept = [k for k in "AB" if c.check_call_in_cache(k)]
if kept != ["A", "B"]:
    print("VIOLATION C18: 2 loadable entries, reduce_size(items_limit=2) left only %r" % kept)
    sys.exit(1)
sys.exit(0)
