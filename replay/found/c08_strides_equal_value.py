import os, sys
ROOT = os.environ.get("JOBLIB_ROOT", "/repo")
sys.path.insert(0, ROOT)
os.environ["PYTHONPATH"] = ROOT + os.pathsep + os.environ.get("PYTHONPATH", "") if os.environ.get("PYTHONPATH") else ROOT
# C08: the digest of an array includes obj.strides, but strides of length-1 (or length-0)
# axes are arbitrary and are not part of the value: x = arange(3.)[None, :] has strides
# (0, 8); after a pickle round trip (i.e. in another process) or a copy it has (24, 8).
# Same dtype, shape, C-contiguity and bytes -> different digests.
import pickle
import numpy as np
import joblib
x = np.arange(3.0)[None, :]
y = pickle.loads(pickle.dumps(x))   # what another process receives
assert x.dtype == y.dtype and x.shape == y.shape and x.tobytes() == y.tobytes()
assert x.flags.c_contiguous and y.flags.c_contiguous
if joblib.hash(x) != joblib.hash(y):
    print("VIOLATION C08: equal arrays hash differently (strides %r vs %r): %s != %s"
          % (x.strides, y.strides, joblib.hash(x), joblib.hash(y)))
    sys.exit(1)
sys.exit(0)
