"""C19 (minor): for an aligned structured dtype the padding bytes of the
elements are not written (the nditer buffered copy in write_array is
field-wise, padding comes from an uninitialised buffer), so
load(dump(a)).tobytes() != a.tobytes() whereas pickle preserves them; as
joblib.hash digests the raw buffer, hash(load(dump(a))) != hash(a)."""
import io
import pickle
import sys

import numpy as np
from _common import check_joblib

joblib = check_joblib()
dt = np.dtype([("a", "i1"), ("b", "f8")], align=True)
msgs = []
for fill in (b"\x00", b"\xff", b"\x5a"):
    a = np.frombuffer(fill * 48, dtype=dt).copy()
    a["a"] = 1
    a["b"] = 2
    buf = io.BytesIO()
    joblib.dump(a, buf)
    buf.seek(0)
    b = joblib.load(buf)
    assert (a == b).all()
    if b.tobytes() != a.tobytes():
        msgs.append("padding %r: element bytes differ after dump/load" % fill)
        if joblib.hash(a) != joblib.hash(b):
            msgs.append("padding %r: hash(load(dump(a))) != hash(a)" % fill)
# (pickle keeps the padding; checked last so that freed copies with the same
# padding cannot be recycled as the uninitialised nditer buffer)
a = np.frombuffer(b"\x77" * 48, dtype=dt).copy()
assert pickle.loads(pickle.dumps(a)).tobytes() == a.tobytes()
if msgs:
    print("VIOLATION C19: " + "; ".join(msgs))
    sys.exit(1)
print("ok")
