"""C16/C01: two *different* Parallel objects created inside one
parallel_config(backend=...) block share the single backend instance stored in
the context.  Running the second one while the first one's output generator is
still being consumed tears down the pool of the first: its generator never
yields its remaining results (hangs for ever).

with parallel_config(backend='threading', n_jobs=2):
    g = Parallel(return_as='generator')(20 tasks); next(g)
    Parallel()(5 tasks)        # other object, completes fine
    list(g)                    # expected [1..19]; actual: blocks for ever
(same with backend='loky': AttributeError in the callback thread, then hang)
"""
import os
import sys
import threading
import time
import warnings

from joblib import Parallel, delayed, parallel_config

warnings.simplefilter("ignore")


def f(i, d=0.05):
    time.sleep(d)
    return i


out = {}


def run():
    with parallel_config(backend="threading", n_jobs=2):
        p1 = Parallel(return_as="generator")
        p2 = Parallel()
        g = p1(delayed(f)(i) for i in range(20))
        out["first"] = next(g)
        out["p2"] = p2(delayed(f)(i, 0.01) for i in range(100, 105))
        out["rest"] = list(g)


t = threading.Thread(target=run, daemon=True)
t.start()
t.join(15)
if t.is_alive():
    print(
        "VIOLATION C16: generator of the first Parallel never delivers its "
        "remaining results after another Parallel of the same context ran "
        "(got so far: %r)" % (out,)
    )
    sys.stdout.flush()
    os._exit(1)
ok = out.get("first") == 0 and out.get("rest") == list(range(1, 20))
print("ok" if ok else "VIOLATION C16: wrong output %r" % (out,))
sys.exit(0 if ok else 1)
