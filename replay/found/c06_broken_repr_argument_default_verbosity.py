import os, sys; ROOT = os.environ.get("JOBLIB_ROOT", "/repo"); sys.path.insert(0, ROOT); os.environ["PYTHONPATH"] = ROOT + os.pathsep + os.environ.get("PYTHONPATH", "")
"""Unchanged tree, C06 (every call the plain function accepts is accepted by
the cached wrapper): with the default verbosity (Memory(location), verbose=1)
a cache miss prints format_call(func, args, kwargs), which formats every
argument with pprint/repr. An argument whose __repr__ raises (or a picklable
proxy that needs a connection to print itself) makes the wrapper raise,
although the function accepts the call, hashing works and the metadata
summary already tolerates it (_safe_repr). With verbose=0 the call works."""
import contextlib
import io
import shutil
import tempfile
import warnings

import joblib
from joblib import Memory

assert os.path.realpath(joblib.__file__).startswith(os.path.realpath(ROOT)), joblib.__file__


class Handle(object):
    def __init__(self, value):
        self.value = value

    def __repr__(self):
        raise RuntimeError("not connected")


def read(handle, scale=1):
    return handle.value * scale


def main():
    warnings.simplefilter("ignore")
    location = tempfile.mkdtemp(prefix="found_c06_")
    try:
        assert read(Handle(3)) == 3                     # the plain call works
        quiet = Memory(os.path.join(location, "quiet"), verbose=0).cache(read)
        assert quiet(Handle(3)) == 3                    # and so does verbose=0
        default = Memory(os.path.join(location, "default")).cache(read)
        with contextlib.redirect_stdout(io.StringIO()):
            try:
                value = default(Handle(3))
            except Exception as exc:
                problem = "%s: %s" % (type(exc).__name__, exc)
            else:
                problem = None if value == 3 else "returned %r" % (value,)
    finally:
        shutil.rmtree(location, ignore_errors=True)
    if problem:
        print("VIOLATION C06: valid call rejected by the cached wrapper with "
              "the default verbosity: " + problem)
        return 1
    print("ok")
    return 0


if __name__ == "__main__":
    sys.exit(main())
