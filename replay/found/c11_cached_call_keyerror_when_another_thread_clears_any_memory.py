import os, sys; ROOT = os.environ.get("JOBLIB_ROOT", "/repo"); sys.path.insert(0, ROOT); os.environ["PYTHONPATH"] = ROOT + os.pathsep + os.environ.get("PYTHONPATH", "")
"""C11 - a cached call raises KeyError when another thread runs Memory.clear()
- on ANY Memory object, even one with an unrelated directory - between two
statements of MemorizedFunc._check_previous_func_code:

        if self.func in _FUNCTION_HASHES:              # (1) True
            func_hash = self._hash_func()              #     <- other thread here
            if func_hash == _FUNCTION_HASHES[self.func]:   # (2) KeyError

memory._FUNCTION_HASHES is one process-wide WeakKeyDictionary; Memory.clear()
ends with `_FUNCTION_HASHES.clear()`, and _write_func_code pops other functions
from it.  Only TypeError is caught around (1)-(2).

Schedule (forced without touching the library: thread A runs under a
sys.settrace hook that, on entry of MemorizedFunc._hash_func, hands over to
thread B and waits for it):
    main : f(1), f(1)                         f is validated, entry cached
    A    : f(1) ... (1) passed, entering _hash_func      | blocked
    B    : other_memory.clear(warn=False)                | a different directory
    A    : ... (2)  -> KeyError(<weakref ... f>) escapes from f(1)

Property C11: threads may call cached functions while others clear the cache;
every such call still returns the correct value and never raises because of
the concurrent activity.  Expected f(1) == 2.
"""
import shutil
import tempfile
import threading
import warnings

import joblib
import joblib.memory as jm
from joblib import Memory

assert joblib.__file__.startswith(ROOT), joblib.__file__
warnings.simplefilter("ignore")
d1, d2 = tempfile.mkdtemp(prefix="u2ka_"), tempfile.mkdtemp(prefix="u2kb_")
mem, other = Memory(d1, verbose=0), Memory(d2, verbose=0)


def f(x):
    return x + 1


f = mem.cache(f)
assert f(1) == 2 and f(1) == 2

at_point, resume = threading.Event(), threading.Event()
hash_func_code = jm.MemorizedFunc._hash_func.__code__
outcome = {}


def tracer(frame, event, arg):
    if event == "call" and frame.f_code is hash_func_code and not at_point.is_set():
        at_point.set()
        resume.wait(10)
    return None


def thread_a():
    sys.settrace(tracer)
    try:
        outcome["value"] = f(1)
    except BaseException as e:                  # noqa: BLE001
        outcome["error"] = e
    finally:
        sys.settrace(None)


def thread_b():
    if at_point.wait(10):
        other.clear(warn=False)
    resume.set()


ta, tb = threading.Thread(target=thread_a), threading.Thread(target=thread_b)
ta.start(); tb.start(); ta.join(20); tb.join(20)
shutil.rmtree(d1, ignore_errors=True)
shutil.rmtree(d2, ignore_errors=True)

if "error" in outcome:
    print("VIOLATION C11-U2a: f(1) raised %s: %.80s while another thread cleared a "
          "Memory with a different directory (gate reached: %s)"
          % (type(outcome["error"]).__name__, outcome["error"], at_point.is_set()))
    sys.exit(1)
print("ok: f(1) ==", outcome.get("value"), "(gate reached: %s)" % at_point.is_set())
sys.exit(0 if outcome.get("value") == 2 else 2)
