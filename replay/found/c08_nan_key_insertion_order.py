import os, sys, subprocess
root = os.environ.get("JOBLIB_ROOT")
if root:
    sys.path.insert(0, root)
import joblib

n = float("nan")
a = {n: 1, 1.0: 2, 0.5: 3}
b = {0.5: 3, 1.0: 2, n: 1}
assert list(a.items()) != list(b.items()) and sorted(map(repr, a.items())) == sorted(map(repr, b.items()))
ha, hb = joblib.hash(a), joblib.hash(b)
if ha != hb:
    print("VIOLATION: same dict with a NaN key built in two insertion orders hashes differently "
          "(sorted() with NaN is order dependent): %s %s" % (ha, hb))
    sys.exit(1)
sys.exit(0)
