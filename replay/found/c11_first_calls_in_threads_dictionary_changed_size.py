import os, sys; ROOT = os.environ.get("JOBLIB_ROOT", "/repo"); sys.path.insert(0, ROOT); os.environ["PYTHONPATH"] = ROOT + os.pathsep + os.environ.get("PYTHONPATH", "")
"""C11 - the first call of a cached function (more precisely every
_write_func_code) iterates over the process-wide WeakKeyDictionary
memory._FUNCTION_HASHES:

        for other, other_hash in list(_FUNCTION_HASHES.items()):

WeakKeyDictionary.items() is a Python-level generator over the underlying dict;
when another thread registers ITS function (`_FUNCTION_HASHES[self.func] = ...`,
the first call of any other cached function, with any Memory) while the
generator is suspended, the next step raises
        RuntimeError: dictionary changed size during iteration
which escapes from the cached call of the first thread.

Schedule (forced with a sys.settrace hook in thread A only, no library change):
    main : a(0), b(0)               two functions are registered in the table
    A    : c(0)  first call -> _write_func_code -> iteration over the table
                                     started                        | blocked
    B    : d(0)  first call -> registers d in the table
    A    : resumes the iteration -> RuntimeError escapes from c(0)

Part 2 (no tracing): 8 threads make the first calls of 400 functions under
sys.setswitchinterval(1e-5); a few percent of them raise the same error.  With
the default switch interval the window is hit when the table is large.

Property C11: any number of threads may call cached functions at the same time,
every such call returns the correct value and never raises because of the
concurrent activity.
"""
import shutil
import tempfile
import threading
import warnings
import weakref

import joblib
from joblib import Memory

assert joblib.__file__.startswith(ROOT), joblib.__file__
warnings.simplefilter("ignore")
work = tempfile.mkdtemp(prefix="u2it_")
sys.path.insert(0, work)
with open(os.path.join(work, "u2itmod.py"), "w") as fh:
    for name in "abcd":
        fh.write("def %s(x):\n    return (%r, x)\n" % (name, name))
    for i in range(400):
        fh.write("def f%d(x):\n    return x + %d\n" % (i, i))
import u2itmod  # noqa: E402

mem = Memory(os.path.join(work, "cache"), verbose=0)
a, b, c, d = (mem.cache(getattr(u2itmod, n)) for n in "abcd")
assert a(0) == ("a", 0) and b(0) == ("b", 0)

items_code = weakref.WeakKeyDictionary.items.__code__
at_point, resume = threading.Event(), threading.Event()
outcome = {}


def local_tracer(frame, event, arg):
    # a few 'line' events into the generator body: the iteration over the
    # underlying dict has started and is not finished
    if event == "line" and not at_point.is_set():
        seen = outcome.setdefault("lines", [])
        seen.append(frame.f_lineno)
        if len(seen) >= 4:
            at_point.set()
            resume.wait(10)
    return local_tracer


def tracer(frame, event, arg):
    if event == "call" and frame.f_code is items_code and not at_point.is_set():
        return local_tracer
    return None


def thread_a():
    sys.settrace(tracer)
    try:
        outcome["value"] = c(0)
    except BaseException as e:                  # noqa: BLE001
        outcome["error"] = e
    finally:
        sys.settrace(None)


def thread_b():
    if at_point.wait(10):
        outcome["d"] = d(0)
    resume.set()


ta, tb = threading.Thread(target=thread_a), threading.Thread(target=thread_b)
ta.start(); tb.start(); ta.join(20); tb.join(20)

# Part 2: free-running threads, only the interpreter's switch interval is shortened
funcs = [mem.cache(getattr(u2itmod, "f%d" % i)) for i in range(400)]
free_errors = []


def first_calls(k):
    for i in range(k, 400, 8):
        try:
            assert funcs[i](1) == 1 + i
        except Exception as e:                  # noqa: BLE001
            free_errors.append(repr(e))


old = sys.getswitchinterval()
sys.setswitchinterval(1e-5)
try:
    threads = [threading.Thread(target=first_calls, args=(k,)) for k in range(8)]
    [t.start() for t in threads]
    [t.join(30) for t in threads]
finally:
    sys.setswitchinterval(old)
shutil.rmtree(work, ignore_errors=True)

if "error" in outcome:
    print("VIOLATION C11-U2b: the first call c(0) raised %s(%s) because another thread "
          "made the first call of another cached function meanwhile; free-running part: "
          "%d of 400 first calls failed (%s)"
          % (type(outcome["error"]).__name__, outcome["error"], len(free_errors),
             sorted(set(free_errors))[:2]))
    sys.exit(1)
if free_errors:
    print("VIOLATION C11-U2b: (free-running part only) %d of 400 first calls failed: %s"
          % (len(free_errors), sorted(set(free_errors))[:2]))
    sys.exit(1)
print("ok: c(0) == %r, gate reached: %s" % (outcome.get("value"), at_point.is_set()))
sys.exit(0)
