import os, sys; ROOT = os.environ.get("JOBLIB_ROOT", "/repo"); sys.path.insert(0, ROOT); os.environ["PYTHONPATH"] = ROOT + os.pathsep + os.environ.get("PYTHONPATH", "")
"""C12 - the store location is used as given (never made absolute / canonical),
and the in-memory table of validated functions compares locations as strings.
Two Memory objects on ONE directory spelled in two ways (absolute and relative
here; "d" and "d/." or a symlink do the same) are therefore two different
stores for memory._FUNCTION_HASHES, although they share the files.

History, one process, one cache directory:
    mem_abs = Memory("/tmp/.../cache");  mem_rel = Memory("cache")   (cwd=/tmp/...)
    f1 = mem_abs.cache(<def f(x): return (x, 1)>)      version 1 of `f`
    f2 = mem_rel.cache(<def f(x): return (x, 2)>)      version 2, same module+name
    f1(0) -> (0, 1)      f2(0) -> (0, 2)   [f2 finds other code, wipes, writes its own]
    f1(0) -> (0, 2)  WRONG

_write_func_code (for f2) drops from the table every other live function filed
under the same (location, func_id) so that it re-checks the stored code - but
f1 is registered under the other spelling of the location and stays "validated".
With one spelling (control below) f1(0) correctly returns (0, 1).

Property C12: a still-referenced older definition keeps returning its own
values after the name was redefined in the same session.
"""
import shutil
import tempfile
import warnings

import joblib
from joblib import Memory

assert joblib.__file__.startswith(ROOT), joblib.__file__
warnings.simplefilter("ignore")


def make(k):
    ns = {"__name__": "aliasmod"}
    exec("def f(x):\n    return (x, %d)" % k, ns)
    return ns["f"]


def history(mem_a, mem_b):
    f1, f2 = mem_a.cache(make(1)), mem_b.cache(make(2))
    return [f1(0), f2(0), f1(0), f2(0)]


work = os.path.realpath(tempfile.mkdtemp(prefix="u2c_"))
old_cwd = os.getcwd()
try:
    os.chdir(work)
    control = history(Memory(os.path.join(work, "ctl"), verbose=0),
                      Memory(os.path.join(work, "ctl"), verbose=0))
    got = history(Memory(os.path.join(work, "cache"), verbose=0),
                  Memory("cache", verbose=0))
finally:
    os.chdir(old_cwd)
    shutil.rmtree(work, ignore_errors=True)

expected = [(0, 1), (0, 2), (0, 1), (0, 2)]
if control != expected:
    print("note: the control history (one spelling) is wrong as well:", control)
if got != expected:
    print("VIOLATION C12-U2c: with the cache directory spelled absolute for version 1 "
          "and relative for version 2 of `f`, the calls f1(0), f2(0), f1(0), f2(0) "
          "returned %r, expected %r (control with one spelling: %r)"
          % (got, expected, control))
    sys.exit(1)
print("ok:", got)
sys.exit(0)
