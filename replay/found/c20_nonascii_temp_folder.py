import os, sys
ROOT = os.environ.get("JOBLIB_ROOT", "/repo")
sys.path.insert(0, ROOT)
os.environ["PYTHONPATH"] = ROOT + os.pathsep + os.environ.get("PYTHONPATH", "") if os.environ.get("PYTHONPATH") else ROOT
# C19/C20: the tracker protocol is ASCII only (inherited _send encodes the request with
# "ascii", the tracker decodes with "ascii"): a temporary folder whose path holds a
# non-ASCII character cannot be registered.  Parallel(n_jobs=2, temp_folder="/.../é") - or
# JOBLIB_TEMP_FOLDER / TMPDIR pointing there - fails with UnicodeEncodeError before any task
# runs, so the large array never reaches the workers.
import subprocess, tempfile, shutil
CHILD = r'''
import os, sys
sys.path.insert(0, os.environ["JOBLIB_ROOT_"])
import numpy as np
from joblib import Parallel, delayed
def s(a): return float(a.sum())
if __name__ == "__main__":
    a = np.arange(300000.)
    try:
        r = Parallel(n_jobs=2, temp_folder=sys.argv[1])(delayed(s)(a) for _ in range(2))
        print("RESULT", r == [float(a.sum())] * 2)
    except Exception as e:
        print("EXC", type(e).__name__, str(e)[:80].encode("ascii", "replace").decode())
'''
tmp = tempfile.mkdtemp()
try:
    d = os.path.join(tmp, "dossier_été")
    os.makedirs(d)
    script = os.path.join(tmp, "child.py")
    open(script, "w").write(CHILD)
    env = dict(os.environ, JOBLIB_ROOT_=ROOT, PYTHONIOENCODING="utf-8")
    try:
        p = subprocess.run([sys.executable, script, d], env=env, capture_output=True, text=True, timeout=120)
    except subprocess.TimeoutExpired:
        print("VIOLATION C19/C20: hang with non-ASCII temp folder"); sys.exit(1)
    out = p.stdout.strip()
    if "RESULT True" not in out:
        print("VIOLATION C19/C20: Parallel with a non-ASCII temp_folder fails:", out or p.stderr[-200:])
        sys.exit(1)
finally:
    shutil.rmtree(tmp, ignore_errors=True)
sys.exit(0)
