"""
C18: directories are recognised as cache entries by re.match("[a-f0-9]{32}", name).

The test is not anchored at the end and is applied to every directory of the
store, so the directory of a FUNCTION (or module / enclosing class) whose name
starts with 32 hexadecimal characters is counted as one more cache entry
(size of func_code.py, atime of the directory). With 3 real entries,
reduce_size(items_limit=3) should evict nothing; it sees 4 items and evicts
one (the oldest real entry, or the whole function directory with all its
entries and its func_code.py).
"""
import os, sys, signal, tempfile, warnings
ROOT = os.environ.get("JOBLIB_ROOT", "/repo")
sys.path.insert(0, ROOT)
os.environ["PYTHONPATH"] = ROOT + os.pathsep + os.environ.get("PYTHONPATH", "")
signal.alarm(180)  # guard against hangs
warnings.simplefilter("ignore")
import logging; logging.disable(logging.CRITICAL)
import time
from joblib import Memory

mem = Memory(tempfile.mkdtemp(), verbose=0)

def cafe0123456789abcdef0123456789ab(x):      # a legal identifier: 32 hex characters
    return x

c = mem.cache(cafe0123456789abcdef0123456789ab)
for i in (1, 2, 3):
    c(i)
    time.sleep(0.02)
mem.reduce_size(items_limit=3)                 # the cache holds exactly 3 entries
kept = [i for i in (1, 2, 3) if c.check_call_in_cache(i)]
if kept != [1, 2, 3]:
    print("VIOLATION C18: 3 entries, reduce_size(items_limit=3) evicted some: survivors %r" % kept)
    sys.exit(1)
sys.exit(0)
