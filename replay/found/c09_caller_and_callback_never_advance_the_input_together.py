"""The input of Parallel must never be advanced by two threads at once.

A slow input iterator records whether its __next__ is entered while another
thread is still inside it.  Exits 0 if that never happens, 1 otherwise.
"""
import os
import sys
import threading
import time

root = os.environ.get("JOBLIB_ROOT")
if root:
    sys.path.insert(0, root)

from joblib import Parallel, delayed  # noqa: E402


class SlowInput:
    def __init__(self, n):
        self.n = n
        self.i = 0
        self.busy = threading.Lock()
        self.overlaps = []

    def __iter__(self):
        return self

    def __next__(self):
        free = self.busy.acquire(blocking=False)
        if not free:
            self.overlaps.append(threading.current_thread().name)
            # still behave like an iterator
            self.busy.acquire()
        try:
            if self.i >= self.n:
                raise StopIteration
            time.sleep(0.02)  # a slow producer
            self.i += 1
            return delayed(abs)(self.i)
        finally:
            self.busy.release()


def main():
    bad = 0
    for attempt in range(3):
        src = SlowInput(24)
        try:
            Parallel(n_jobs=2, backend="threading", pre_dispatch=12, batch_size=1)(src)
        except BaseException as e:  # a symptom of the same race
            print("call failed with %r" % (e,))
            bad += 1
        if src.overlaps:
            print(
                "VIOLATION: input.__next__ entered by %s while another thread "
                "was still inside it (%d times)" % (src.overlaps[0], len(src.overlaps))
            )
            bad += 1
        if bad:
            return 1
    print("ok: the input was always advanced by one thread at a time")
    return 0


if __name__ == "__main__":
    sys.exit(main())
