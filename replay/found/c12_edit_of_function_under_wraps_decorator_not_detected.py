"""
C12: editing a function that is cached through a functools.wraps decorator is not detected.

    @mem.cache
    @timed            # def timed(fn): @functools.wraps(fn) def wrapper(*a, **k): return fn(*a, **k)
    def compute(x): ...

Memory sees `wrapper`: its func_id is taken from the copied __module__ /
__qualname__ ("mod/compute") and the arguments are bound with the wrapped
signature, but the recorded source is that of wrapper.__code__, i.e. the three
lines of the decorator's inner function. Editing the body of compute between
sessions leaves func_code.py "unchanged": the new session returns the values
computed by the old code.
"""
import os, sys, signal, tempfile, warnings
ROOT = os.environ.get("JOBLIB_ROOT", "/repo")
sys.path.insert(0, ROOT)
os.environ["PYTHONPATH"] = ROOT + os.pathsep + os.environ.get("PYTHONPATH", "")
signal.alarm(180)  # guard against hangs
warnings.simplefilter("ignore")
import logging; logging.disable(logging.CRITICAL)
import subprocess
d = tempfile.mkdtemp()
MOD = '''
import functools
from joblib import Memory
mem = Memory(%r, verbose=0)

def timed(fn):
    @functools.wraps(fn)
    def wrapper(*args, **kwargs):
        return fn(*args, **kwargs)
    return wrapper

@mem.cache
@timed
def compute(x):
    return ("%s", x)
'''
SESSION = r'''
import sys, warnings
warnings.simplefilter("ignore")
sys.path.insert(0, sys.argv[1])
import modw
print(modw.compute(1)); print(modw.compute.func(1))
'''
env = dict(os.environ, PYTHONDONTWRITEBYTECODE="1")
out = []
for version in ("v1", "v2"):                       # the user edits compute() between the sessions
    open(os.path.join(d, "modw.py"), "w").write(MOD % (os.path.join(d, "cache"), version))
    r = subprocess.run([sys.executable, "-c", SESSION, d], env=env, capture_output=True, text=True, check=True, timeout=60)
    out.append(r.stdout.split("\n")[:2])
cached, plain = out[1]
if cached != plain:
    print("VIOLATION C12: after editing compute(), session 2 got %s from the cache, the edited code returns %s" % (cached, plain))
    sys.exit(1)
sys.exit(0)
