"""
C05 / C12: a kill during Memory.clear() leaves results without func_code.py.

Memory.clear() removes the cache with rm_subdirs -> shutil.rmtree, which
unlinks the entries of a function directory in os.scandir order: func_code.py
can go before some of the result directories (MemorizedFunc.clear orders the
deletions, Memory.clear does not). If the process is killed right after
func_code.py is unlinked, results computed by the old code remain with no
code file. A later session in which the function has been edited re-creates
func_code.py with the NEW code and serves the OLD results.

The kill is simulated at a precise instant (os._exit right after the unlink of
func_code.py). Which entries come after func_code.py in scandir order depends
on the file system, so several cache populations are tried.
"""
import os, sys, signal, tempfile, warnings
ROOT = os.environ.get("JOBLIB_ROOT", "/repo")
sys.path.insert(0, ROOT)
os.environ["PYTHONPATH"] = ROOT + os.pathsep + os.environ.get("PYTHONPATH", "")
signal.alarm(180)  # guard against hangs
warnings.simplefilter("ignore")
import logging; logging.disable(logging.CRITICAL)
import subprocess, glob

SESSION1 = r'''
import sys, os, warnings
warnings.simplefilter("ignore")
from joblib import Memory
mem = Memory(sys.argv[1], verbose=0)
def f(x):
    return ("v1", x)
c = mem.cache(f)
for i in range(int(sys.argv[2])):
    c(i)
real_unlink = os.unlink
def unlink(path, *a, **k):
    real_unlink(path, *a, **k)
    if str(path).endswith("func_code.py"):
        os._exit(9)          # SIGKILL arrives here
os.unlink = unlink
mem.clear(warn=False)
'''
SESSION2 = r'''
import sys, os, warnings
warnings.simplefilter("ignore")
from joblib import Memory
mem = Memory(sys.argv[1], verbose=0)
def f(x):
    return ("v2", x)
c = mem.cache(f)
print([c(i) for i in range(int(sys.argv[2]))])
'''
for n in (20, 40, 80, 5, 10):
    d = tempfile.mkdtemp()
    prog = os.path.join(d, "prog.py")       # same path: same func_id in both sessions
    open(prog, "w").write(SESSION1)
    subprocess.run([sys.executable, prog, os.path.join(d, "cache"), str(n)], timeout=120)
    left = glob.glob(os.path.join(d, "cache", "joblib", "*", "f", "*"))
    if not left:
        continue   # func_code.py happened to be last in scandir order: try another population
    open(prog, "w").write(SESSION2)
    r = subprocess.run([sys.executable, prog, os.path.join(d, "cache"), str(n)],
                       capture_output=True, text=True, timeout=120)
    if r.returncode != 0:
        print("VIOLATION C05: fresh process raised after the kill: %s" % r.stderr.strip().splitlines()[-1])
        sys.exit(1)
    got = eval(r.stdout)
    stale = [v for v in got if v[0] != "v2"]
    if stale:
        print("VIOLATION C05/C12: after a kill during Memory.clear() the edited function returned old results %r" % stale[:3])
        sys.exit(1)
sys.exit(0)
