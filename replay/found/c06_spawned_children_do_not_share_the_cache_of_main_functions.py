import os, sys; ROOT = os.environ.get("JOBLIB_ROOT", "/repo"); sys.path.insert(0, ROOT); os.environ["PYTHONPATH"] = ROOT + os.pathsep + os.environ.get("PYTHONPATH", "")
"""C06 - a function cached in a script is a different function for Memory in
the script's own multiprocessing children when the start method is "spawn" or
"forkserver" (the default on macOS / Windows, and on Linux from Python 3.14).

Such children re-import the script under the module name "__mp_main__".
get_func_name only gives the path-qualified identifier
"__main__-<path of the script>/f" to functions whose __module__ is exactly
"__main__"; in the child the very same function of the very same file is filed
under "__mp_main__/f".  Consequences:

  * a result computed by the parent is recomputed by each child (and vice
    versa): the body runs again although the entry exists - shown below;
  * "__mp_main__/f" carries no path, so the children of two different scripts
    that both define `f` share one directory and wipe each other's results at
    every run (their sources differ).

With the "fork" start method (control) the child inherits the parent's module
and the call is served from the cache.

Property C06: within one process or across processes sharing a cache directory,
once a call has completed, repeating it is served from the cache without
executing the function body again.
"""
import shutil
import subprocess
import tempfile
import textwrap

work = os.path.realpath(tempfile.mkdtemp(prefix="u2spawn_"))
script = os.path.join(work, "script.py")
with open(script, "w") as fh:
    fh.write(textwrap.dedent("""
        import os, sys
        sys.path.insert(0, %r)
        import multiprocessing as mp
        import joblib
        from joblib import Memory
        here = os.path.dirname(os.path.abspath(__file__))
        mem = Memory(os.path.join(here, "cache_" + os.environ["U2_METHOD"]), verbose=0)

        @mem.cache
        def f(x):
            with open(os.path.join(here, "log_" + os.environ["U2_METHOD"]), "a") as fh:
                fh.write("%%s\\n" %% __name__)
            return x + 1

        def work(x):
            return f(x), f.func_id

        if __name__ == "__main__":
            assert joblib.__file__.startswith(%r), joblib.__file__
            assert f(1) == 2
            with mp.get_context(os.environ["U2_METHOD"]).Pool(1) as pool:
                value, child_id = pool.apply(work, (1,))
            assert value == 2
            print(f.func_id, child_id)
    """) % (ROOT, ROOT))


def run(method):
    r = subprocess.run([sys.executable, script], env=dict(os.environ, U2_METHOD=method),
                       capture_output=True, text=True, timeout=35)
    if r.returncode != 0:
        print(r.stderr[-800:])
        raise SystemExit(2)
    parent_id, child_id = r.stdout.split()
    with open(os.path.join(work, "log_" + method)) as fh:
        return parent_id, child_id, fh.read().split()


try:
    spawn = run("spawn")
    fork = run("fork") if hasattr(os, "fork") else None
finally:
    shutil.rmtree(work, ignore_errors=True)

if len(spawn[2]) != 1:
    print("VIOLATION C06-U2e: f(1) completed in the parent, the same call in a spawned "
          "child executed the body again (executions by module: %r); identifier in the "
          "parent %r, in the child %r; control with fork: %r"
          % (spawn[2], spawn[0], spawn[1], fork and fork[2]))
    sys.exit(1)
print("ok: one execution", spawn)
sys.exit(0)
