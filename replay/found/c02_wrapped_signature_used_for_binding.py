"""
C02 + C06: arguments are bound with inspect.signature(), which follows __wrapped__.

For a functools.wraps-decorated function the cached wrapper binds the call
with the signature of the WRAPPED function, while the call is executed by the
wrapper:
 a) wrapper with another default (y=5 instead of y=1): w(1) and w(1, 1) are
    different calls of the plain function but get the same hash -> the second
    one returns the value of the first one (C02);
 b) wrapper accepting an extra keyword: the call accepted by the plain
    function is rejected by the cached one with TypeError (C06).
"""
import os, sys, signal, tempfile, warnings
ROOT = os.environ.get("JOBLIB_ROOT", "/repo")
sys.path.insert(0, ROOT)
os.environ["PYTHONPATH"] = ROOT + os.pathsep + os.environ.get("PYTHONPATH", "")
signal.alarm(180)  # guard against hangs
warnings.simplefilter("ignore")
import logging; logging.disable(logging.CRITICAL)
import functools
from joblib import Memory

mem = Memory(tempfile.mkdtemp(), verbose=0)
bad = []

def base(x, y=1):
    return (x, y)

@functools.wraps(base)
def w(x, y=5):
    return base(x, y)

cw = mem.cache(w)
got = (cw(1), cw(1, 1))
if got != (w(1), w(1, 1)):
    bad.append("C02 cached (w(1), w(1, 1)) = %r, plain %r" % (got, (w(1), w(1, 1))))

def verbose_option(fn):
    @functools.wraps(fn)
    def wrapper(*args, verbose=False, **kwargs):
        return fn(*args, **kwargs)
    return wrapper

@verbose_option
def g(x):
    return x

try:
    mem.cache(g)(1, verbose=True)
except TypeError as e:
    bad.append("C06 g(1, verbose=True) accepted by the function, rejected by the cached wrapper: %s" % e)

if bad:
    print("VIOLATION: " + "; ".join(bad))
    sys.exit(1)
sys.exit(0)
