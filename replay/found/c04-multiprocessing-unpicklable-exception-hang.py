"""C04: with backend='multiprocessing' a task that raises an exception whose
class has a constructor with two required arguments (pickles fine, cannot be
re-built by pickle) makes the Parallel call hang for ever: the pool's result
handler thread dies while un-pickling and no completion callback is ever run.
(threading raises MyErr, loky raises BrokenProcessPool - both terminate.)

    class MyErr(Exception):
        def __init__(self, a, b): super().__init__(a); self.b = b
    Parallel(n_jobs=2, backend='multiprocessing')(delayed(boom)(i) for i in range(6))

Expected: the call terminates with an exception.  Actual: never returns.
"""
import os
import signal
import subprocess
import sys
import warnings


class MyErr(Exception):
    def __init__(self, a, b):
        super().__init__(a)
        self.b = b


def boom(i):
    if i == 2:
        raise MyErr("a", "b")
    return i


def child():
    from joblib import Parallel, delayed

    warnings.simplefilter("ignore")
    try:
        Parallel(n_jobs=2, backend="multiprocessing")(
            delayed(boom)(i) for i in range(6)
        )
    except BaseException:  # noqa
        os._exit(0)  # any exception is a terminating call
    os._exit(3)


if __name__ == "__main__":
    if len(sys.argv) > 1 and sys.argv[1] == "child":
        child()
    proc = subprocess.Popen(
        [sys.executable, os.path.abspath(__file__), "child"],
        stdout=subprocess.DEVNULL,
        stderr=subprocess.DEVNULL,
        start_new_session=True,
    )
    try:
        rc = proc.wait(15)
    except subprocess.TimeoutExpired:
        os.killpg(proc.pid, signal.SIGKILL)
        proc.wait()
        print(
            "VIOLATION C04: multiprocessing backend: call never terminates when a "
            "task raises an exception that cannot be un-pickled (15s)"
        )
        sys.exit(1)
    if rc == 0:
        print("ok: the call raised")
        sys.exit(0)
    print("VIOLATION C04: the call returned results although a task raised")
    sys.exit(1)
