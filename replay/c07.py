"""Native bounded oracle for C07 (also used by C02/C06): filter_args vs the interpreter's own binding.

Every signature with <= N parameters (positional-only / positional-or-keyword / *args / keyword-only / **kwargs,
each with or without default, Python's well-formedness rules) x every call shape (k positionals, any subset of
names as keywords, one surplus keyword).  The oracle is a real call of an exec-generated function returning locals().
One JSON line; classes listed in known_findings are reported under "known".
"""
import itertools
import json
import sys


def signatures(n):
    kinds = ["PO", "POK", "VARPOS", "KWONLY", "VARKW"]
    order = {k: i for i, k in enumerate(kinds)}
    for m in range(0, n + 1):
        for ks in itertools.product(kinds, repeat=m):
            if list(ks) != sorted(ks, key=order.get):
                continue
            if ks.count("VARPOS") > 1 or ks.count("VARKW") > 1:
                continue
            slots = [i for i, k in enumerate(ks) if k in ("PO", "POK", "KWONLY")]
            for dflt in itertools.product([False, True], repeat=len(slots)):
                d = dict(zip(slots, dflt))
                # no non-default positional after a default positional
                pos = [d[i] for i, k in enumerate(ks) if k in ("PO", "POK")]
                if any(a and not b for a, b in zip(pos, pos[1:])):
                    continue
                yield [(k, d.get(i, False)) for i, k in enumerate(ks)]


def make(sig, method=False, self_po=False, no_self=False):
    names = ["p%d" % i for i in range(len(sig))]
    parts = (["self", "/"] if self_po and not any(k == "PO" for k, _ in sig) else ["self"]) if method and not no_self else []
    seen_slash = False
    last_po = max([i for i, (k, _) in enumerate(sig) if k == "PO"], default=-1)
    star_done = any(k == "VARPOS" for k, _ in sig)
    for i, (k, d) in enumerate(sig):
        if k == "KWONLY" and not star_done:
            parts.append("*")
            star_done = True
        if k == "VARPOS":
            parts.append("*" + names[i])
        elif k == "VARKW":
            parts.append("**" + names[i])
        else:
            parts.append(names[i] + ("=%d" % (100 + i) if d else ""))
        if i == last_po:
            parts.append("/")
    if method:
        # the '/' marker (if any) must come after self as well: positional-only block = self + PO params
        src = "class K:\n    def f(%s):\n        return dict(locals())\n" % ", ".join(parts)
        ns = {}
        exec(src, ns)
        return ns["K"]().f, names, src
    src = "def f(%s):\n    return dict(locals())\n" % ", ".join(parts)
    ns = {}
    exec(src, ns)
    return ns["f"], names, src


def expected(sig, names, bound):
    out = {}
    for (k, d), n in zip(sig, names):
        if k == "VARPOS":
            out["*"] = list(bound[n])
        elif k == "VARKW":
            out["**"] = dict(bound[n])
        else:
            out[n] = bound[n]
    return out


def search(n):
    from joblib.func_inspect import filter_args
    cases = accepted = 0
    known = {}
    for sig, method in [(s, m) for s in signatures(n) for m in (False, True, "self-positional-only", "no-self")]:
        if method and method != "no-self" and len(sig) >= n:
            continue  # self counts as a parameter
        if method == "no-self" and not (sig and sig[0][0] == "VARPOS"):
            continue  # a method without a parameter for the instance: def m(*args, ...) - the instance is the first surplus positional
        f, names, src = make(sig, bool(method), self_po=(method == "self-positional-only"), no_self=(method == "no-self"))
        npos = sum(1 for k, _ in sig if k in ("PO", "POK"))
        kwnames = [nm for (k, _), nm in zip(sig, names) if k in ("PO", "POK", "KWONLY")]
        for a in range(0, npos + 2):
            args = tuple(range(1, a + 1))
            for r in range(0, len(kwnames) + 1):
                for kws in itertools.combinations(kwnames, r):
                    for extra in ((False, True, "self") if method else (False, True)):
                        kwargs = {k: 50 + i for i, k in enumerate(kws)}
                        if extra is True:
                            kwargs["zz"] = 77
                        elif extra == "self":
                            kwargs["self"] = 88  # accepted by Python only if self is positional-only and there is a **kwargs
                        cases += 1
                        try:
                            bound = f(*args, **kwargs)
                        except TypeError:
                            continue  # Python rejects the call: outside the property's domain
                        accepted += 1
                        exp = expected(sig, names, bound)
                        if method and method != "no-self":
                            exp["self"] = f.__self__
                        try:
                            got = filter_args(f, [], args, dict(kwargs))
                            bad = got != exp
                            what = "filter_args -> %r, Python binds %r" % (got, exp)
                        except Exception as e:
                            bad = True
                            what = "filter_args raised %r, Python binds %r" % (e, exp)
                        if not bad and exp:
                            # ignore list: removing one name removes exactly that entry
                            key = sorted(exp, key=str)[accepted % len(exp)]
                            try:
                                got2 = filter_args(f, [key], args, dict(kwargs))
                                e2 = dict(exp)
                                e2.pop(key)
                                if got2 != e2:
                                    bad, what = True, "ignore=[%r] -> %r, expected %r" % (key, got2, e2)
                            except Exception as e:
                                bad, what = True, "ignore=[%r] raised %r" % (key, e)
                        if bad:
                            return dict(violation=True, cases=cases, what=what, witness=dict(signature=src.strip().splitlines()[-2].strip(), bound_method=bool(method), args=list(args), kwargs=kwargs))
    # bound methods: the first parameter of the class-level function is bound to the instance
    class K:
        def m(self, x, y=2, *a, z=3, **k):
            pass
    obj = K()
    cases += 1
    got = filter_args(obj.m, [], (1,), dict(q=9))
    exp = {"self": obj, "x": 1, "y": 2, "*": [], "z": 3, "**": {"q": 9}}
    if got != exp:
        return dict(violation=True, cases=cases, what="bound method: %r expected %r" % (got, exp), witness="K().m(1, q=9)")
    # the binding follows the function AS IT IS NOW: defaults re-assigned and code swapped between two calls (Python looks at the live
    # __defaults__ / __kwdefaults__ / __code__ on every call; a signature remembered from an earlier call is stale)
    def g(a, b=1, *, c=2):
        return dict(locals())

    def g_more(a, b=1, extra=5, *, c=2):
        return dict(locals())
    for step, mutate in enumerate((lambda: None, lambda: setattr(g, "__defaults__", (10,)), lambda: setattr(g, "__kwdefaults__", {"c": 20}),
                                   lambda: (setattr(g, "__code__", g_more.__code__), setattr(g, "__defaults__", (10, 50))))):
        mutate()
        for args, kwargs in (((1,), {}), ((1, 2), {}), ((1,), {"c": 3}), ((1, 2, 3), {}) if step == 3 else ((1,), {"b": 4})):
            cases += 1
            exp = g(*args, **kwargs)
            try:
                got = filter_args(g, [], args, dict(kwargs))
            except Exception as e:  # noqa
                got = repr(e)
            if got != exp:
                return dict(violation=True, cases=cases, what="after %s: filter_args -> %r, Python binds %r" % (
                    ["nothing", "g.__defaults__ = (10,)", "g.__kwdefaults__ = {'c': 20}", "g.__code__ replaced by code with one more parameter"][step], got, exp),
                    witness=dict(signature="def g(a, b=1, *, c=2)", args=list(args), kwargs=kwargs))
    # K15 (recorded finding): inspect.signature follows __wrapped__, so for a functools.wraps wrapper filter_args binds the arguments
    # against the WRAPPED function's parameters instead of the wrapper's own
    import functools

    def f3(a, b):
        return a * b

    @functools.wraps(f3)
    def wrapper(scale, *args, **kw):
        return scale * f3(*args, **kw)
    got = filter_args(wrapper, [], (2, 1, 5), {})
    known["K15"] = ("filter_args(wrapper(scale, *args, **kw) wrapping f3(a, b), (2, 1, 5)) -> %r" % (got,)) if got != {"scale": 2, "*": [1, 5], "**": {}} else False
    return dict(violation=False, cases=cases, accepted=accepted, known=known)


if __name__ == "__main__":
    out = search(int(sys.argv[1]))
    print(json.dumps(out, default=repr))
    sys.exit(1 if out["violation"] else 0)
