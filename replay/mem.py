"""Native bounded scenarios for the Memory properties (C02, C05, C06, C12) on the REAL code. One JSON line.
Known findings (K3, K5) are probed and reported under "known" (they do not make the run a violation)."""
import json
import os
import shutil
import sys
import tempfile
import textwrap
import types
import warnings

warnings.simplefilter("ignore")


def fresh_process_state():
    import joblib.memory as jm
    jm._FUNCTION_HASHES.clear()


def define(src, name="f", modname="usermod"):
    """Define a function from source in a synthetic module with a real file (so that inspect finds the code)."""
    d = define.dir
    path = os.path.join(d, "%s_%d.py" % (modname, define.n))
    define.n += 1
    with open(path, "w") as fh:
        fh.write(textwrap.dedent(src))
    ns = {"__name__": modname, "__file__": path}
    code = compile(open(path).read(), path, "exec")
    exec(code, ns)
    import linecache
    linecache.checkcache(path)
    return ns[name]


define.n = 0


def scenarios(which):
    from joblib import Memory, expires_after
    from joblib.memory import extract_first_line, FIRST_LINE_TEXT
    cases = 0
    known = {}
    root = tempfile.mkdtemp(prefix="pyvc_mem_")
    define.dir = os.path.join(root, "src")
    os.makedirs(define.dir)
    calls = []
    try:
        # ---------------- C02 / C06: call forms, ignore list, no sharing between different arguments
        if which in ("all", "C02", "C06"):
            mem = Memory(os.path.join(root, "c1"), verbose=0)
            src = """
            CALLS = []
            def f(a, b=2, *args, c=3, **kw):
                CALLS.append((a, b, args, c, kw))
                return ("f", a, b, args, c, sorted(kw.items()))
            """
            f = define(src)
            log = f.__globals__["CALLS"]
            cf = mem.cache(f)
            forms = [((1,), {}), ((1, 2), {}), ((1,), {"b": 2}), ((), {"a": 1}), ((), {"a": 1, "b": 2, "c": 3}), ((1,), {"c": 3})]
            for a, k in forms:
                cases += 1
                before = len(log)
                if cf(*a, **k) != f(*a, **k):
                    return dict(violation=True, cases=cases, what="cached value differs from the function's value", witness=[a, k])
                log.pop()
            if len(log) != 1:
                return dict(violation=True, cases=cases, what="equivalent call forms executed the body %d times" % len(log), witness=forms)
            for a, k in [((1, 5), {}), ((1, 2, 9), {}), ((1,), {"c": 4}), ((1,), {"z": 1}), ((2,), {})]:
                cases += 1
                n = len(log)
                if cf(*a, **k) != ("f",) + f(*a, **k)[1:]:
                    return dict(violation=True, cases=cases, what="value of other arguments returned", witness=[a, k])
                log.pop()
                if len(log) != n + 1:
                    return dict(violation=True, cases=cases, what="different arguments were served from the cache", witness=[a, k])
                if not cf.check_call_in_cache(*a, **k):
                    return dict(violation=True, cases=cases, what="check_call_in_cache False right after the call", witness=[a, k])
            # dict / set arguments built in another order, ignored parameter
            g = define("""
            CALLS = []
            def g(d, s, dbg=None):
                CALLS.append(1)
                return sorted(d.items()), sorted(s)
            """, "g")
            cg = mem.cache(g, ignore=["dbg"])
            cg({"x": 1, "y": 2}, {3, 1, 2}, dbg=1)
            cg({"y": 2, "x": 1}, {2, 3, 1}, dbg=2)
            cases += 1
            if len(g.__globals__["CALLS"]) != 1:
                return dict(violation=True, cases=cases, what="reordered dict/set or ignored parameter caused a recomputation", witness="g")
            ref = cg.call_and_shelve({"x": 1}, {1})
            cases += 1
            if ref.get() != g({"x": 1}, {1}):
                return dict(violation=True, cases=cases, what="call_and_shelve(...).get() differs", witness="g")

            # every call the plain function accepts is accepted by the cached wrapper: parameters named like the wrapper's own
            if which in ("all", "C06"):
                for pname in ("self", "func", "args", "kwargs", "call_id", "shelving"):
                    m_like = define("def m(%s, x=1):\n    return ('m', %s, x)\n" % (pname, pname), "m", "modkwname_" + pname)
                    cm_ = mem.cache(m_like)
                    kw_any = define("def k(**kw):\n    return sorted(kw.items())\n", "k", "modkwany_" + pname)
                    ck_ = mem.cache(kw_any)
                    for label, fn, plain in (("__call__", cm_, m_like), ("__call__", ck_, kw_any), ("call_and_shelve", cm_, m_like), ("call", cm_, m_like),
                                             ("check_call_in_cache", cm_, m_like)):
                        cases += 1
                        want = plain(**{pname: 7})
                        try:
                            if label == "__call__":
                                got = fn(**{pname: 7})
                            elif label == "call_and_shelve":
                                got = fn.call_and_shelve(**{pname: 7}).get()
                            elif label == "call":
                                got = fn.call(**{pname: 7})[0]
                            else:
                                got = want if fn.check_call_in_cache(**{pname: 7}) in (True, False) else None
                        except TypeError as e:
                            return dict(violation=True, cases=cases, what="the cached wrapper rejects a call the plain function accepts: %s(%s=7) raised %r" % (label, pname, e),
                                        witness=dict(parameter_name=pname, entry_point=label))
                        if got != want:
                            return dict(violation=True, cases=cases, what="keyword %s=7 through %s gave %r instead of %r" % (pname, label, got, want), witness=pname)

        # ---------------- C12: changed definitions
        if which in ("all", "C12"):
            mem = Memory(os.path.join(root, "c2"), verbose=0)
            v1 = define("def h(x):\n    return ('v1', x)\n", "h", "modc12")
            c1 = mem.cache(v1)
            cases += 1
            assert c1(1) == ("v1", 1)
            fresh_process_state()  # "edited between sessions"
            v2 = define("def h(x):\n    return ('v2', x)\n", "h", "modc12")
            c2 = mem.cache(v2)
            cases += 1
            if c2(1) != ("v2", 1):
                return dict(violation=True, cases=cases, what="new definition returned a value cached by the old one: %r" % (c2(1),), witness="session edit")
            fresh_process_state()
            c2b = mem.cache(v2)
            n0 = 0
            cases += 1
            if c2b(1) != ("v2", 1) or not c2b.check_call_in_cache(1):
                return dict(violation=True, cases=cases, what="unchanged code lost its cache across sessions", witness="v2 again")
            # code object swapped
            v3 = define("def h(x):\n    return ('v3', x)\n", "h", "modc12")
            v2.__code__ = v3.__code__
            cases += 1
            r = c2b(1)
            if r != ("v3", 1):
                return dict(violation=True, cases=cases, what="swapped code object not noticed: %r" % (r,), witness="__code__ swap")
            # an edit that only changes indentation changes the meaning
            mem6 = Memory(os.path.join(root, "c6"), verbose=0)
            w1 = define("def w(n):\n    out = []\n    for i in range(n):\n        pass\n    out.append(n)\n    return out\n", "w", "modc12w")
            cases += 1
            assert mem6.cache(w1)(3) == [3]
            fresh_process_state()
            w2 = define("def w(n):\n    out = []\n    for i in range(n):\n        pass\n        out.append(n)\n    return out\n", "w", "modc12w")
            r = mem6.cache(w2)(3)
            cases += 1
            if r != [3, 3, 3]:
                return dict(violation=True, cases=cases, what="re-indented definition returned the old definition's value %r" % (r,), witness="indentation-only edit")
            # the code object swapped forth and back: A -> B -> A
            mem7 = Memory(os.path.join(root, "c7"), verbose=0)
            hs = define("def h(a, b):\n    return ('sum', a + b)\n", "h", "modswap")
            hp = define("def h(a, b):\n    return ('prod', a * b)\n", "h", "modswap")
            chs = mem7.cache(hs)
            code_a = hs.__code__
            seq = [chs(2, 5)]
            hs.__code__ = hp.__code__
            seq.append(chs(2, 5))
            hs.__code__ = code_a
            seq.append(chs(2, 5))
            cases += 3
            if seq != [("sum", 7), ("prod", 10), ("sum", 7)]:
                return dict(violation=True, cases=cases, what="code object swapped A -> B -> A: calls returned %r" % (seq,), witness="f.__code__ = B.__code__; f.__code__ = A's code again")
            # the same function cached in two locations: location 2 holds entries of the old code from an earlier session
            loc1, loc2 = os.path.join(root, "c8a"), os.path.join(root, "c8b")
            t1 = define("def t(x):\n    return ('t-old', x)\n", "t", "modtwoloc")
            Memory(loc2, verbose=0).cache(t1)(0)
            fresh_process_state()
            t2 = define("def t(x):\n    return ('t-new', x)\n", "t", "modtwoloc")
            r1 = Memory(loc1, verbose=0).cache(t2)(0)
            r2 = Memory(loc2, verbose=0).cache(t2)(0)
            cases += 2
            if (r1, r2) != (("t-new", 0), ("t-new", 0)):
                return dict(violation=True, cases=cases, what="function cached in two locations: after a call through location 1 the call through location 2 returned %r" % (r2,),
                            witness="session 1: Memory(loc2).cache(old)(0); session 2 (edited): Memory(loc1).cache(new)(0); Memory(loc2).cache(new)(0)")
            # entries written by forced calls only (MemorizedFunc.call), then the function is edited
            loc9 = os.path.join(root, "c9")
            u1 = define("def u(x):\n    return ('u-old', x)\n", "u", "modforced")
            cu = Memory(loc9, verbose=0).cache(u1)
            for i in range(3):
                cu.call(i)
            fresh_process_state()
            u2 = define("def u(x):\n    return ('u-new', x)\n", "u", "modforced")
            cu2 = Memory(loc9, verbose=0).cache(u2)
            got = [cu2(i) for i in range(3)]
            cases += 3
            if got != [("u-new", i) for i in range(3)]:
                return dict(violation=True, cases=cases, what="entries written by forced calls survive an edit of the function: %r" % (got,),
                            witness="session 1: f.call(0), f.call(1), f.call(2) only; session 2 (edited): f(0), f(1), f(2)")
            # K5: older still-referenced definition (same session)
            mem5 = Memory(os.path.join(root, "c5"), verbose=0)
            a = define("def k(x):\n    return ('a', x)\n", "k", "modk5")
            b = define("def k(x):\n    return ('b', x)\n", "k", "modk5")
            ca, cb = mem5.cache(a), mem5.cache(b)
            ca(1); cb(1)
            known["K5"] = ca(1) != ("a", 1)

        # ---------------- C05: crash states, fresh process, with and without expires_after
        if which in ("all", "C05"):
            for cvc in (None, expires_after(days=1)):
                base = os.path.join(root, "c3_%s" % (cvc is not None))
                q = define("def q(x):\n    return ('q', x)\n", "q", "modc5")
                mem = Memory(base, verbose=0)
                cq = mem.cache(q, cache_validation_callback=cvc)
                cq(1)
                func_dir = os.path.join(base, "joblib", cq.func_id)
                entry = [d for d in os.listdir(func_dir) if os.path.isdir(os.path.join(func_dir, d))][0]
                snap = base + "_snap"
                shutil.copytree(base, snap)
                code_path = os.path.join(cq.func_id, "func_code.py")
                code_len = os.path.getsize(os.path.join(base, "joblib", code_path))
                states = [("no-metadata", lambda r: os.unlink(os.path.join(r, "joblib", cq.func_id, entry, "metadata.json"))),
                          ("no-output", lambda r: os.unlink(os.path.join(r, "joblib", cq.func_id, entry, "output.pkl"))),
                          ("empty-entry-dir", lambda r: [os.unlink(os.path.join(r, "joblib", cq.func_id, entry, x)) for x in os.listdir(os.path.join(r, "joblib", cq.func_id, entry))]),
                          ("leftover-temp", lambda r: open(os.path.join(r, "joblib", cq.func_id, entry, "output.pkl.thread-1-pid-2"), "wb").write(b"\x80\x04")),
                          ("torn-output", lambda r: open(os.path.join(r, "joblib", cq.func_id, entry, "output.pkl"), "r+b").truncate(5)),
                          ("torn-metadata", lambda r: open(os.path.join(r, "joblib", cq.func_id, entry, "metadata.json"), "r+b").truncate(7)),
                          ("no-func-dir-content", lambda r: shutil.rmtree(os.path.join(r, "joblib", cq.func_id)))]
                for n in range(0, code_len):
                    states.append(("torn-func_code@%d" % n, lambda r, n=n: open(os.path.join(r, "joblib", code_path), "r+b").truncate(n)))
                for label, damage in states:
                    cases += 1
                    shutil.rmtree(base)
                    shutil.copytree(snap, base)
                    damage(base)
                    fresh_process_state()
                    m2 = Memory(base, verbose=0)
                    c2 = m2.cache(q, cache_validation_callback=cvc)
                    try:
                        r = c2(1)
                    except Exception as e:
                        return dict(violation=True, cases=cases, what="crash state %s: the call raised %r" % (label, e), witness=dict(state=label, callback=cvc is not None))
                    if r != ("q", 1):
                        return dict(violation=True, cases=cases, what="crash state %s: wrong value %r" % (label, r), witness=label)
            # K3: func_code.py removed first by a crash inside clear, stale entry kept, code changed
            base = os.path.join(root, "c4")
            old = define("def w(x):\n    return ('old', x)\n", "w", "modk3")
            m = Memory(base, verbose=0)
            co = m.cache(old)
            co(1)
            co(2)
            os.unlink(os.path.join(base, "joblib", co.func_id, "func_code.py"))
            fresh_process_state()
            new = define("def w(x):\n    return ('new', x)\n", "w", "modk3")
            cn = Memory(base, verbose=0).cache(new)
            cn(1)
            known["K3"] = cn(2) != ("new", 2)

        # ---------------- extract_first_line: inverse of the formatting, total on every prefix
        if which in ("all", "C05", "C12"):
            for line in (-1, 0, 7, 123456):
                for code in ("def f(x):\n    return x\n", "", "x = 1"):
                    text = "%s %i\n%s" % (FIRST_LINE_TEXT, line, code)
                    cases += 1
                    if extract_first_line(text) != (code, line):
                        return dict(violation=True, cases=cases, what="extract_first_line is not the inverse of the header formatting", witness=text)
                    for n in range(len(text)):
                        cases += 1
                        try:
                            extract_first_line(text[:n])
                        except Exception as e:
                            return dict(violation=True, cases=cases, what="extract_first_line raised %r on a torn file" % (e,), witness=text[:n])
    finally:
        shutil.rmtree(root, ignore_errors=True)
    return dict(violation=False, cases=cases, known=known)


if __name__ == "__main__":
    try:
        out = scenarios(sys.argv[1] if len(sys.argv) > 1 else "all")
    except Exception as e:
        import traceback
        out = dict(violation=True, cases=0, what="harness/scenario exception %r" % (e,), witness=traceback.format_exc()[-800:])
    print(json.dumps(out, default=repr))
    sys.exit(1 if out["violation"] else 0)
